// ---- specification of unit `nonstrict` (C11, clause b)
pub closed spec fn vk_red(k: ValueKnowledge) -> Option<ValueReduction> { k.reduces_to }
pub closed spec fn vk_of(m: Meta) -> Option<ValueReduction> { vk_red(m.value_knowledge) }
pub closed spec fn tk_of(m: Meta) -> TypeKnowledge { m.type_knowledge }
pub open spec fn expr_meta(e: Expression) -> Meta {
    match e {
        Expression::InfixOp { meta, .. } => meta,
        Expression::PrefixOp { meta, .. } => meta,
        Expression::SwitchOp { meta, .. } => meta,
        Expression::Variable { meta, .. } => meta,
        Expression::Number(meta, _) => meta,
        Expression::Call { meta, .. } => meta,
        Expression::InlineArray { meta, .. } => meta,
        Expression::Access { meta, .. } => meta,
        Expression::Update { meta, .. } => meta,
        Expression::Phi { meta, .. } => meta,
    }
}
pub open spec fn ann(e: Expression) -> Option<ValueReduction> { vk_of(expr_meta(e)) }
// the size argument is a compile-time constant smaller than `bits`
pub open spec fn size_ok(arg: Expression, bits: int) -> bool {
    match ann(arg) { Some(ValueReduction::FieldElement { value }) => value@ < bits, _ => false }
}
// the call a component initialisation `var = name(args)` makes, if the statement is one (the Update wrapper of
// array / component-signal assignments is looked through)
pub open spec fn init_call(st: Statement) -> Option<Expression> {
    match st {
        Statement::Substitution { meta, op: AssignOp::AssignLocalOrComponent, rhe, .. } =>
            if tk_local(tk_of(meta)) || tk_signal(tk_of(meta)) { None }
            else {
                let inner = match rhe { Expression::Update { rhe: r2, .. } => *r2, _ => rhe };
                if inner is Call { Some(inner) } else { None }
            },
        _ => None,
    }
}
pub open spec fn is_conversion(name: String) -> bool { name@ == "Num2Bits"@ || name@ == "Bits2Num"@ }
// "an instantiation Num2Bits(n) or Bits2Num(n) is flagged unless n is a compile-time constant smaller than the bit size of the prime"
pub open spec fn flagged(st: Statement, bits: int) -> bool {
    match init_call(st) {
        Some(Expression::Call { name, args, .. }) => is_conversion(name) && args@.len() == 1 && !size_ok(args@[0], bits),
        _ => false,
    }
}
