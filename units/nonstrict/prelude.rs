// ---- prelude of unit `nonstrict`: opaque neighbours (T3)
pub type FileID = usize;
pub type FileLocation = std::ops::Range<usize>;
pub type Index = usize;
#[verifier::external_body] pub struct VariableName { _o: Vec<u8> }
#[verifier::external_body] pub struct DegreeKnowledge { _o: Vec<u8> }
#[verifier::external_body] pub struct VariableKnowledge { _o: Vec<u8> }
#[verifier::external_body] pub struct VariableType { _o: Vec<u8> }
#[verifier::external_body] pub struct ValueEnvironment { _o: Vec<u8> }
#[verifier::external_body] #[verifier::accept_recursive_types(T)] pub struct NonEmptyVec<T> { _o: Vec<T> }
#[verifier::external_body] pub struct Report { _o: Vec<u8> }
pub type ReportCollection = Vec<Report>;
// type_meta.rs: is the assigned name a local variable / a signal? (two observers of TypeKnowledge)
#[verifier::external_body] pub struct TypeKnowledge { _o: Vec<u8> }
pub uninterp spec fn tk_local(t: TypeKnowledge) -> bool;
pub uninterp spec fn tk_signal(t: TypeKnowledge) -> bool;
impl TypeKnowledge {
    #[verifier::external_body]
    pub fn is_local(&self) -> (r: bool) ensures r == tk_local(*self) { unimplemented!() }
    #[verifier::external_body]
    pub fn is_signal(&self) -> (r: bool) ensures r == tk_signal(*self) { unimplemented!() }
}
// `component_name == "Num2Bits"`: equality of the character sequences (String: PartialEq<str>)
#[verifier::external_body]
fn __h_name_is(name: &String, lit: &str) -> (r: bool)
    ensures r == (name@ == lit@)
{ unimplemented!() }
// the two report constructors of the pass (opaque)
#[verifier::external_body]
fn build_num2bits(meta: &Meta) -> Report { unimplemented!() }
#[verifier::external_body]
fn build_bits2num(meta: &Meta) -> Report { unimplemented!() }
