// ---- prelude of unit `shortcuts`: opaque neighbours (T3)
use Statement::*;
use Expression::*;
pub type FileID = usize;
pub type FileLocation = std::ops::Range<usize>;
#[verifier::external_body] pub struct Meta { _o: Vec<u8> }
#[verifier::external_body] pub struct VariableType { _o: Vec<u8> }
#[verifier::external_body] pub struct BigInt { _o: Vec<u8> }
pub uninterp spec fn big_val(b: BigInt) -> int;
impl Clone for Meta { #[verifier::external_body] fn clone(&self) -> (r: Meta) ensures r == *self { unimplemented!() } }
impl Clone for Access { #[verifier::external_body] fn clone(&self) -> (r: Access) ensures r == *self { unimplemented!() } }
// `BigInt::from(1)`
#[verifier::external_body]
fn __h_one() -> (r: BigInt) ensures big_val(r) == 1 { unimplemented!() }
// `vec![a, b]`
fn __h_vec2(a: Statement, b: Statement) -> (r: Vec<Statement>)
    ensures r@ == seq![a, b]
{
    let mut v = Vec::new();
    v.push(a);
    v.push(b);
    v
}
// String::clone and Vec<Access>::clone return equal values
#[verifier::external_body]
fn __h_clone_string(s: &String) -> (r: String) ensures r@ == s@ { unimplemented!() }
#[verifier::external_body]
fn __h_clone_access(a: &Vec<Access>) -> (r: Vec<Access>) ensures r@ == a@ { unimplemented!() }
