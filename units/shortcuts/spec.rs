// ---- specification of unit `shortcuts` (C13, the expansion clause)
// `for (init; cond; step) body` is `{ init; while (cond) { body; step } }`
pub open spec fn is_for_expansion(r: Statement, init: Statement, cond: Expression, step: Statement, body: Statement) -> bool {
    r matches Statement::Block { stmts, .. }
        && stmts@.len() == 2 && stmts@[0] == init
        && (stmts@[1] matches Statement::While { cond: c, stmt: w, .. } && c == cond
            && (*w matches Statement::Block { stmts: inner, .. } && inner@ == seq![body, step]))
}
// `x[a..] op= e` is `x[a..] = x[a..] op e`
pub open spec fn is_compound_expansion(r: Statement, var: Seq<char>, access: Seq<Access>, op: ExpressionInfixOpcode, rhe: Expression) -> bool {
    r matches Statement::Substitution { var: v, access: a, op: o, rhe: e, .. }
        && v@ == var && a@ == access && o == AssignOp::AssignVar
        && (e matches Expression::InfixOp { lhe, infix_op, rhe: r2, .. } && infix_op == op && *r2 == rhe
            && (*lhe matches Expression::Variable { name, access: a2, .. } && name@ == var && a2@ == access))
}
pub open spec fn is_number(e: Expression, v: int) -> bool { e matches Expression::Number(_, b) && big_val(b) == v }
// `x++` / `x--` are `x = x + 1` / `x = x - 1`
pub open spec fn is_step_expansion(r: Statement, var: Seq<char>, access: Seq<Access>, op: ExpressionInfixOpcode) -> bool {
    r matches Statement::Substitution { var: v, access: a, op: o, rhe: e, .. }
        && v@ == var && a@ == access && o == AssignOp::AssignVar
        && (e matches Expression::InfixOp { lhe, infix_op, rhe: r2, .. } && infix_op == op && is_number(*r2, 1)
            && (*lhe matches Expression::Variable { name, access: a2, .. } && name@ == var && a2@ == access))
}
