// ---- prelude of unit `field` (everything BigInt is in ../_shared/bigint.rs)
// `impl From<bool> for u8`: "false -> 0, true -> 1" (std documentation)
pub assume_specification[ <u8 as core::convert::From<bool>>::from ](b: bool) -> (r: u8)
    ensures r == (if b { 1u8 } else { 0u8 });
