// ---- specification of unit `field` (C16): Circom's field semantics, written from the property statement and the
// Circom operator documentation. p is the field modulus; `%` and `/` on `int` are Euclidean in Verus.
use vstd::arithmetic::div_mod::*;
use vstd::arithmetic::mul::*;

pub open spec fn canon(a: int, p: int) -> bool { 0 <= a < p }

// "every supported prime": a modulus below 2^256 for which Z/p is a field (every non-zero residue is invertible).
// For a prime p this is Bezout's identity (standard, not re-proved here); the three supported primes satisfy it.
pub open spec fn has_inverse(b: int, p: int) -> bool { exists|x: int| 0 <= x < p && (#[trigger] (x * b)) % p == 1 }
pub open spec fn field_ok(p: int) -> bool {
    2 < p < ipow2(256) && forall|b: int| 0 < b < p ==> #[trigger] has_inverse(b, p)
}

// signed representative in (-p/2, p/2]
pub open spec fn sgn(a: int, p: int) -> int { if a > p / 2 { a - p } else { a } }
pub open spec fn b2i(b: bool) -> int { if b { 1 } else { 0 } }

pub open spec fn f_add(a: int, b: int, p: int) -> int { (a + b) % p }
pub open spec fn f_sub(a: int, b: int, p: int) -> int { (a - b) % p }
pub open spec fn f_mul(a: int, b: int, p: int) -> int { (a * b) % p }
pub open spec fn f_neg(a: int, p: int) -> int { (-a) % p }
pub open spec fn f_lt(a: int, b: int, p: int) -> bool { sgn(a % p, p) < sgn(b % p, p) }
pub open spec fn f_eq(a: int, b: int, p: int) -> bool { a % p == b % p }
pub open spec fn truthy(a: int, p: int) -> bool { a % p != 0 }

pub open spec fn bitlen(p: int) -> nat { nat_bits(p).len() }
pub open spec fn f_mask(p: int) -> int { ipow2(bitlen(p)) - 1 }
pub open spec fn shl0(a: int, k: int, p: int) -> int { nat_and(a * ipow2(k as nat), f_mask(p)) % p }
pub open spec fn shr0(a: int, k: int) -> int { a / ipow2(k as nat) }
// shifts by more than p/2 shift the other way
pub open spec fn f_shl(a: int, k: int, p: int) -> int { if k <= p / 2 { shl0(a, k, p) } else { shr0(a, p - k) } }
pub open spec fn f_shr(a: int, k: int, p: int) -> int { if k <= p / 2 { shr0(a, k) } else { shl0(a, p - k, p) } }
pub open spec fn k_eff(k: int, p: int) -> int { if k <= p / 2 { k } else { p - k } }
pub open spec fn f_compl(a: int, p: int) -> int { (ipow2(256) - 1 - a) % p }

// ---- examples taken from the property text (sanity of the oracle)
pub proof fn examples_field()
    ensures
        // comparisons are on signed representatives: p/2+1 is negative, so p/2+1 < p/2-1   (p = 7: 4 < 2)
        f_lt(4, 2, 7),
        !f_lt(3, 4, 7),
        sgn(3, 7) == 3 && sgn(4, 7) == -3,
        f_sub(2, 5, 7) == 4,
        f_neg(0, 7) == 0,
{
}

// ---- lemma: ((a rem b) + b) rem b with truncating rem is the Euclidean remainder
pub proof fn lemma_modulus(a: int, b: int)
    requires b > 0
    ensures trunc_rem(trunc_rem(a, b) + b, b) == a % b
{
    if a >= 0 {
        lemma_mod_bound(a, b);
        let x = a % b;
        lemma_mod_add_multiples_vanish(x, b);
        lemma_small_mod(x as nat, b as nat);
    } else {
        let y = (-a) % b;
        lemma_mod_bound(-a, b);
        lemma_mod_add_multiples_vanish(-y, b);
        lemma_fundamental_div_mod(-a, b);
        let k = (-a) / b;
        assert(a == -y + b * (-k)) by (nonlinear_arith) requires -a == b * k + y;
        lemma_mod_multiples_vanish(-k, -y, b);
    }
}

// ---- bit length
pub proof fn lemma_bitlen_bound(n: int, k: nat)
    requires n < ipow2(k)
    ensures nat_bits(n).len() <= k
    decreases k
{
    if n > 0 {
        if k == 0 {
            assert(ipow2(0) == 1);
        } else {
            assert(ipow2(k) == 2 * ipow2((k - 1) as nat));
            lemma_bitlen_bound(n / 2, (k - 1) as nat);
        }
    }
}

pub proof fn lemma_ipow_2(e: nat)
    ensures ipow(2, e) == ipow2(e), ipow2(e) >= 1
    decreases e
{
    if e > 0 { lemma_ipow_2((e - 1) as nat); }
}

pub proof fn lemma_ipow2_mono(a: nat, b: nat)
    requires a <= b
    ensures ipow2(a) <= ipow2(b), ipow2(a) >= 1
    decreases b
{
    lemma_ipow_2(a);
    if a < b { lemma_ipow2_mono(a, (b - 1) as nat); }
}

// n < 2^bitlen(n)
pub proof fn lemma_bitlen_upper(n: int)
    requires n >= 0
    ensures n < ipow2(nat_bits(n).len())
    decreases n
{
    if n > 0 {
        lemma_bitlen_upper(n / 2);
        assert(nat_bits(n).len() == 1 + nat_bits(n / 2).len());
        assert(ipow2(nat_bits(n).len()) == 2 * ipow2(nat_bits(n / 2).len()));
    } else {
        assert(ipow2(0) == 1);
    }
}

// truncating remainder by the literal 2 (the code computes `x % 2` on small non-negative numbers)
pub proof fn lemma_rem2()
    ensures trunc_rem(0, 2) == 0, trunc_rem(1, 2) == 1, trunc_rem(2, 2) == 0, trunc_rem(3, 2) == 1
{
    assert(trunc_rem(0, 2) == 0) by (compute);
    assert(trunc_rem(1, 2) == 1) by (compute);
    assert(trunc_rem(2, 2) == 0) by (compute);
    assert(trunc_rem(3, 2) == 1) by (compute);
}

// division as multiplication by the inverse
pub proof fn lemma_div_correct(l: int, b: int, x: int, p: int)
    requires p > 1, (x * b) % p == 1
    ensures (((l * x) % p) * b) % p == l % p, b % p != 0
{
    lemma_mul_mod_noop_left(l * x, b, p);
    assert((l * x) * b == l * (x * b)) by (nonlinear_arith);
    lemma_mul_mod_noop_right(l, x * b, p);
    assert(l * 1 == l);
    if b % p == 0 {
        lemma_mul_mod_noop_right(x, b, p);
        assert(x * 0 == 0);
        lemma_small_mod(0, p as nat);
    }
}

pub proof fn lemma_trunc_pos(a: int, b: int)
    requires a >= 0, b > 0
    ensures trunc_div(a, b) == a / b, trunc_rem(a, b) == a % b
{
}

// a left shift by at least the number of mask bits leaves nothing under the mask
pub proof fn lemma_shl_overflow(a: int, k: nat, b: nat)
    requires a >= 0, k >= b
    ensures nat_and(a * ipow2(k), ipow2(b) - 1) == 0
    decreases b
{
    lemma_ipow_2(k);
    lemma_ipow_2(b);
    let x = a * ipow2(k);
    let m = ipow2(b) - 1;
    assert(x >= 0) by (nonlinear_arith) requires a >= 0, ipow2(k) >= 1, x == a * ipow2(k);
    if b == 0 {
        assert(ipow2(0) == 1);
    } else if x > 0 {
        assert(ipow2(k) == 2 * ipow2((k - 1) as nat));
        assert(ipow2(b) == 2 * ipow2((b - 1) as nat));
        let y = a * ipow2((k - 1) as nat);
        assert(x == 2 * y) by (nonlinear_arith) requires x == a * ipow2(k), ipow2(k) == 2 * ipow2((k - 1) as nat), y == a * ipow2((k - 1) as nat);
        assert(x % 2 == 0);
        assert(x / 2 == y);
        lemma_ipow_2((b - 1) as nat);
        assert(m / 2 == ipow2((b - 1) as nat) - 1);
        lemma_shl_overflow(a, (k - 1) as nat, (b - 1) as nat);
        assert(m > 0);
        assert(nat_and(x, m) == 2 * nat_and(x / 2, m / 2) + (if x % 2 == 1 && m % 2 == 1 { 1int } else { 0int }));
    }
}

pub proof fn lemma_shr_overflow(a: int, k: nat, p: int)
    requires 0 <= a < p, k >= nat_bits(p).len()
    ensures a / ipow2(k) == 0
{
    lemma_bitlen_upper(p);
    lemma_ipow2_mono(nat_bits(p).len(), k);
    lemma_basic_div(a, ipow2(k));
}

pub proof fn lemma_shr_canon(a: int, k: nat, p: int)
    requires 0 <= a < p
    ensures 0 <= a / ipow2(k) < p, ipow2(k) >= 1
{
    lemma_ipow_2(k);
    lemma_div_pos_is_pos(a, ipow2(k));
    lemma_div_is_ordered_by_denominator(a, 1, ipow2(k));
    lemma_div_basics(a);
}

pub proof fn lemma_mul_nonneg(a: int, b: int)
    requires a >= 0, b >= 0
    ensures a * b >= 0
{
    assert(a * b >= 0) by (nonlinear_arith) requires a >= 0, b >= 0;
}

// ---- binary digits (complement_256)
pub open spec fn flip(b: u8) -> u8 { if b == 0 { 1 } else { 0 } }
pub open spec fn flip_seq(s: Seq<u8>) -> Seq<u8> { Seq::new(s.len(), |i: int| flip(s[i])) }

pub proof fn lemma_nat_bits(n: int)
    requires n >= 0
    ensures le_value(nat_bits(n)) == n, all_bits(nat_bits(n))
    decreases n
{
    if n > 0 {
        lemma_nat_bits(n / 2);
        let s = nat_bits(n);
        let t = nat_bits(n / 2);
        assert(s == seq![(n % 2) as u8] + t);
        assert(s.subrange(1, s.len() as int) =~= t);
        assert(s[0] == (n % 2) as u8);
        assert forall|i: int| 0 <= i < s.len() implies (#[trigger] s[i]) < 2 by {
            if i > 0 { assert(s[i] == t[i - 1]); }
        }
    }
}

pub proof fn lemma_push_zero(s: Seq<u8>)
    ensures le_value(s.push(0)) == le_value(s), all_bits(s) ==> all_bits(s.push(0))
    decreases s.len()
{
    let t = s.push(0);
    if s.len() == 0 {
        assert(t.subrange(1, 1) =~= Seq::<u8>::empty());
        assert(le_value(t.subrange(1, 1)) == 0);
    } else {
        let s1 = s.subrange(1, s.len() as int);
        lemma_push_zero(s1);
        assert(t.subrange(1, t.len() as int) =~= s1.push(0));
        assert(t[0] == s[0]);
    }
    if all_bits(s) {
        assert forall|i: int| 0 <= i < t.len() implies (#[trigger] t[i]) < 2 by {
            if i < s.len() { assert(t[i] == s[i]); }
        }
    }
}

pub proof fn lemma_flip_value(s: Seq<u8>)
    requires all_bits(s)
    ensures le_value(flip_seq(s)) == ipow2(s.len()) - 1 - le_value(s), all_bits(flip_seq(s))
    decreases s.len()
{
    let f = flip_seq(s);
    if s.len() == 0 {
        assert(ipow2(0) == 1);
    } else {
        let s1 = s.subrange(1, s.len() as int);
        assert forall|i: int| 0 <= i < s1.len() implies (#[trigger] s1[i]) < 2 by { assert(s1[i] == s[i + 1]); }
        lemma_flip_value(s1);
        assert(f.subrange(1, f.len() as int) =~= flip_seq(s1));
        assert(f[0] == flip(s[0]));
        assert(s[0] < 2);
        assert(ipow2(s.len()) == 2 * ipow2((s.len() - 1) as nat));
    }
    assert forall|i: int| 0 <= i < f.len() implies (#[trigger] f[i]) < 2 by {}
}

pub proof fn lemma_single_zero()
    ensures le_value(seq![0u8]) == 0, all_bits(seq![0u8])
{
    let s = seq![0u8];
    assert(s.subrange(1, 1) =~= Seq::<u8>::empty());
    assert(le_value(s.subrange(1, 1)) == 0);
}
