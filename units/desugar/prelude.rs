// ---- prelude of unit `desugar`: opaque neighbours (T3)
pub type FileLocation = std::ops::Range<usize>;
pub use statement_builders::*;
#[verifier::external_body] pub struct Meta { _o: Vec<u8> }
#[verifier::external_body] pub struct BigInt { _o: Vec<u8> }
#[verifier::external_body] pub struct VariableType { _o: Vec<u8> }
#[verifier::external_body] pub struct Report { _o: Vec<u8> }
pub type ReportCollection = Vec<Report>;
// derived Clone of ast::Meta
impl Clone for Meta {
    #[verifier::external_body]
    fn clone(&self) -> (r: Meta) ensures r == *self { unimplemented!() }
}
pub struct TupleError {}
impl TupleError {
    #[verifier::external_body]
    pub fn boxed_report(meta: &Meta, message: &str) -> Box<Report> { unimplemented!() }
}
// syntax_sugar_traits::ContainsExpression::contains_tuple, Expression::meta: results not needed for this layer
impl Expression {
    #[verifier::external_body]
    pub fn contains_tuple(&self, reports: Option<&mut ReportCollection>) -> bool { unimplemented!() }
    #[verifier::external_body]
    pub fn meta(&self) -> &Meta { unimplemented!() }
}
// expression level of the same pass and the log helpers (opaque here: this layer is about statements)
#[verifier::external_body]
fn remove_tuple_from_expression(expr: Expression) -> Result<Expression, Box<Report>> { unimplemented!() }
#[verifier::external_body]
fn separate_tuple_for_log_call(values: Vec<Expression>) -> Vec<LogArgument> { unimplemented!() }
// statement_builders::build_log_call: splits long strings, keeps expressions; always a LogCall
#[verifier::external_body]
pub fn build_log_call(meta: Meta, args: Vec<LogArgument>) -> (r: Statement)
    ensures r is LogCall
{ unimplemented!() }
// `access.to_vec()` (derived Clone of ast::Access): a copy of the access list
#[verifier::external_body]
fn __h_access_to_vec(access: &Vec<Access>) -> Vec<Access> { unimplemented!() }
