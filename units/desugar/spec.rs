// ---- specification of unit `desugar` (C18): no tuple assignment anywhere in a statement tree
// (same definition as units/cfg/spec.rs `no_multisub`, stated over the same real ast::Statement enum)
pub open spec fn no_multisub(s: Statement) -> bool
    decreases s
{
    match s {
        Statement::MultiSubstitution { .. } => false,
        Statement::InitializationBlock { initializations, .. } => all_no_multisub(initializations@, initializations@.len() as int),
        Statement::Block { stmts, .. } => all_no_multisub(stmts@, stmts@.len() as int),
        Statement::While { stmt, .. } => no_multisub(*stmt),
        Statement::IfThenElse { if_case, else_case, .. } => no_multisub(*if_case) && (match else_case { Some(e) => no_multisub(*e), None => true }),
        _ => true,
    }
}
pub open spec fn all_no_multisub(s: Seq<Statement>, n: int) -> bool
    decreases s, n
{
    if n <= 0 || n > s.len() { true } else { all_no_multisub(s, n - 1) && no_multisub(s[n - 1]) }
}
pub proof fn lemma_all_no_multisub_push(s: Seq<Statement>, x: Statement)
    requires all_no_multisub(s, s.len() as int), no_multisub(x)
    ensures all_no_multisub(s.push(x), s.len() as int + 1)
{
    lemma_all_no_multisub_prefix(s.push(x), s, s.len() as int);
}
pub proof fn lemma_all_no_multisub_prefix(a: Seq<Statement>, b: Seq<Statement>, n: int)
    requires 0 <= n <= b.len(), n <= a.len(), forall|k: int| 0 <= k < n ==> a[k] == b[k], all_no_multisub(b, n)
    ensures all_no_multisub(a, n)
    decreases n
{
    if n > 0 { lemma_all_no_multisub_prefix(a, b, n - 1); }
}
pub proof fn lemma_all_no_multisub_empty(s: Seq<Statement>)
    requires s.len() == 0
    ensures all_no_multisub(s, 0)
{}
