// ---- specification of unit `valueops` (C06 stage 1): the value Circom's semantics gives to `a op b` for known
// operands; indexed by opcode. Built on the C16 oracle (units/field/spec.rs).

// v is the field element Circom defines for `a op b` (a, b canonical)
pub open spec fn infix_val_ok(op: ExpressionInfixOpcode, a: int, b: int, p: int, v: int) -> bool {
    match op {
        ExpressionInfixOpcode::Mul => v == f_mul(a, b, p),
        ExpressionInfixOpcode::Div => b != 0 && canon(v, p) && (v * b) % p == a % p,
        ExpressionInfixOpcode::Add => v == f_add(a, b, p),
        ExpressionInfixOpcode::Sub => v == f_sub(a, b, p),
        ExpressionInfixOpcode::Pow => v == ipow(a, b as nat) % p,
        ExpressionInfixOpcode::IntDiv => b != 0 && v == a / b,
        ExpressionInfixOpcode::Mod => b != 0 && v == a % b,
        ExpressionInfixOpcode::ShiftL => v == f_shl(a, b, p),
        ExpressionInfixOpcode::ShiftR => v == f_shr(a, b, p),
        ExpressionInfixOpcode::BitOr => v == nat_or(a, b) % p,
        ExpressionInfixOpcode::BitAnd => v == nat_and(a, b) % p,
        ExpressionInfixOpcode::BitXor => v == nat_xor(a, b) % p,
        // comparisons and boolean connectives do not yield field elements in the analysis
        _ => false,
    }
}

// t is the truth value Circom defines for the comparison `a op b` (signed representatives)
pub open spec fn infix_cmp_ok(op: ExpressionInfixOpcode, a: int, b: int, p: int, t: bool) -> bool {
    match op {
        ExpressionInfixOpcode::LesserEq => t == (f_lt(a, b, p) || f_eq(a, b, p)),
        ExpressionInfixOpcode::GreaterEq => t == (f_lt(b, a, p) || f_eq(a, b, p)),
        ExpressionInfixOpcode::Lesser => t == f_lt(a, b, p),
        ExpressionInfixOpcode::Greater => t == f_lt(b, a, p),
        ExpressionInfixOpcode::Eq => t == f_eq(a, b, p),
        ExpressionInfixOpcode::NotEq => t == !f_eq(a, b, p),
        _ => false,
    }
}

pub open spec fn infix_bool_ok(op: ExpressionInfixOpcode, x: bool, y: bool, t: bool) -> bool {
    match op {
        ExpressionInfixOpcode::BoolAnd => t == (x && y),
        ExpressionInfixOpcode::BoolOr => t == (x || y),
        _ => false,
    }
}

pub open spec fn canon_val(v: Option<&ValueReduction>, p: int) -> bool {
    match v { Some(ValueReduction::FieldElement { value }) => canon(value@, p), _ => true }
}

// the claim a result makes about known operands; a result from unknown or mixed operands is never sound
pub open spec fn infix_claim_ok(op: ExpressionInfixOpcode, l: Option<&ValueReduction>, r: Option<&ValueReduction>, p: int, out: Option<ValueReduction>) -> bool {
    match out {
        None => true,
        Some(ValueReduction::FieldElement { value: v }) => match (l, r) {
            (Some(ValueReduction::FieldElement { value: a }), Some(ValueReduction::FieldElement { value: b })) => infix_val_ok(op, a@, b@, p, v@) && canon(v@, p),
            _ => false,
        },
        Some(ValueReduction::Boolean { value: t }) => match (l, r) {
            (Some(ValueReduction::FieldElement { value: a }), Some(ValueReduction::FieldElement { value: b })) => infix_cmp_ok(op, a@, b@, p, t),
            (Some(ValueReduction::Boolean { value: x }), Some(ValueReduction::Boolean { value: y })) => infix_bool_ok(op, *x, *y, t),
            _ => false,
        },
    }
}

pub open spec fn prefix_claim_ok(op: ExpressionPrefixOpcode, a: Option<&ValueReduction>, p: int, out: Option<ValueReduction>) -> bool {
    match out {
        None => true,
        Some(ValueReduction::FieldElement { value: v }) => match a {
            Some(ValueReduction::FieldElement { value: x }) => canon(v@, p) && match op {
                ExpressionPrefixOpcode::Sub => v@ == f_neg(x@, p),
                ExpressionPrefixOpcode::Complement => v@ == f_compl(x@, p),
                _ => false,
            },
            _ => false,
        },
        Some(ValueReduction::Boolean { value: t }) => match a {
            Some(ValueReduction::Boolean { value: x }) => match op { ExpressionPrefixOpcode::BoolNot => t == !*x, _ => false },
            _ => false,
        },
    }
}
