// ---- prelude of unit `valueops`
// ValueEnvironment is opaque here; its one observable is the prime (value_meta.rs: `self.constants.prime()`, T3)
#[verifier::external_body]
pub struct ValueEnvironment { _opaque: Vec<u8> }
pub uninterp spec fn env_prime(e: ValueEnvironment) -> int;
impl ValueEnvironment {
    #[verifier::external_body]
    pub fn prime(&self) -> (r: &BigInt)
        ensures r@ == env_prime(*self)
    { unimplemented!() }
}
