// ---- prelude of unit `cfg`: opaque neighbours (T3)
use std::collections::HashSet;
use vstd::std_specs::iter::IteratorSpec;
broadcast use vstd::std_specs::hash::group_hash_axioms;

pub type Index = usize;
pub use nonempty_vec::NonEmptyVec;
pub type IndexSet = HashSet<usize>;
pub type BasicBlockVec = NonEmptyVec<BasicBlock>;
#[verifier::external_body] pub struct Meta { _o: Vec<u8> }
#[verifier::external_body] pub struct Expression { _o: Vec<u8> }
#[verifier::external_body] pub struct VariableName { _o: Vec<u8> }
#[verifier::external_body] pub struct VariableType { _o: Vec<u8> }
#[verifier::external_body] pub struct AssignOp { _o: Vec<u8> }
#[verifier::external_body] pub struct LogArgument { _o: Vec<u8> }
pub mod ir { pub use super::Meta; pub use super::Statement; pub use super::Expression; }
pub type ReportCollection = Vec<Report>;
#[verifier::external_body] pub struct Report { _o: Vec<u8> }
#[verifier::external_body] pub struct IRError { _o: Vec<u8> }
pub type IRResult<T> = Result<T, IRError>;
#[verifier::external_body] pub struct Declaration { _o: Vec<u8> }
#[verifier::external_body] pub struct LiftingEnvironment { _o: Vec<u8> }
impl Declaration {
    #[verifier::external_body]
    pub fn new(name: &VariableName, var_type: &VariableType, dimensions: &Vec<Expression>, file_id: &Option<ast::FileID>, location: &ast::FileLocation) -> Declaration { unimplemented!() }
}
impl LiftingEnvironment {
    #[verifier::external_body]
    pub fn add_declaration(&mut self, declaration: &Declaration) { unimplemented!() }
}
// IR lifting of AST nodes (intermediate_representation/lifting.rs): opaque results (T3).
// (lifting of statements is the real `impl TryLift<()> for ast::Statement`, under contract in this unit)
impl TryLift<()> for ast::Meta {
    spec fn lift_pre(&self) -> bool { true }
    type IR = Meta; type Error = IRError;
    #[verifier::external_body] fn try_lift(&self, context: (), reports: &mut ReportCollection) -> Result<Meta, IRError> { unimplemented!() }
}
impl TryLift<()> for ast::Expression {
    spec fn lift_pre(&self) -> bool { true }
    type IR = Expression; type Error = IRError;
    #[verifier::external_body] fn try_lift(&self, context: (), reports: &mut ReportCollection) -> Result<Expression, IRError> { unimplemented!() }
}
impl TryLift<()> for ast::VariableType {
    spec fn lift_pre(&self) -> bool { true }
    type IR = VariableType; type Error = IRError;
    #[verifier::external_body] fn try_lift(&self, context: (), reports: &mut ReportCollection) -> Result<VariableType, IRError> { unimplemented!() }
}
impl TryLift<&ast::Meta> for String {
    spec fn lift_pre(&self) -> bool { true }
    type IR = VariableName; type Error = IRError;
    #[verifier::external_body] fn try_lift(&self, context: &ast::Meta, reports: &mut ReportCollection) -> Result<VariableName, IRError> { unimplemented!() }
}
#[verifier::external_body]
fn __h_singleton(x: usize) -> (r: HashSet<usize>) ensures r@ == set![x] { HashSet::from([x]) }
#[verifier::external_body]
fn __h_union(a: &HashSet<usize>, b: &HashSet<usize>) -> (r: HashSet<usize>) ensures r@ == a@.union(b@) { a.union(b).cloned().collect() }
#[verifier::external_body]
fn __h_lift_dimensions(dimensions: &Vec<ast::Expression>, reports: &mut ReportCollection) -> IRResult<Vec<Expression>> { unimplemented!() }
impl TryLift<()> for ast::AssignOp {
    type IR = AssignOp; type Error = IRError;
    spec fn lift_pre(&self) -> bool { true }
    #[verifier::external_body] fn try_lift(&self, context: (), reports: &mut ReportCollection) -> Result<AssignOp, IRError> { unimplemented!() }
}
// the right-hand side of a substitution: the lifted expression, wrapped in an Update node when the target is accessed (opaque, T3)
#[verifier::external_body]
fn __h_lift_rhe(meta: &ast::Meta, var: &String, access: &Vec<ast::Access>, rhe: &ast::Expression, reports: &mut ReportCollection) -> IRResult<Expression> { unimplemented!() }
#[verifier::external_body]
fn __h_lift_log_args(args: &Vec<ast::LogArgument>, reports: &mut ReportCollection) -> IRResult<Vec<LogArgument>> { unimplemented!() }
