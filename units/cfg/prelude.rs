// ---- prelude of unit `cfg`: opaque neighbours (T3)
use std::collections::HashSet;
use vstd::std_specs::iter::IteratorSpec;
broadcast use vstd::std_specs::hash::group_hash_axioms;

pub type Index = usize;
pub use nonempty_vec::NonEmptyVec;
pub type IndexSet = HashSet<usize>;
pub type BasicBlockVec = NonEmptyVec<BasicBlock>;
#[verifier::external_body] pub struct Meta { _o: Vec<u8> }
#[verifier::external_body] pub struct Expression { _o: Vec<u8> }
#[verifier::external_body] pub struct VariableName { _o: Vec<u8> }
#[verifier::external_body] pub struct VariableType { _o: Vec<u8> }
#[verifier::external_body] pub struct AssignOp { _o: Vec<u8> }
#[verifier::external_body] pub struct LogArgument { _o: Vec<u8> }
pub mod ir { pub use super::Meta; pub use super::Statement; }
