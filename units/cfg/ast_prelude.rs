// opaque neighbours inside module `ast` (T3): only ast::Statement is the real enum
pub type FileID = usize;
pub type FileLocation = std::ops::Range<usize>;
pub struct Meta { pub file_id: Option<FileID>, pub location: FileLocation, pub opaque_rest: Ghost<int> }
#[verifier::external_body] pub struct Expression { _o: Vec<u8> }
#[verifier::external_body] pub struct VariableType { _o: Vec<u8> }
#[verifier::external_body] pub struct Access { _o: Vec<u8> }
#[verifier::external_body] pub struct AssignOp { _o: Vec<u8> }
#[verifier::external_body] pub struct LogArgument { _o: Vec<u8> }
