// ---- specification of unit cfg (C12)
