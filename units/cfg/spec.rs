// ---- specification of unit `cfg` (C12): the graph-shape invariant of the block vector under construction
pub closed spec fn bb_index(b: BasicBlock) -> usize { b.index }
pub closed spec fn bb_depth(b: BasicBlock) -> usize { b.loop_depth }
pub closed spec fn bb_preds(b: BasicBlock) -> Set<usize> { b.predecessors@ }
pub closed spec fn bb_succs(b: BasicBlock) -> Set<usize> { b.successors@ }
pub closed spec fn bb_stmts(b: BasicBlock) -> Seq<Statement> { b.stmts@ }

pub open spec fn is_branch(s: Statement) -> bool { s is IfThenElse }
pub open spec fn ends_in_branch(b: BasicBlock) -> bool { bb_stmts(b).len() > 0 && is_branch(bb_stmts(b).last()) }
pub open spec fn true_target(b: BasicBlock) -> usize { bb_stmts(b).last()->IfThenElse_true_index }
pub open spec fn false_target(b: BasicBlock) -> Option<usize> { bb_stmts(b).last()->IfThenElse_false_index }
pub open spec fn succ_limit(b: BasicBlock) -> int { if ends_in_branch(b) { 2 } else { 1 } }

// the invariant (DESIGN.md §5 C12). `n` = number of blocks built so far; a branch whose true target is `n` is
// pending: its target is the block that the very next complete_basic_block creates.
pub open spec fn wf_block(v: Seq<BasicBlock>, k: int) -> bool {
    let b = v[k];
    &&& bb_index(b) == k                                                                               // I1
    &&& (forall|q: usize| #[trigger] bb_preds(b).contains(q) ==> q < v.len() && bb_succs(v[q as int]).contains(k as usize))   // I2
    &&& (forall|s: usize| #[trigger] bb_succs(b).contains(s) ==> s < v.len() && bb_preds(v[s as int]).contains(k as usize))   // I2
    &&& (k == 0 ==> bb_preds(b) =~= Set::<usize>::empty())                                          // I3
    &&& (k > 0 ==> exists|q: usize| #[trigger] bb_preds(b).contains(q) && q < k)                        // I4
    &&& (forall|i: int| 0 <= i < bb_stmts(b).len() - 1 ==> !is_branch(#[trigger] bb_stmts(b)[i]))       // I5
    &&& (ends_in_branch(b) ==> (bb_succs(b).contains(true_target(b)) || true_target(b) == v.len()))     // I6 (true target)
    &&& (ends_in_branch(b) && false_target(b) is Some ==> bb_succs(b).contains(false_target(b).unwrap()) && false_target(b).unwrap() != true_target(b))  // I6
    &&& bb_succs(b).finite() && bb_succs(b).len() <= succ_limit(b)                                      // I7
}
pub open spec fn wf_blocks(v: Seq<BasicBlock>) -> bool {
    v.len() >= 1 && forall|k: int| 0 <= k < v.len() ==> #[trigger] wf_block(v, k)
}
// block i can take the new block j = v.len() as one more successor
pub open spec fn has_room(v: Seq<BasicBlock>, i: usize) -> bool {
    let b = v[i as int];
    i < v.len()
    && bb_succs(b).len() < succ_limit(b)
    && (ends_in_branch(b) && false_target(b) is Some ==> true_target(b) == v.len())
}


// ---- the graph-shape part of the invariant (proved): indices, mirrored edges inside the vector, entry without
// predecessors, every other block has a predecessor with a smaller index (hence: reachable from the entry, and a
// dominator of a block never has a larger index)
pub open spec fn shape_block(v: Seq<BasicBlock>, k: int) -> bool {
    let b = v[k];
    &&& bb_index(b) == k
    &&& (forall|q: usize| #[trigger] bb_preds(b).contains(q) ==> q < v.len() && bb_succs(v[q as int]).contains(k as usize))
    &&& (forall|s: usize| #[trigger] bb_succs(b).contains(s) ==> s < v.len() && bb_preds(v[s as int]).contains(k as usize))
    &&& (k == 0 ==> bb_preds(b) =~= Set::<usize>::empty())
    &&& (k > 0 ==> exists|q: usize| #[trigger] bb_preds(b).contains(q) && q < k)
}
pub open spec fn shape(v: Seq<BasicBlock>) -> bool {
    v.len() >= 1 && forall|k: int| 0 <= k < v.len() ==> #[trigger] shape_block(v, k)
}
pub open spec fn in_range(s: Set<usize>, n: int) -> bool { forall|i: usize| s.contains(i) ==> i < n }

// state of the vector inside complete_basic_block: v0 = vector at entry (n blocks), j = n the new block,
// `seen` = predecessors already connected
pub open spec fn mid(v0: Seq<BasicBlock>, v: Seq<BasicBlock>, seen: Set<usize>, depth: usize) -> bool {
    let n = v0.len() as int;
    &&& v.len() == n + 1
    &&& (forall|k: int| 0 <= k < n ==> bb_index(#[trigger] v[k]) == bb_index(v0[k]) && bb_preds(v[k]) =~= bb_preds(v0[k]) && bb_depth(v[k]) == bb_depth(v0[k])
            && bb_succs(v[k]) =~= (if seen.contains(k as usize) { bb_succs(v0[k]).insert(n as usize) } else { bb_succs(v0[k]) }))
    &&& bb_index(v[n]) == n
    &&& bb_depth(v[n]) == depth
    &&& bb_preds(v[n]) =~= seen
    &&& bb_succs(v[n]) =~= Set::<usize>::empty()
    &&& bb_stmts(v[n]) =~= Seq::<Statement>::empty()
}

pub proof fn lemma_mid_shape(v0: Seq<BasicBlock>, v: Seq<BasicBlock>, seen: Set<usize>, depth: usize)
    requires shape(v0), mid(v0, v, seen, depth), in_range(seen, v0.len() as int), exists|q: usize| seen.contains(q)
    ensures shape(v)
{
    let n = v0.len() as int;
    assert forall|k: int| 0 <= k < v.len() implies #[trigger] shape_block(v, k) by {
        if k < n {
            assert(shape_block(v0, k));
            assert forall|q: usize| #[trigger] bb_preds(v[k]).contains(q) implies q < v.len() && bb_succs(v[q as int]).contains(k as usize) by {
                assert(bb_preds(v0[k]).contains(q));
                assert(shape_block(v0, q as int));
            }
            assert forall|s: usize| #[trigger] bb_succs(v[k]).contains(s) implies s < v.len() && bb_preds(v[s as int]).contains(k as usize) by {
                if s == n { assert(seen.contains(k as usize)); } else { assert(bb_succs(v0[k]).contains(s)); assert(shape_block(v0, s as int)); }
            }
            if k > 0 {
                let q = choose|q: usize| #[trigger] bb_preds(v0[k]).contains(q) && q < k;
                assert(bb_preds(v[k]).contains(q));
            }
        } else {
            let q = choose|q: usize| seen.contains(q);
            assert(bb_preds(v[k]).contains(q) && q < k);
            assert forall|q2: usize| #[trigger] bb_preds(v[k]).contains(q2) implies q2 < v.len() && bb_succs(v[q2 as int]).contains(k as usize) by {
                assert(seen.contains(q2));
            }
        }
    }
}
