// ---- specification of unit `cfg` (C12): the graph-shape invariant of the block vector under construction
pub closed spec fn bb_index(b: BasicBlock) -> usize { b.index }
pub closed spec fn bb_depth(b: BasicBlock) -> usize { b.loop_depth }
pub closed spec fn bb_preds(b: BasicBlock) -> Set<usize> { b.predecessors@ }
pub closed spec fn bb_succs(b: BasicBlock) -> Set<usize> { b.successors@ }
pub closed spec fn bb_stmts(b: BasicBlock) -> Seq<Statement> { b.stmts@ }

pub open spec fn is_branch(s: Statement) -> bool { s is IfThenElse }
pub open spec fn ends_in_branch(b: BasicBlock) -> bool { bb_stmts(b).len() > 0 && is_branch(bb_stmts(b).last()) }
pub open spec fn true_target(b: BasicBlock) -> usize { bb_stmts(b).last()->IfThenElse_true_index }
pub open spec fn false_target(b: BasicBlock) -> Option<usize> { bb_stmts(b).last()->IfThenElse_false_index }
pub open spec fn succ_limit(b: BasicBlock) -> int { if ends_in_branch(b) { 2 } else { 1 } }

// the invariant (DESIGN.md §5 C12). `n` = number of blocks built so far; a branch whose true target is `n` is
// pending: its target is the block that the very next complete_basic_block creates.
pub open spec fn wf_block(v: Seq<BasicBlock>, k: int) -> bool {
    let b = v[k];
    &&& bb_index(b) == k                                                                               // I1
    &&& (forall|q: usize| #[trigger] bb_preds(b).contains(q) ==> q < v.len() && bb_succs(v[q as int]).contains(k as usize))   // I2
    &&& (forall|s: usize| #[trigger] bb_succs(b).contains(s) ==> s < v.len() && bb_preds(v[s as int]).contains(k as usize))   // I2
    &&& (k == 0 ==> bb_preds(b) =~= Set::<usize>::empty())                                          // I3
    &&& (k > 0 ==> exists|q: usize| #[trigger] bb_preds(b).contains(q) && q < k)                        // I4
    &&& (forall|i: int| 0 <= i < bb_stmts(b).len() - 1 ==> !is_branch(#[trigger] bb_stmts(b)[i]))       // I5
    &&& (ends_in_branch(b) ==> (bb_succs(b).contains(true_target(b)) || true_target(b) == v.len()))     // I6 (true target)
    &&& (ends_in_branch(b) && false_target(b) is Some ==> bb_succs(b).contains(false_target(b).unwrap()) && false_target(b).unwrap() != true_target(b))  // I6
    &&& bb_succs(b).finite() && bb_succs(b).len() <= succ_limit(b)                                      // I7
}
pub open spec fn wf_blocks(v: Seq<BasicBlock>) -> bool {
    v.len() >= 1 && forall|k: int| 0 <= k < v.len() ==> #[trigger] wf_block(v, k)
}
// block i can take the new block j = v.len() as one more successor
pub open spec fn has_room(v: Seq<BasicBlock>, i: usize) -> bool {
    let b = v[i as int];
    i < v.len()
    && bb_succs(b).len() < succ_limit(b)
    && (ends_in_branch(b) && false_target(b) is Some ==> true_target(b) == v.len())
}


// ---- the graph-shape part of the invariant (proved): indices, mirrored edges inside the vector, entry without
// predecessors, every other block has a predecessor with a smaller index (hence: reachable from the entry, and a
// dominator of a block never has a larger index)
pub open spec fn shape_block(v: Seq<BasicBlock>, k: int) -> bool {
    let b = v[k];
    &&& bb_index(b) == k
    &&& (forall|q: usize| #[trigger] bb_preds(b).contains(q) ==> q < v.len() && bb_succs(v[q as int]).contains(k as usize))
    &&& (forall|s: usize| #[trigger] bb_succs(b).contains(s) ==> s < v.len() && bb_preds(v[s as int]).contains(k as usize))
    &&& (k == 0 ==> bb_preds(b) =~= Set::<usize>::empty())
    &&& (k > 0 ==> exists|q: usize| #[trigger] bb_preds(b).contains(q) && q < k)
}
pub open spec fn shape(v: Seq<BasicBlock>) -> bool {
    v.len() >= 1 && forall|k: int| 0 <= k < v.len() ==> #[trigger] shape_block(v, k)
}
pub open spec fn in_range(s: Set<usize>, n: int) -> bool { forall|i: usize| s.contains(i) ==> i < n }

// state of the vector inside complete_basic_block: v0 = vector at entry (n blocks), j = n the new block,
// `seen` = predecessors already connected
pub open spec fn mid(v0: Seq<BasicBlock>, v: Seq<BasicBlock>, seen: Set<usize>, depth: usize) -> bool {
    let n = v0.len() as int;
    &&& v.len() == n + 1
    &&& (forall|k: int| 0 <= k < n ==> bb_index(#[trigger] v[k]) == bb_index(v0[k]) && bb_preds(v[k]) =~= bb_preds(v0[k]) && bb_depth(v[k]) == bb_depth(v0[k])
            && bb_succs(v[k]) =~= (if seen.contains(k as usize) { bb_succs(v0[k]).insert(n as usize) } else { bb_succs(v0[k]) }))
    &&& bb_index(v[n]) == n
    &&& bb_depth(v[n]) == depth
    &&& bb_preds(v[n]) =~= seen
    &&& bb_succs(v[n]) =~= Set::<usize>::empty()
    &&& bb_stmts(v[n]) =~= Seq::<Statement>::empty()
}

pub proof fn lemma_mid_shape(v0: Seq<BasicBlock>, v: Seq<BasicBlock>, seen: Set<usize>, depth: usize)
    requires shape(v0), mid(v0, v, seen, depth), in_range(seen, v0.len() as int), exists|q: usize| seen.contains(q)
    ensures shape(v)
{
    let n = v0.len() as int;
    assert forall|k: int| 0 <= k < v.len() implies #[trigger] shape_block(v, k) by {
        if k < n {
            assert(shape_block(v0, k));
            assert forall|q: usize| #[trigger] bb_preds(v[k]).contains(q) implies q < v.len() && bb_succs(v[q as int]).contains(k as usize) by {
                assert(bb_preds(v0[k]).contains(q));
                assert(shape_block(v0, q as int));
            }
            assert forall|s: usize| #[trigger] bb_succs(v[k]).contains(s) implies s < v.len() && bb_preds(v[s as int]).contains(k as usize) by {
                if s == n { assert(seen.contains(k as usize)); } else { assert(bb_succs(v0[k]).contains(s)); assert(shape_block(v0, s as int)); }
            }
            if k > 0 {
                let q = choose|q: usize| #[trigger] bb_preds(v0[k]).contains(q) && q < k;
                assert(bb_preds(v[k]).contains(q));
            }
        } else {
            let q = choose|q: usize| seen.contains(q);
            assert(bb_preds(v[k]).contains(q) && q < k);
            assert forall|q2: usize| #[trigger] bb_preds(v[k]).contains(q2) implies q2 < v.len() && bb_succs(v[q2 as int]).contains(k as usize) by {
                assert(seen.contains(q2));
            }
        }
    }
}

// ---- the AST side (module `ast` holds the real ast::Statement enum)
pub open spec fn is_plain(s: ast::Statement) -> bool {
    !(s is Block || s is While || s is IfThenElse || s is InitializationBlock)
}
// grammar fact taken as a precondition: initialization blocks only contain declarations and substitutions
pub open spec fn init_wf(s: ast::Statement) -> bool
    decreases s
{
    match s {
        ast::Statement::InitializationBlock { initializations, .. } => all_plain(initializations@, initializations@.len() as int),
        ast::Statement::Block { stmts, .. } => all_init_wf(stmts@, stmts@.len() as int),
        ast::Statement::While { stmt, .. } => init_wf(*stmt),
        ast::Statement::IfThenElse { if_case, else_case, .. } => init_wf(*if_case) && (match else_case { Some(e) => init_wf(*e), None => true }),
        _ => true,
    }
}
pub open spec fn all_plain(s: Seq<ast::Statement>, n: int) -> bool
    decreases n
{
    if n <= 0 || n > s.len() { true } else { all_plain(s, n - 1) && is_plain(s[n - 1]) }
}
pub open spec fn all_init_wf(s: Seq<ast::Statement>, n: int) -> bool
    decreases s, n
{
    if n <= 0 || n > s.len() { true } else { all_init_wf(s, n - 1) && init_wf(s[n - 1]) }
}
// an upper bound on the number of blocks a statement adds (resource bound for the usize index arithmetic)
pub open spec fn weight(s: ast::Statement) -> nat
    decreases s
{
    match s {
        ast::Statement::While { stmt, .. } => 2 + weight(*stmt),
        ast::Statement::IfThenElse { if_case, else_case, .. } => 2 + weight(*if_case) + (match else_case { Some(e) => weight(*e), None => 0 }),
        ast::Statement::Block { stmts, .. } => seq_weight(stmts@, stmts@.len() as int),
        _ => 0,
    }
}
pub open spec fn seq_weight(s: Seq<ast::Statement>, n: int) -> nat
    decreases s, n
{
    if n <= 0 || n > s.len() { 0 } else { seq_weight(s, n - 1) + 1 + weight(s[n - 1]) }
}
// loop nesting height (bound for `loop_depth + 1`)
pub open spec fn height(s: ast::Statement) -> nat
    decreases s
{
    match s {
        ast::Statement::While { stmt, .. } => 1 + height(*stmt),
        ast::Statement::IfThenElse { if_case, else_case, .. } => {
            let a = height(*if_case); let b = (match else_case { Some(e) => height(*e), None => 0 }); if a >= b { a } else { b }
        }
        ast::Statement::Block { stmts, .. } => seq_height(stmts@, stmts@.len() as int),
        _ => 0,
    }
}
pub open spec fn seq_height(s: Seq<ast::Statement>, n: int) -> nat
    decreases s, n
{
    if n <= 0 || n > s.len() { 0 } else { let a = seq_height(s, n - 1); let b = height(s[n - 1]); if a >= b { a } else { b } }
}
pub proof fn lemma_all_plain_elem(s: Seq<ast::Statement>, n: int, k: int)
    requires 0 <= k < n <= s.len(), all_plain(s, n)
    ensures is_plain(s[k])
    decreases n
{ if k < n - 1 { lemma_all_plain_elem(s, n - 1, k); } }
pub proof fn lemma_all_init_wf_elem(s: Seq<ast::Statement>, n: int, k: int)
    requires 0 <= k < n <= s.len(), all_init_wf(s, n)
    ensures init_wf(s[k])
    decreases n
{ if k < n - 1 { lemma_all_init_wf_elem(s, n - 1, k); } }
pub proof fn lemma_seq_weight_mono(s: Seq<ast::Statement>, i: int, n: int)
    requires 0 <= i <= n <= s.len()
    ensures seq_weight(s, i) <= seq_weight(s, n)
    decreases n - i
{ if i < n { lemma_seq_weight_mono(s, i, n - 1); } }
pub proof fn lemma_seq_height_elem(s: Seq<ast::Statement>, n: int, k: int)
    requires 0 <= k < n <= s.len()
    ensures height(s[k]) <= seq_height(s, n)
    decreases n
{ if k < n - 1 { lemma_seq_height_elem(s, n - 1, k); } }

// changing only the statements of blocks keeps the shape
pub proof fn lemma_same_edges(v: Seq<BasicBlock>, w: Seq<BasicBlock>)
    requires shape(v), w.len() == v.len(),
        forall|k: int| 0 <= k < v.len() ==> bb_index(#[trigger] w[k]) == bb_index(v[k]) && bb_preds(w[k]) =~= bb_preds(v[k]) && bb_succs(w[k]) =~= bb_succs(v[k])
    ensures shape(w)
{
    assert forall|k: int| 0 <= k < w.len() implies #[trigger] shape_block(w, k) by {
        assert(shape_block(v, k));
        assert forall|q: usize| #[trigger] bb_preds(w[k]).contains(q) implies q < w.len() && bb_succs(w[q as int]).contains(k as usize) by { assert(bb_preds(v[k]).contains(q)); }
        assert forall|s: usize| #[trigger] bb_succs(w[k]).contains(s) implies s < w.len() && bb_preds(w[s as int]).contains(k as usize) by { assert(bb_succs(v[k]).contains(s)); }
        if k > 0 { let q = choose|q: usize| #[trigger] bb_preds(v[k]).contains(q) && q < k; assert(bb_preds(w[k]).contains(q)); }
    }
}
// adding the edge i -> h (h not the entry) keeps the shape
pub proof fn lemma_add_edge(v: Seq<BasicBlock>, w: Seq<BasicBlock>, i: usize, h: usize)
    requires shape(v), w.len() == v.len(), i < v.len(), 1 <= h < v.len(),
        forall|k: int| 0 <= k < v.len() ==> bb_index(#[trigger] w[k]) == bb_index(v[k])
            && bb_preds(w[k]) =~= (if k == h { bb_preds(v[k]).insert(i) } else { bb_preds(v[k]) })
            && bb_succs(w[k]) =~= (if k == i { bb_succs(v[k]).insert(h) } else { bb_succs(v[k]) })
    ensures shape(w)
{
    assert forall|k: int| 0 <= k < w.len() implies #[trigger] shape_block(w, k) by {
        assert(shape_block(v, k));
        assert forall|q: usize| #[trigger] bb_preds(w[k]).contains(q) implies q < w.len() && bb_succs(w[q as int]).contains(k as usize) by {
            if !(k == h && q == i) { assert(bb_preds(v[k]).contains(q)); }
        }
        assert forall|s: usize| #[trigger] bb_succs(w[k]).contains(s) implies s < w.len() && bb_preds(w[s as int]).contains(k as usize) by {
            if !(k == i && s == h) { assert(bb_succs(v[k]).contains(s)); }
        }
        if k > 0 { let q = choose|q: usize| #[trigger] bb_preds(v[k]).contains(q) && q < k; assert(bb_preds(w[k]).contains(q)); }
    }
}

// ---- consequences of the graph shape, in the property's own words: "every block is reachable from [block 0]" and
// "whenever block i dominates block j then i <= j".  Paths and dominance as in units/dom/spec.rs (g[i] = predecessors).
pub open spec fn preds_of(v: Seq<BasicBlock>) -> Seq<Set<usize>> { Seq::new(v.len(), |i: int| bb_preds(v[i])) }
pub open spec fn is_path(g: Seq<Set<usize>>, s: Seq<usize>) -> bool {
    s.len() >= 1 && s[0] == 0
    && (forall|k: int| 0 <= k < s.len() ==> (#[trigger] s[k]) < g.len())
    && (forall|k: int| 0 <= k < s.len() - 1 ==> g[#[trigger] s[k + 1] as int].contains(s[k]))
}
pub open spec fn reachable(g: Seq<Set<usize>>, i: usize) -> bool { exists|s: Seq<usize>| is_path(g, s) && #[trigger] s.last() == i }
pub open spec fn dom(g: Seq<Set<usize>>, d: usize, i: usize) -> bool {
    forall|s: Seq<usize>| is_path(g, s) && s.last() == i ==> #[trigger] s.contains(d)
}
pub open spec fn all_le(s: Seq<usize>, j: usize) -> bool { forall|k: int| 0 <= k < s.len() ==> (#[trigger] s[k]) <= j }

// an entry-to-j path that never leaves the blocks 0..=j (follow smaller-index predecessors back to the entry)
pub proof fn lemma_ascending_path(v: Seq<BasicBlock>, j: usize) -> (s: Seq<usize>)
    requires shape(v), j < v.len()
    ensures is_path(preds_of(v), s), s.last() == j, all_le(s, j)
    decreases j
{
    let g = preds_of(v);
    if j == 0 {
        seq![0usize]
    } else {
        assert(shape_block(v, j as int));
        let q = choose|q: usize| #[trigger] bb_preds(v[j as int]).contains(q) && q < j;
        let t = lemma_ascending_path(v, q);
        let s = t.push(j);
        assert(is_path(g, s)) by {
            assert forall|k: int| 0 <= k < s.len() implies (#[trigger] s[k]) < g.len() by { if k < t.len() { assert(s[k] == t[k]); } }
            assert forall|k: int| 0 <= k < s.len() - 1 implies g[#[trigger] s[k + 1] as int].contains(s[k]) by {
                if k + 1 < t.len() { assert(s[k + 1] == t[k + 1]); assert(s[k] == t[k]); }
                else { assert(s[k + 1] == j); assert(s[k] == t.last()); }
            }
            assert(s[0] == t[0]);
        }
        assert(all_le(s, j)) by {
            assert forall|k: int| 0 <= k < s.len() implies (#[trigger] s[k]) <= j by { if k < t.len() { assert(s[k] == t[k]); } }
        }
        s
    }
}
pub proof fn theorem_reachable(v: Seq<BasicBlock>, j: usize)
    requires shape(v), j < v.len()
    ensures reachable(preds_of(v), j)
{
    let s = lemma_ascending_path(v, j);
    assert(is_path(preds_of(v), s) && s.last() == j);
}
pub proof fn theorem_dominator_order(v: Seq<BasicBlock>, i: usize, j: usize)
    requires shape(v), j < v.len(), dom(preds_of(v), i, j)
    ensures i <= j
{
    let s = lemma_ascending_path(v, j);
    assert(s.contains(i));
    let k = choose|k: int| 0 <= k < s.len() && s[k] == i;
    assert(s[k] <= j);
}
