// ---- specification of unit `cfg` (C12): the graph-shape invariant of the block vector under construction
pub closed spec fn bb_index(b: BasicBlock) -> usize { b.index }
pub closed spec fn bb_depth(b: BasicBlock) -> usize { b.loop_depth }
pub closed spec fn bb_preds(b: BasicBlock) -> Set<usize> { b.predecessors@ }
pub closed spec fn bb_succs(b: BasicBlock) -> Set<usize> { b.successors@ }
pub closed spec fn bb_stmts(b: BasicBlock) -> Seq<Statement> { b.stmts@ }

pub open spec fn is_branch(s: Statement) -> bool { s is IfThenElse }
pub open spec fn ends_in_branch(b: BasicBlock) -> bool { bb_stmts(b).len() > 0 && is_branch(bb_stmts(b).last()) }
pub open spec fn true_target(b: BasicBlock) -> usize { bb_stmts(b).last()->IfThenElse_true_index }
pub open spec fn false_target(b: BasicBlock) -> Option<usize> { bb_stmts(b).last()->IfThenElse_false_index }
pub open spec fn succ_limit(b: BasicBlock) -> int { if ends_in_branch(b) { 2 } else { 1 } }

// ---- the branch part of the invariant (I5-I7).  `pend` = a branch whose true target is v.len() is allowed: its target
// is the block that the very next complete_basic_block creates.
pub open spec fn br_block(v: Seq<BasicBlock>, k: int, pend: bool) -> bool {
    let b = v[k];
    &&& (forall|i: int| 0 <= i < bb_stmts(b).len() - 1 ==> !is_branch(#[trigger] bb_stmts(b)[i]))       // I5: a branch is the last statement
    &&& (ends_in_branch(b) ==> (bb_succs(b).contains(true_target(b)) || (pend && true_target(b) == v.len())))   // I6 (true target)
    &&& (ends_in_branch(b) && false_target(b) is Some ==> bb_succs(b).contains(false_target(b).unwrap()) && false_target(b).unwrap() != true_target(b))  // I6
    &&& bb_succs(b).len() <= succ_limit(b)                                                              // I7
}
pub open spec fn br(v: Seq<BasicBlock>, pend: bool) -> bool { forall|k: int| 0 <= k < v.len() ==> #[trigger] br_block(v, k, pend) }
pub open spec fn pending(v: Seq<BasicBlock>, k: int) -> bool { ends_in_branch(v[k]) && true_target(v[k]) == v.len() }
// block i can take one more successor
pub open spec fn has_room(v: Seq<BasicBlock>, i: usize) -> bool { i < v.len() && bb_succs(v[i as int]).len() < succ_limit(v[i as int]) }
// the last block is still being filled: no successor yet, no branch at its end
pub open spec fn open_last(v: Seq<BasicBlock>) -> bool { v.len() >= 1 && bb_succs(v.last()) =~= Set::<usize>::empty() && !ends_in_branch(v.last()) }
// the statements of block b0 after complete_basic_block connected it to the new block j (false target patched)
pub open spec fn patched(b0: BasicBlock, b: BasicBlock, j: usize) -> bool {
    let s0 = bb_stmts(b0); let s = bb_stmts(b);
    &&& s.len() == s0.len()
    &&& (forall|i: int| 0 <= i < s.len() - 1 ==> #[trigger] s[i] == s0[i])
    &&& (s.len() > 0 ==> (
          if is_branch(s0.last()) && s0.last()->IfThenElse_true_index != j && s0.last()->IfThenElse_false_index is None {
              is_branch(s.last()) && s.last()->IfThenElse_true_index == s0.last()->IfThenElse_true_index && s.last()->IfThenElse_false_index == Some(j)
          } else { s.last() == s0.last() }))
}

// ---- the graph-shape part of the invariant (proved): indices, mirrored edges inside the vector, entry without
// predecessors, every other block has a predecessor with a smaller index (hence: reachable from the entry, and a
// dominator of a block never has a larger index)
pub open spec fn shape_block(v: Seq<BasicBlock>, k: int) -> bool {
    let b = v[k];
    &&& bb_index(b) == k
    &&& (forall|q: usize| #[trigger] bb_preds(b).contains(q) ==> q < v.len() && bb_succs(v[q as int]).contains(k as usize))
    &&& (forall|s: usize| #[trigger] bb_succs(b).contains(s) ==> s < v.len() && bb_preds(v[s as int]).contains(k as usize))
    &&& (k == 0 ==> bb_preds(b) =~= Set::<usize>::empty())
    &&& (k > 0 ==> exists|q: usize| #[trigger] bb_preds(b).contains(q) && q < k)
}
pub open spec fn shape(v: Seq<BasicBlock>) -> bool {
    v.len() >= 1 && forall|k: int| 0 <= k < v.len() ==> #[trigger] shape_block(v, k)
}
pub open spec fn in_range(s: Set<usize>, n: int) -> bool { forall|i: usize| s.contains(i) ==> i < n }

// state of the vector inside complete_basic_block: v0 = vector at entry (n blocks), j = n the new block,
// `seen` = predecessors already connected
pub open spec fn mid(v0: Seq<BasicBlock>, v: Seq<BasicBlock>, seen: Set<usize>, depth: usize) -> bool {
    let n = v0.len() as int;
    &&& v.len() == n + 1
    &&& (forall|k: int| 0 <= k < n ==> bb_index(#[trigger] v[k]) == bb_index(v0[k]) && bb_preds(v[k]) =~= bb_preds(v0[k]) && bb_depth(v[k]) == bb_depth(v0[k])
            && bb_succs(v[k]) =~= (if seen.contains(k as usize) { bb_succs(v0[k]).insert(n as usize) } else { bb_succs(v0[k]) }))
    &&& (forall|k: int| 0 <= k < n ==> (if seen.contains(k as usize) { patched(v0[k], #[trigger] v[k], n as usize) } else { v[k] == v0[k] }))
    &&& bb_index(v[n]) == n
    &&& bb_depth(v[n]) == depth
    &&& bb_preds(v[n]) =~= seen
    &&& bb_succs(v[n]) =~= Set::<usize>::empty()
    &&& bb_stmts(v[n]) =~= Seq::<Statement>::empty()
}

pub proof fn lemma_mid_shape(v0: Seq<BasicBlock>, v: Seq<BasicBlock>, seen: Set<usize>, depth: usize)
    requires shape(v0), mid(v0, v, seen, depth), in_range(seen, v0.len() as int), exists|q: usize| seen.contains(q)
    ensures shape(v)
{
    let n = v0.len() as int;
    assert forall|k: int| 0 <= k < v.len() implies #[trigger] shape_block(v, k) by {
        if k < n {
            assert(shape_block(v0, k));
            assert forall|q: usize| #[trigger] bb_preds(v[k]).contains(q) implies q < v.len() && bb_succs(v[q as int]).contains(k as usize) by {
                assert(bb_preds(v0[k]).contains(q));
                assert(shape_block(v0, q as int));
            }
            assert forall|s: usize| #[trigger] bb_succs(v[k]).contains(s) implies s < v.len() && bb_preds(v[s as int]).contains(k as usize) by {
                if s == n { assert(seen.contains(k as usize)); } else { assert(bb_succs(v0[k]).contains(s)); assert(shape_block(v0, s as int)); }
            }
            if k > 0 {
                let q = choose|q: usize| #[trigger] bb_preds(v0[k]).contains(q) && q < k;
                assert(bb_preds(v[k]).contains(q));
            }
        } else {
            let q = choose|q: usize| seen.contains(q);
            assert(bb_preds(v[k]).contains(q) && q < k);
            assert forall|q2: usize| #[trigger] bb_preds(v[k]).contains(q2) implies q2 < v.len() && bb_succs(v[q2 as int]).contains(k as usize) by {
                assert(seen.contains(q2));
            }
        }
    }
}

// ---- the AST side (module `ast` holds the real ast::Statement enum)
pub open spec fn is_plain(s: ast::Statement) -> bool {
    !(s is Block || s is While || s is IfThenElse || s is InitializationBlock)
}
// grammar fact taken as a precondition: initialization blocks only contain declarations and substitutions
pub open spec fn init_wf(s: ast::Statement) -> bool
    decreases s
{
    match s {
        ast::Statement::InitializationBlock { initializations, .. } => all_plain(initializations@, initializations@.len() as int),
        ast::Statement::Block { stmts, .. } => all_init_wf(stmts@, stmts@.len() as int),
        ast::Statement::While { stmt, .. } => init_wf(*stmt),
        ast::Statement::IfThenElse { if_case, else_case, .. } => init_wf(*if_case) && (match else_case { Some(e) => init_wf(*e), None => true }),
        _ => true,
    }
}
pub open spec fn all_plain(s: Seq<ast::Statement>, n: int) -> bool
    decreases n
{
    if n <= 0 || n > s.len() { true } else { all_plain(s, n - 1) && is_plain(s[n - 1]) }
}
pub open spec fn all_init_wf(s: Seq<ast::Statement>, n: int) -> bool
    decreases s, n
{
    if n <= 0 || n > s.len() { true } else { all_init_wf(s, n - 1) && init_wf(s[n - 1]) }
}
// an upper bound on the number of blocks a statement adds (resource bound for the usize index arithmetic)
pub open spec fn weight(s: ast::Statement) -> nat
    decreases s
{
    match s {
        ast::Statement::While { stmt, .. } => 2 + weight(*stmt),
        ast::Statement::IfThenElse { if_case, else_case, .. } => 2 + weight(*if_case) + (match else_case { Some(e) => weight(*e), None => 0 }),
        ast::Statement::Block { stmts, .. } => seq_weight(stmts@, stmts@.len() as int),
        _ => 0,
    }
}
pub open spec fn seq_weight(s: Seq<ast::Statement>, n: int) -> nat
    decreases s, n
{
    if n <= 0 || n > s.len() { 0 } else { seq_weight(s, n - 1) + 1 + weight(s[n - 1]) }
}
// loop nesting height (bound for `loop_depth + 1`)
pub open spec fn height(s: ast::Statement) -> nat
    decreases s
{
    match s {
        ast::Statement::While { stmt, .. } => 1 + height(*stmt),
        ast::Statement::IfThenElse { if_case, else_case, .. } => {
            let a = height(*if_case); let b = (match else_case { Some(e) => height(*e), None => 0 }); if a >= b { a } else { b }
        }
        ast::Statement::Block { stmts, .. } => seq_height(stmts@, stmts@.len() as int),
        _ => 0,
    }
}
pub open spec fn seq_height(s: Seq<ast::Statement>, n: int) -> nat
    decreases s, n
{
    if n <= 0 || n > s.len() { 0 } else { let a = seq_height(s, n - 1); let b = height(s[n - 1]); if a >= b { a } else { b } }
}
pub proof fn lemma_all_plain_elem(s: Seq<ast::Statement>, n: int, k: int)
    requires 0 <= k < n <= s.len(), all_plain(s, n)
    ensures is_plain(s[k])
    decreases n
{ if k < n - 1 { lemma_all_plain_elem(s, n - 1, k); } }
pub proof fn lemma_all_init_wf_elem(s: Seq<ast::Statement>, n: int, k: int)
    requires 0 <= k < n <= s.len(), all_init_wf(s, n)
    ensures init_wf(s[k])
    decreases n
{ if k < n - 1 { lemma_all_init_wf_elem(s, n - 1, k); } }
pub proof fn lemma_seq_weight_mono(s: Seq<ast::Statement>, i: int, n: int)
    requires 0 <= i <= n <= s.len()
    ensures seq_weight(s, i) <= seq_weight(s, n)
    decreases n - i
{ if i < n { lemma_seq_weight_mono(s, i, n - 1); } }
pub proof fn lemma_seq_height_elem(s: Seq<ast::Statement>, n: int, k: int)
    requires 0 <= k < n <= s.len()
    ensures height(s[k]) <= seq_height(s, n)
    decreases n
{ if k < n - 1 { lemma_seq_height_elem(s, n - 1, k); } }

// changing only the statements of blocks keeps the shape
pub proof fn lemma_same_edges(v: Seq<BasicBlock>, w: Seq<BasicBlock>)
    requires shape(v), w.len() == v.len(),
        forall|k: int| 0 <= k < v.len() ==> bb_index(#[trigger] w[k]) == bb_index(v[k]) && bb_preds(w[k]) =~= bb_preds(v[k]) && bb_succs(w[k]) =~= bb_succs(v[k])
    ensures shape(w)
{
    assert forall|k: int| 0 <= k < w.len() implies #[trigger] shape_block(w, k) by {
        assert(shape_block(v, k));
        assert forall|q: usize| #[trigger] bb_preds(w[k]).contains(q) implies q < w.len() && bb_succs(w[q as int]).contains(k as usize) by { assert(bb_preds(v[k]).contains(q)); }
        assert forall|s: usize| #[trigger] bb_succs(w[k]).contains(s) implies s < w.len() && bb_preds(w[s as int]).contains(k as usize) by { assert(bb_succs(v[k]).contains(s)); }
        if k > 0 { let q = choose|q: usize| #[trigger] bb_preds(v[k]).contains(q) && q < k; assert(bb_preds(w[k]).contains(q)); }
    }
}
// adding the edge i -> h (h not the entry) keeps the shape
pub proof fn lemma_add_edge(v: Seq<BasicBlock>, w: Seq<BasicBlock>, i: usize, h: usize)
    requires shape(v), w.len() == v.len(), i < v.len(), 1 <= h < v.len(),
        forall|k: int| 0 <= k < v.len() ==> bb_index(#[trigger] w[k]) == bb_index(v[k])
            && bb_preds(w[k]) =~= (if k == h { bb_preds(v[k]).insert(i) } else { bb_preds(v[k]) })
            && bb_succs(w[k]) =~= (if k == i { bb_succs(v[k]).insert(h) } else { bb_succs(v[k]) })
    ensures shape(w)
{
    assert forall|k: int| 0 <= k < w.len() implies #[trigger] shape_block(w, k) by {
        assert(shape_block(v, k));
        assert forall|q: usize| #[trigger] bb_preds(w[k]).contains(q) implies q < w.len() && bb_succs(w[q as int]).contains(k as usize) by {
            if !(k == h && q == i) { assert(bb_preds(v[k]).contains(q)); }
        }
        assert forall|s: usize| #[trigger] bb_succs(w[k]).contains(s) implies s < w.len() && bb_preds(w[s as int]).contains(k as usize) by {
            if !(k == i && s == h) { assert(bb_succs(v[k]).contains(s)); }
        }
        if k > 0 { let q = choose|q: usize| #[trigger] bb_preds(v[k]).contains(q) && q < k; assert(bb_preds(w[k]).contains(q)); }
    }
}

// ---- consequences of the graph shape, in the property's own words: "every block is reachable from [block 0]" and
// "whenever block i dominates block j then i <= j".  Paths and dominance as in units/dom/spec.rs (g[i] = predecessors).
pub open spec fn preds_of(v: Seq<BasicBlock>) -> Seq<Set<usize>> { Seq::new(v.len(), |i: int| bb_preds(v[i])) }
pub open spec fn is_path(g: Seq<Set<usize>>, s: Seq<usize>) -> bool {
    s.len() >= 1 && s[0] == 0
    && (forall|k: int| 0 <= k < s.len() ==> (#[trigger] s[k]) < g.len())
    && (forall|k: int| 0 <= k < s.len() - 1 ==> g[#[trigger] s[k + 1] as int].contains(s[k]))
}
pub open spec fn reachable(g: Seq<Set<usize>>, i: usize) -> bool { exists|s: Seq<usize>| is_path(g, s) && #[trigger] s.last() == i }
pub open spec fn dom(g: Seq<Set<usize>>, d: usize, i: usize) -> bool {
    forall|s: Seq<usize>| is_path(g, s) && s.last() == i ==> #[trigger] s.contains(d)
}
pub open spec fn all_le(s: Seq<usize>, j: usize) -> bool { forall|k: int| 0 <= k < s.len() ==> (#[trigger] s[k]) <= j }

// an entry-to-j path that never leaves the blocks 0..=j (follow smaller-index predecessors back to the entry)
pub proof fn lemma_ascending_path(v: Seq<BasicBlock>, j: usize) -> (s: Seq<usize>)
    requires shape(v), j < v.len()
    ensures is_path(preds_of(v), s), s.last() == j, all_le(s, j)
    decreases j
{
    let g = preds_of(v);
    if j == 0 {
        seq![0usize]
    } else {
        assert(shape_block(v, j as int));
        let q = choose|q: usize| #[trigger] bb_preds(v[j as int]).contains(q) && q < j;
        let t = lemma_ascending_path(v, q);
        let s = t.push(j);
        assert(is_path(g, s)) by {
            assert forall|k: int| 0 <= k < s.len() implies (#[trigger] s[k]) < g.len() by { if k < t.len() { assert(s[k] == t[k]); } }
            assert forall|k: int| 0 <= k < s.len() - 1 implies g[#[trigger] s[k + 1] as int].contains(s[k]) by {
                if k + 1 < t.len() { assert(s[k + 1] == t[k + 1]); assert(s[k] == t[k]); }
                else { assert(s[k + 1] == j); assert(s[k] == t.last()); }
            }
            assert(s[0] == t[0]);
        }
        assert(all_le(s, j)) by {
            assert forall|k: int| 0 <= k < s.len() implies (#[trigger] s[k]) <= j by { if k < t.len() { assert(s[k] == t[k]); } }
        }
        s
    }
}
pub proof fn theorem_reachable(v: Seq<BasicBlock>, j: usize)
    requires shape(v), j < v.len()
    ensures reachable(preds_of(v), j)
{
    let s = lemma_ascending_path(v, j);
    assert(is_path(preds_of(v), s) && s.last() == j);
}
pub proof fn theorem_dominator_order(v: Seq<BasicBlock>, i: usize, j: usize)
    requires shape(v), j < v.len(), dom(preds_of(v), i, j)
    ensures i <= j
{
    let s = lemma_ascending_path(v, j);
    assert(s.contains(i));
    let k = choose|k: int| 0 <= k < s.len() && s[k] == i;
    assert(s[k] <= j);
}

// ---- I5-I7 through complete_basic_block
pub proof fn lemma_two_elems(s: Set<usize>, a: usize, b: usize)
    requires s.contains(a), s.contains(b), a != b
    ensures s.len() >= 2
{
    let t = s.remove(a).remove(b);
    assert(s =~= t.insert(b).insert(a));
    assert(!t.contains(b) && !t.insert(b).contains(a));
}
pub proof fn lemma_mid_br(v0: Seq<BasicBlock>, v: Seq<BasicBlock>, seen: Set<usize>, depth: usize)
    requires shape(v0), br(v0, true), mid(v0, v, seen, depth), in_range(seen, v0.len() as int),
        forall|i: usize| seen.contains(i) ==> has_room(v0, i),
        forall|k: int| 0 <= k < v0.len() && pending(v0, k) ==> seen.contains(k as usize),
    ensures br(v, false), open_last(v)
{
    let n = v0.len() as int;
    assert forall|k: int| 0 <= k < v.len() implies #[trigger] br_block(v, k, false) by {
        if k < n {
            assert(br_block(v0, k, true));
            assert(shape_block(v0, k));
            assert(!bb_succs(v0[k]).contains(n as usize));
            if seen.contains(k as usize) {
                assert(has_room(v0, k as usize));
                assert(patched(v0[k], v[k], n as usize));
                assert(bb_succs(v[k]) =~= bb_succs(v0[k]).insert(n as usize));
                let s0 = bb_stmts(v0[k]); let s = bb_stmts(v[k]);
                assert forall|i: int| 0 <= i < s.len() - 1 implies !is_branch(#[trigger] s[i]) by { assert(s[i] == s0[i]); }
                assert(ends_in_branch(v[k]) == ends_in_branch(v0[k]));
            } else {
                assert(v[k] == v0[k]);
                assert(!pending(v0, k));
            }
        }
    }
}

// ---- I5-I7 through visit_statement
// what visit_statement promises about the set P it returns ("the predecessors of the next block"), n0 = number of
// blocks at entry: every member is a block at or after the entry's current block with room for one more successor;
// when P is empty the last block is still open
pub open spec fn exits_ok(n0: int, v: Seq<BasicBlock>, p: Set<usize>) -> bool {
    &&& (forall|i: usize| #[trigger] p.contains(i) ==> n0 - 1 <= i && has_room(v, i))
    &&& (p.len() == 0 ==> open_last(v))
}
// blocks before index m are untouched
pub open spec fn frame(v0: Seq<BasicBlock>, v: Seq<BasicBlock>, m: int) -> bool {
    v0.len() <= v.len() && forall|k: int| 0 <= k < m && k < v0.len() ==> #[trigger] v[k] == v0[k]
}
pub proof fn lemma_br_weaken(v: Seq<BasicBlock>)
    requires shape(v), br(v, false)
    ensures br(v, true), forall|k: int| 0 <= k < v.len() ==> !pending(v, k)
{
    assert forall|k: int| 0 <= k < v.len() implies #[trigger] br_block(v, k, true) by { assert(br_block(v, k, false)); }
    assert forall|k: int| 0 <= k < v.len() implies !pending(v, k) by { assert(br_block(v, k, false)); assert(shape_block(v, k)); }
}
// w = v with a statement appended to the (open) last block
pub open spec fn appended(v: Seq<BasicBlock>, w: Seq<BasicBlock>) -> bool {
    let l = v.len() - 1;
    &&& w.len() == v.len()
    &&& (forall|k: int| 0 <= k < l ==> #[trigger] w[k] == v[k])
    &&& bb_index(w[l]) == bb_index(v[l]) && bb_preds(w[l]) =~= bb_preds(v[l]) && bb_succs(w[l]) =~= bb_succs(v[l]) && bb_depth(w[l]) == bb_depth(v[l])
    &&& bb_stmts(w[l]).len() == bb_stmts(v[l]).len() + 1 && bb_stmts(w[l]).drop_last() =~= bb_stmts(v[l])
}
pub proof fn lemma_append_plain(v: Seq<BasicBlock>, w: Seq<BasicBlock>)
    requires shape(v), br(v, false), open_last(v), appended(v, w), !is_branch(bb_stmts(w.last()).last())
    ensures br(w, false), open_last(w), frame(v, w, v.len() - 1)
{
    let l = v.len() - 1;
    assert forall|k: int| 0 <= k < w.len() implies #[trigger] br_block(w, k, false) by {
        assert(br_block(v, k, false));
        if k == l {
            let s = bb_stmts(w[l]); let s0 = bb_stmts(v[l]);
            assert forall|i: int| 0 <= i < s.len() - 1 implies !is_branch(#[trigger] s[i]) by {
                assert(s[i] == s.drop_last()[i]);
                if i < s0.len() - 1 { assert(!is_branch(s0[i])); } else { assert(s0[i] == s0.last()); }
            }
        }
    }
}
// appending a branch whose true target is the next block to be created
pub proof fn lemma_append_branch(v: Seq<BasicBlock>, w: Seq<BasicBlock>)
    requires shape(v), br(v, false), open_last(v), appended(v, w),
        is_branch(bb_stmts(w.last()).last()), true_target(w.last()) == v.len(), false_target(w.last()) is None
    ensures br(w, true), has_room(w, (v.len() - 1) as usize), frame(v, w, v.len() - 1),
        forall|k: int| 0 <= k < w.len() && pending(w, k) ==> k == v.len() - 1
{
    let l = v.len() - 1;
    assert forall|k: int| 0 <= k < w.len() implies #[trigger] br_block(w, k, true) by {
        assert(br_block(v, k, false));
        if k == l {
            let s = bb_stmts(w[l]); let s0 = bb_stmts(v[l]);
            assert forall|i: int| 0 <= i < s.len() - 1 implies !is_branch(#[trigger] s[i]) by {
                assert(s[i] == s.drop_last()[i]);
                if i < s0.len() - 1 { assert(!is_branch(s0[i])); } else { assert(s0[i] == s0.last()); }
            }
        }
    }
    assert forall|k: int| 0 <= k < w.len() && pending(w, k) implies k == l by {
        if k != l { assert(br_block(v, k, false)); assert(shape_block(v, k)); }
    }
}
// adding the edge i -> h where i has room keeps I5-I7
pub proof fn lemma_add_edge_br(v: Seq<BasicBlock>, w: Seq<BasicBlock>, i: usize, h: usize)
    requires br(v, false), w.len() == v.len(), i < v.len(), h < v.len(),
        has_room(v, i) || bb_succs(v[i as int]).contains(h),
        forall|k: int| 0 <= k < v.len() ==> bb_stmts(#[trigger] w[k]) == bb_stmts(v[k])
            && bb_succs(w[k]) =~= (if k == i { bb_succs(v[k]).insert(h) } else { bb_succs(v[k]) })
    ensures br(w, false)
{
    assert forall|k: int| 0 <= k < w.len() implies #[trigger] br_block(w, k, false) by {
        assert(br_block(v, k, false));
        assert(ends_in_branch(w[k]) == ends_in_branch(v[k]));
    }
}

// ---- loop depth (I8), as a function of the statement tree: the depths of the blocks that visiting `s` at nesting
// depth d creates, in creation order.  A while statement creates its condition block at depth d ("a loop's condition
// block counting as outside that loop") and its body block at d + 1; everything inside the body is visited at d + 1.
// `ends_open(s)`: visiting s leaves the last block open (visit_statement returns the empty set).
pub open spec fn ends_open(s: ast::Statement) -> bool
    decreases s
{
    match s {
        ast::Statement::While { .. } => false,
        ast::Statement::IfThenElse { .. } => false,
        ast::Statement::Block { stmts, .. } => seq_ends_open(stmts@, stmts@.len() as int),
        _ => true,
    }
}
pub open spec fn seq_ends_open(s: Seq<ast::Statement>, n: int) -> bool
    decreases s, n
{
    if n <= 0 || n > s.len() { true } else { ends_open(s[n - 1]) }
}
pub open spec fn new_depths(s: ast::Statement, d: nat) -> Seq<nat>
    decreases s
{
    match s {
        ast::Statement::While { stmt, .. } => seq![d, d + 1] + new_depths(*stmt, d + 1),
        ast::Statement::IfThenElse { if_case, else_case, .. } =>
            seq![d] + new_depths(*if_case, d) + (match else_case { Some(e) => seq![d] + new_depths(*e, d), None => Seq::<nat>::empty() }),
        ast::Statement::Block { stmts, .. } => seq_depths(stmts@, stmts@.len() as int, d),
        _ => Seq::<nat>::empty(),
    }
}
pub open spec fn seq_depths(s: Seq<ast::Statement>, n: int, d: nat) -> Seq<nat>
    decreases s, n
{
    if n <= 0 || n > s.len() { Seq::<nat>::empty() }
    else { seq_depths(s, n - 1, d) + (if seq_ends_open(s, n - 1) { Seq::<nat>::empty() } else { seq![d] }) + new_depths(s[n - 1], d) }
}
pub open spec fn depths_match(v: Seq<BasicBlock>, n0: int, ds: Seq<nat>) -> bool {
    v.len() == n0 + ds.len() && forall|j: int| n0 <= j < v.len() ==> bb_depth(#[trigger] v[j]) as nat == ds[j - n0]
}
pub open spec fn depth_frame(v0: Seq<BasicBlock>, v: Seq<BasicBlock>) -> bool {
    v0.len() <= v.len() && forall|k: int| 0 <= k < v0.len() ==> bb_depth(#[trigger] v[k]) == bb_depth(v0[k])
}
pub proof fn lemma_depths_cat(v1: Seq<BasicBlock>, v2: Seq<BasicBlock>, n0: int, a: Seq<nat>, b: Seq<nat>)
    requires 0 <= n0, depths_match(v1, n0, a), depth_frame(v1, v2), depths_match(v2, v1.len() as int, b)
    ensures depths_match(v2, n0, a + b)
{
    let ab = a + b;
    assert forall|j: int| n0 <= j < v2.len() implies bb_depth(#[trigger] v2[j]) as nat == ab[j - n0] by {
        if j < v1.len() { assert(bb_depth(v1[j]) as nat == a[j - n0]); assert(bb_depth(v2[j]) == bb_depth(v1[j])); }
        else { assert(bb_depth(v2[j]) as nat == b[j - v1.len()]); }
    }
}
pub proof fn lemma_depths_same(v1: Seq<BasicBlock>, v2: Seq<BasicBlock>, n0: int, a: Seq<nat>)
    requires 0 <= n0, depths_match(v1, n0, a), depth_frame(v1, v2), v1.len() == v2.len()
    ensures depths_match(v2, n0, a)
{
    assert forall|j: int| n0 <= j < v2.len() implies bb_depth(#[trigger] v2[j]) as nat == a[j - n0] by {
        assert(bb_depth(v1[j]) as nat == a[j - n0]); assert(bb_depth(v2[j]) == bb_depth(v1[j]));
    }
}

// ---- IR lifting of statements: which statements `try_lift` accepts (the other arms panic: they are handled by the
// caller, or — MultiSubstitution — must have been removed by desugaring)
pub open spec fn liftable(s: ast::Statement) -> bool {
    s is Return || s is Substitution || s is ConstraintEquality || s is LogCall || s is Assert || s is Declaration
}
// no tuple assignment anywhere (the guarantee of the desugaring pass, C18)
pub open spec fn no_multisub(s: ast::Statement) -> bool
    decreases s
{
    match s {
        ast::Statement::MultiSubstitution { .. } => false,
        ast::Statement::InitializationBlock { initializations, .. } => all_no_multisub(initializations@, initializations@.len() as int),
        ast::Statement::Block { stmts, .. } => all_no_multisub(stmts@, stmts@.len() as int),
        ast::Statement::While { stmt, .. } => no_multisub(*stmt),
        ast::Statement::IfThenElse { if_case, else_case, .. } => no_multisub(*if_case) && (match else_case { Some(e) => no_multisub(*e), None => true }),
        _ => true,
    }
}
pub open spec fn all_no_multisub(s: Seq<ast::Statement>, n: int) -> bool
    decreases s, n
{
    if n <= 0 || n > s.len() { true } else { all_no_multisub(s, n - 1) && no_multisub(s[n - 1]) }
}
pub proof fn lemma_all_no_multisub_elem(s: Seq<ast::Statement>, n: int, k: int)
    requires 0 <= k < n <= s.len(), all_no_multisub(s, n)
    ensures no_multisub(s[k])
    decreases n
{ if k < n - 1 { lemma_all_no_multisub_elem(s, n - 1, k); } }

// ---- C13 (statement conservation): lifting puts every source statement into the graph exactly once — in count form:
// the number of IR statements over all blocks grows by exactly the number of statement nodes of the source statement
// (one per plain statement, one branch statement per `if` and per `while`)
pub open spec fn total(v: Seq<BasicBlock>, n: int) -> int
    decreases n
{
    if n <= 0 || n > v.len() { 0 } else { total(v, n - 1) + bb_stmts(v[n - 1]).len() }
}
pub open spec fn tot(v: Seq<BasicBlock>) -> int { total(v, v.len() as int) }
pub open spec fn nstmts(s: ast::Statement) -> nat
    decreases s
{
    match s {
        ast::Statement::Block { stmts, .. } => seq_nstmts(stmts@, stmts@.len() as int),
        ast::Statement::InitializationBlock { initializations, .. } => seq_nstmts(initializations@, initializations@.len() as int),
        ast::Statement::While { stmt, .. } => 1 + nstmts(*stmt),
        ast::Statement::IfThenElse { if_case, else_case, .. } => match else_case { Some(e) => 1 + nstmts(*if_case) + nstmts(*e), None => 1 + nstmts(*if_case) },
        _ => 1,
    }
}
pub open spec fn seq_nstmts(l: Seq<ast::Statement>, n: int) -> nat
    decreases l, n
{
    if n <= 0 || n > l.len() { 0 } else { seq_nstmts(l, n - 1) + nstmts(l[n - 1]) }
}
pub open spec fn same_lens(v: Seq<BasicBlock>, w: Seq<BasicBlock>, n: int) -> bool {
    n <= v.len() && n <= w.len() && forall|k: int| 0 <= k < n ==> bb_stmts(#[trigger] w[k]).len() == bb_stmts(v[k]).len()
}
pub proof fn lemma_total_lens(v: Seq<BasicBlock>, w: Seq<BasicBlock>, n: int)
    requires same_lens(v, w, n), n >= 0
    ensures total(v, n) == total(w, n)
    decreases n
{
    if n > 0 { assert(same_lens(v, w, n - 1)); lemma_total_lens(v, w, n - 1); assert(bb_stmts(w[n - 1]).len() == bb_stmts(v[n - 1]).len()); }
}
// a new empty block at the end, the statement counts of the others unchanged
pub proof fn lemma_tot_new_block(v: Seq<BasicBlock>, w: Seq<BasicBlock>)
    requires w.len() == v.len() + 1, same_lens(v, w, v.len() as int), bb_stmts(w.last()).len() == 0
    ensures tot(w) == tot(v)
{
    lemma_total_lens(v, w, v.len() as int);
}
// d more statements in the last block, the others unchanged
pub proof fn lemma_tot_last(v: Seq<BasicBlock>, w: Seq<BasicBlock>, d: int)
    requires w.len() == v.len(), v.len() > 0, same_lens(v, w, v.len() - 1), bb_stmts(w.last()).len() == bb_stmts(v.last()).len() + d
    ensures tot(w) == tot(v) + d
{
    lemma_total_lens(v, w, v.len() - 1);
}
pub proof fn lemma_tot_same(v: Seq<BasicBlock>, w: Seq<BasicBlock>)
    requires w.len() == v.len(), same_lens(v, w, v.len() as int)
    ensures tot(w) == tot(v)
{
    lemma_total_lens(v, w, v.len() as int);
}
