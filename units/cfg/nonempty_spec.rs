use std::ops::{Index, IndexMut};
use vstd::std_specs::core::IndexSpecImpl;
// ghost members of NonEmptyVec (the fields are private to this module): the abstract view [head] ++ tail
impl<T> NonEmptyVec<T> {
    pub closed spec fn view(&self) -> Seq<T> { seq![self.head] + self.tail@ }
    proof fn lemma_view_len(&self)
        ensures self.view().len() == self.tail@.len() + 1, self.view()[0] == self.head,
            forall|k: int| 1 <= k < self.view().len() ==> self.view()[k] == self.tail@[k - 1]
    {}
}
impl<T> IndexSpecImpl<usize> for NonEmptyVec<T> {
    open spec fn index_req(&self, index: &usize) -> bool { *index < self.view().len() }
}
impl<T> IndexSpecImpl<&usize> for NonEmptyVec<T> {
    open spec fn index_req(&self, index: &&usize) -> bool { **index < self.view().len() }
}
// a Vec never holds usize::MAX elements (its capacity is at most isize::MAX bytes) (T2)
#[verifier::external_body]
pub proof fn axiom_vec_len_bound<T>(v: &Vec<T>)
    ensures v@.len() < usize::MAX
{}
// Vec::extend(Vec) appends the elements in order (T: std contract of Extend for Vec)
#[verifier::external_body]
fn __h_extend<T>(res: &mut Vec<T>, tail: Vec<T>)
    ensures final(res)@ == old(res)@ + tail@
{ res.extend(tail) }
// spec side of `impl From<NonEmptyVec<T>> for Vec<T>`: the conversion yields the abstract view
impl<T> vstd::std_specs::convert::FromSpecImpl<NonEmptyVec<T>> for Vec<T> {
    open spec fn obeys_from_spec() -> bool { false }
    open spec fn from_spec(v: NonEmptyVec<T>) -> Self { arbitrary() }
}
