// ---- specification of unit `filestack` (C19): "each distinct file is read once ... cyclic and diamond-shaped
// include graphs terminate": a path is handed out at most once and the visited set only grows.
pub closed spec fn fs_black(f: FileStack) -> Set<PathBuf> { f.black_paths@ }
pub closed spec fn fs_stack(f: FileStack) -> Seq<PathBuf> { f.stack@ }
pub closed spec fn fs_user(f: FileStack) -> Set<PathBuf> { f.user_inputs@ }
