// ---- prelude of unit `filestack`
use std::collections::HashSet;
broadcast use vstd::std_specs::hash::group_hash_axioms;

// std::path::PathBuf: opaque value type with a well-behaved Hash/Eq (T2); `pop()` removes the last component
#[verifier::external_body]
pub struct PathBuf { _o: Vec<u8> }
impl Clone for PathBuf {
    #[verifier::external_body]
    fn clone(&self) -> (r: PathBuf) ensures r == *self { unimplemented!() }
}
impl PartialEq for PathBuf { #[verifier::external_body] fn eq(&self, other: &PathBuf) -> bool { unimplemented!() } }
impl Eq for PathBuf {}
impl std::hash::Hash for PathBuf { #[verifier::external_body] fn hash<H: std::hash::Hasher>(&self, state: &mut H) { unimplemented!() } }
impl PathBuf {
    #[verifier::external_body]
    pub fn pop(&mut self) -> bool { unimplemented!() }
}
#[verifier::external_body]
pub proof fn axiom_pathbuf_key_model()
    ensures vstd::std_specs::hash::obeys_key_model::<PathBuf>()
{}
pub struct Library { pub dir: bool, pub path: PathBuf }
