// ---- prelude of unit `degree_expr`
use std::collections::HashMap;
pub type FileID = usize;
pub type FileLocation = std::ops::Range<usize>;
#[verifier::external_body] pub struct VariableName { _o: Vec<u8> }
#[verifier::external_body] pub struct TypeKnowledge { _o: Vec<u8> }
#[verifier::external_body] pub struct ValueKnowledge { _o: Vec<u8> }
#[verifier::external_body] pub struct VariableKnowledge { _o: Vec<u8> }
#[verifier::external_body] pub struct DegreeEnvironment { _o: Vec<u8> }
pub uninterp spec fn denv_map(e: DegreeEnvironment) -> Map<VariableName, DegreeRange>;
impl DegreeEnvironment {
    #[verifier::external_body]
    pub fn degree(&self, var: &VariableName) -> (r: Option<&DegreeRange>)
        ensures
            r is Some <==> denv_map(*self).dom().contains(*var),
            r is Some ==> *r.unwrap() == denv_map(*self)[*var],
    { unimplemented!() }
}

// ---- R5 helpers: bodies are the ORIGINAL expressions; DegreeRange::iter_opt / iter_inf are generic over IntoIterator and
// are not verified here: "None if the list is empty or any element is None, otherwise the infimum of all" (their upper
// end is at least every element's upper end). Exercised by the bounded engine (replay_ps degree_expr).
#[verifier::external_body]
fn __h_iter_opt2(a: Option<&DegreeRange>, b: Option<&DegreeRange>) -> (r: Option<DegreeRange>)
    ensures
        r is Some <==> (a is Some && b is Some),
        r is Some ==> hi(r.unwrap()) >= hi(*a.unwrap()) && hi(r.unwrap()) >= hi(*b.unwrap()),
{ unimplemented!() }

// `DegreeRange::iter_opt(values.iter().map(|value| value.degree()))`
#[verifier::external_body]
fn __h_iter_opt_values(values: &Vec<Expression>) -> (r: Option<DegreeRange>)
    ensures
        r is Some ==> values@.len() > 0,
        r is Some ==> forall|k: int| 0 <= k < values@.len() ==> ann(#[trigger] values@[k]) is Some && hi(r.unwrap()) >= hi(ann(values@[k]).unwrap()),
{ unimplemented!() }

// `DegreeRange::iter_opt(args.iter().map(|arg| env.degree(arg)))`
#[verifier::external_body]
fn __h_iter_opt_phi(args: &Vec<VariableName>, env: &DegreeEnvironment) -> (r: Option<DegreeRange>)
    ensures
        r is Some ==> args@.len() > 0,
        r is Some ==> forall|k: int| 0 <= k < args@.len() ==> denv_map(*env).dom().contains(#[trigger] args@[k]) && hi(r.unwrap()) >= hi(denv_map(*env)[args@[k]]),
{ unimplemented!() }

// `args.iter().all(|arg| if let Some(range) = arg.degree() { range.is_constant() } else { false })`
#[verifier::external_body]
fn __h_all_constant(args: &Vec<Expression>) -> (r: bool)
    ensures r <==> forall|k: int| 0 <= k < args@.len() ==> ann(#[trigger] args@[k]) is Some && hi(ann(args@[k]).unwrap()) <= 0
{ unimplemented!() }

// derived `Clone` of DegreeRange (two Copy fields)
#[verifier::external_body]
fn __h_clone_range(range: &DegreeRange) -> (r: DegreeRange)
    ensures r == *range
{ range.clone() }

// ---- statement level (Statement::propagate_degrees)
pub type TagList = Vec<String>;
#[verifier::external_body] pub struct AssignOp { _o: Vec<u8> }
#[verifier::external_body] #[verifier::accept_recursive_types(T)] pub struct NonEmptyVec<T> { _o: Vec<T> }
pub type Index = usize;
// which names the environment knows as local variables (degree_meta.rs: var_types.get(var) == Some(Local))
pub uninterp spec fn denv_local(e: DegreeEnvironment, v: VariableName) -> bool;
// the names a declaration introduces, and whether their type is signal / component (treated as linear)
pub uninterp spec fn nev_names(n: NonEmptyVec<VariableName>) -> Set<VariableName>;
pub open spec fn vt_linear(t: VariableType) -> bool { t is Signal || t is Component || t is AnonymousComponent }
impl DegreeEnvironment {
    // `degree_ranges.insert(var.clone(), range.clone()).is_none()`
    #[verifier::external_body]
    pub fn set_degree(&mut self, var: &VariableName, range: &DegreeRange) -> (r: bool)
        ensures
            denv_map(*final(self)) == denv_map(*old(self)).insert(*var, *range),
            forall|v: VariableName| denv_local(*final(self), v) == denv_local(*old(self), v),
    { unimplemented!() }
    #[verifier::external_body]
    pub fn is_local(&self, var: &VariableName) -> (r: bool)
        ensures r == denv_local(*self, *var)
    { unimplemented!() }
}
// The declaration loop `for name in names.iter() { if matches!(var_type, Signal(..) | Component | AnonymousComponent)
// { result = result || env.set_degree(name, &Linear.into()); } env.set_type(name, var_type); }` — NonEmptyVec has a
// custom iterator that Verus's for-loops do not know; the loop is moved verbatim into this helper (T3). Contract: entries
// of other names are kept; a declared name either keeps its entry or (signals, components) gets the range [Linear, Linear].
#[verifier::external_body]
fn __h_declare_names(names: &NonEmptyVec<VariableName>, var_type: &VariableType, env: &mut DegreeEnvironment, result: &mut bool)
    ensures
        forall|v: VariableName| #![trigger denv_map(*final(env)).dom().contains(v)] !nev_names(*names).contains(v) ==> denv_map(*final(env)).dom().contains(v) == denv_map(*old(env)).dom().contains(v),
        forall|v: VariableName| #![trigger denv_map(*final(env))[v]] !nev_names(*names).contains(v) && denv_map(*old(env)).dom().contains(v) ==> denv_map(*final(env))[v] == denv_map(*old(env))[v],
        forall|v: VariableName| #![trigger denv_map(*final(env))[v]] nev_names(*names).contains(v) && denv_map(*final(env)).dom().contains(v) ==>
            (denv_map(*old(env)).dom().contains(v) && denv_map(*final(env))[v] == denv_map(*old(env))[v]) || hi(denv_map(*final(env))[v]) >= 1,
        !vt_linear(*var_type) ==> denv_map(*final(env)) == denv_map(*old(env)),
        forall|v: VariableName| #![trigger denv_local(*final(env), v)] !nev_names(*names).contains(v) ==> denv_local(*final(env), v) == denv_local(*old(env), v),
{ unimplemented!() }
