// ---- prelude of unit `degree_expr`
use std::collections::HashMap;
pub type FileID = usize;
pub type FileLocation = std::ops::Range<usize>;
#[verifier::external_body] pub struct VariableName { _o: Vec<u8> }
#[verifier::external_body] pub struct TypeKnowledge { _o: Vec<u8> }
#[verifier::external_body] pub struct ValueKnowledge { _o: Vec<u8> }
#[verifier::external_body] pub struct VariableKnowledge { _o: Vec<u8> }
#[verifier::external_body] pub struct DegreeEnvironment { _o: Vec<u8> }
pub uninterp spec fn denv_map(e: DegreeEnvironment) -> Map<VariableName, DegreeRange>;
impl DegreeEnvironment {
    #[verifier::external_body]
    pub fn degree(&self, var: &VariableName) -> (r: Option<&DegreeRange>)
        ensures
            r is Some <==> denv_map(*self).dom().contains(*var),
            r is Some ==> *r.unwrap() == denv_map(*self)[*var],
    { unimplemented!() }
}

// ---- R5 helpers: bodies are the ORIGINAL expressions; DegreeRange::iter_opt / iter_inf are generic over IntoIterator and
// are not verified here: "None if the list is empty or any element is None, otherwise the infimum of all" (their upper
// end is at least every element's upper end). Exercised by the bounded engine (replay_ps degree_expr).
#[verifier::external_body]
fn __h_iter_opt2(a: Option<&DegreeRange>, b: Option<&DegreeRange>) -> (r: Option<DegreeRange>)
    ensures
        r is Some <==> (a is Some && b is Some),
        r is Some ==> hi(r.unwrap()) >= hi(*a.unwrap()) && hi(r.unwrap()) >= hi(*b.unwrap()),
{ unimplemented!() }

// `DegreeRange::iter_opt(values.iter().map(|value| value.degree()))`
#[verifier::external_body]
fn __h_iter_opt_values(values: &Vec<Expression>) -> (r: Option<DegreeRange>)
    ensures
        r is Some ==> values@.len() > 0,
        r is Some ==> forall|k: int| 0 <= k < values@.len() ==> ann(#[trigger] values@[k]) is Some && hi(r.unwrap()) >= hi(ann(values@[k]).unwrap()),
{ unimplemented!() }

// `DegreeRange::iter_opt(args.iter().map(|arg| env.degree(arg)))`
#[verifier::external_body]
fn __h_iter_opt_phi(args: &Vec<VariableName>, env: &DegreeEnvironment) -> (r: Option<DegreeRange>)
    ensures
        r is Some ==> args@.len() > 0,
        r is Some ==> forall|k: int| 0 <= k < args@.len() ==> denv_map(*env).dom().contains(#[trigger] args@[k]) && hi(r.unwrap()) >= hi(denv_map(*env)[args@[k]]),
{ unimplemented!() }

// `args.iter().all(|arg| if let Some(range) = arg.degree() { range.is_constant() } else { false })`
#[verifier::external_body]
fn __h_all_constant(args: &Vec<Expression>) -> (r: bool)
    ensures r <==> forall|k: int| 0 <= k < args@.len() ==> ann(#[trigger] args@[k]) is Some && hi(ann(args@[k]).unwrap()) <= 0
{ unimplemented!() }

// derived `Clone` of DegreeRange (two Copy fields)
#[verifier::external_body]
fn __h_clone_range(range: &DegreeRange) -> (r: DegreeRange)
    ensures r == *range
{ range.clone() }
