// ---- specification of unit `degree_expr` (C07 stage 2)
// t: the true degree class (0..3) of every variable; sem: the compositional least sound bound of an expression.
pub type Truth = spec_fn(VariableName) -> int;

pub closed spec fn dk_of(m: Meta) -> Option<DegreeRange> { dk_range(m.degree_knowledge) }
pub open spec fn expr_meta(e: Expression) -> Meta {
    match e {
        Expression::InfixOp { meta, .. } => meta,
        Expression::PrefixOp { meta, .. } => meta,
        Expression::SwitchOp { meta, .. } => meta,
        Expression::Variable { meta, .. } => meta,
        Expression::Number(meta, _) => meta,
        Expression::Call { meta, .. } => meta,
        Expression::InlineArray { meta, .. } => meta,
        Expression::Access { meta, .. } => meta,
        Expression::Update { meta, .. } => meta,
        Expression::Phi { meta, .. } => meta,
    }
}
pub open spec fn ann(e: Expression) -> Option<DegreeRange> { dk_of(expr_meta(e)) }

pub open spec fn sem(e: Expression, t: Truth) -> int
    decreases e
{
    match e {
        Expression::InfixOp { lhe, infix_op, rhe, .. } => ls_infix(infix_op, sem(*lhe, t), sem(*rhe, t)),
        Expression::PrefixOp { prefix_op, rhe, .. } => ls_prefix(prefix_op, sem(*rhe, t)),
        Expression::SwitchOp { cond, if_true, if_false, .. } => if sem(*cond, t) == 0 { imax(sem(*if_true, t), sem(*if_false, t)) } else { 3 },
        Expression::Variable { name, .. } => t(name),
        Expression::Number(_, _) => 0,
        Expression::Call { args, .. } => if all_zero(args@, args@.len() as int, t) { 0 } else { 3 },
        Expression::InlineArray { values, .. } => max_sem(values@, values@.len() as int, t),
        Expression::Access { var, .. } => t(var),
        Expression::Update { var, rhe, .. } => imax(t(var), sem(*rhe, t)),
        Expression::Phi { args, .. } => max_truth(args@, args@.len() as int, t),
    }
}
pub open spec fn all_zero(s: Seq<Expression>, n: int, t: Truth) -> bool
    decreases s, n
{
    if n <= 0 || n > s.len() { true } else { all_zero(s, n - 1, t) && sem(s[n - 1], t) == 0 }
}
pub open spec fn max_sem(s: Seq<Expression>, n: int, t: Truth) -> int
    decreases s, n
{
    if n <= 0 || n > s.len() { 0 } else { imax(max_sem(s, n - 1, t), sem(s[n - 1], t)) }
}
pub open spec fn max_truth(s: Seq<VariableName>, n: int, t: Truth) -> int
    decreases n
{
    if n <= 0 || n > s.len() { 0 } else { imax(max_truth(s, n - 1, t), t(s[n - 1])) }
}

// every recorded degree range in the tree has an upper end >= the least sound bound of its node
pub open spec fn annot_sound(e: Expression, t: Truth) -> bool
    decreases e
{
    (ann(e) is Some ==> hi(ann(e).unwrap()) >= sem(e, t))
    && match e {
        Expression::InfixOp { lhe, rhe, .. } => annot_sound(*lhe, t) && annot_sound(*rhe, t),
        Expression::PrefixOp { rhe, .. } => annot_sound(*rhe, t),
        Expression::SwitchOp { cond, if_true, if_false, .. } => annot_sound(*cond, t) && annot_sound(*if_true, t) && annot_sound(*if_false, t),
        Expression::Call { args, .. } => all_sound(args@, args@.len() as int, t),
        Expression::InlineArray { values, .. } => all_sound(values@, values@.len() as int, t),
        Expression::Access { access, .. } => all_access_sound(access@, access@.len() as int, t),
        Expression::Update { access, rhe, .. } => annot_sound(*rhe, t) && all_access_sound(access@, access@.len() as int, t),
        _ => true,
    }
}
pub open spec fn all_sound(s: Seq<Expression>, n: int, t: Truth) -> bool
    decreases s, n
{
    if n <= 0 || n > s.len() { true } else { all_sound(s, n - 1, t) && annot_sound(s[n - 1], t) }
}
pub open spec fn access_sound(a: AccessType, t: Truth) -> bool
    decreases a
{
    match a { AccessType::ArrayAccess(e) => annot_sound(*e, t), _ => true }
}
pub open spec fn all_access_sound(s: Seq<AccessType>, n: int, t: Truth) -> bool
    decreases s, n
{
    if n <= 0 || n > s.len() { true } else { all_access_sound(s, n - 1, t) && access_sound(s[n - 1], t) }
}

pub open spec fn env_sound(env: DegreeEnvironment, t: Truth) -> bool {
    forall|v: VariableName| denv_map(env).dom().contains(v) ==> hi(#[trigger] denv_map(env)[v]) >= t(v)
}
pub open spec fn truth_ok(t: Truth) -> bool { forall|v: VariableName| 0 <= #[trigger] t(v) <= 3 }

// historical: until the repair 7f65523 this predicate singled out Update nodes whose array has no entry in the environment (the
// code's "first write" reading, a known finding); it is now false for every tree (kept so that the contracts read as before)
pub open spec fn has_first_write(e: Expression, env: DegreeEnvironment) -> bool
    decreases e
{
    match e {
        Expression::InfixOp { lhe, rhe, .. } => has_first_write(*lhe, env) || has_first_write(*rhe, env),
        Expression::PrefixOp { rhe, .. } => has_first_write(*rhe, env),
        Expression::SwitchOp { cond, if_true, if_false, .. } => has_first_write(*cond, env) || has_first_write(*if_true, env) || has_first_write(*if_false, env),
        Expression::Call { args, .. } => any_first_write(args@, args@.len() as int, env),
        Expression::InlineArray { values, .. } => any_first_write(values@, values@.len() as int, env),
        Expression::Access { access, .. } => any_access_first_write(access@, access@.len() as int, env),
        Expression::Update { var, access, rhe, .. } => has_first_write(*rhe, env) || any_access_first_write(access@, access@.len() as int, env),
        _ => false,
    }
}
pub open spec fn any_first_write(s: Seq<Expression>, n: int, env: DegreeEnvironment) -> bool
    decreases s, n
{
    if n <= 0 || n > s.len() { false } else { any_first_write(s, n - 1, env) || has_first_write(s[n - 1], env) }
}
pub open spec fn access_first_write(a: AccessType, env: DegreeEnvironment) -> bool
    decreases a
{
    match a { AccessType::ArrayAccess(e) => has_first_write(*e, env), _ => false }
}
pub open spec fn any_access_first_write(s: Seq<AccessType>, n: int, env: DegreeEnvironment) -> bool
    decreases s, n
{
    if n <= 0 || n > s.len() { false } else { any_access_first_write(s, n - 1, env) || access_first_write(s[n - 1], env) }
}
// the part of an expression that propagation never changes: everything except the annotations
pub open spec fn same_shape(a: Expression, b: Expression) -> bool {
    forall|t: Truth| #[trigger] sem(a, t) == sem(b, t)
}
// what one call guarantees, for a fixed truth valuation
pub open spec fn step_ok(pre: Expression, post: Expression, env: DegreeEnvironment, t: Truth) -> bool {
    sem(post, t) == sem(pre, t)
    && (has_first_write(post, env) <==> has_first_write(pre, env))
    && (truth_ok(t) && env_sound(env, t) && annot_sound(pre, t) && !has_first_write(pre, env) ==> annot_sound(post, t))
}

// ---- the least sound bound is a degree class (0..3) whenever the truth valuation is
pub proof fn lemma_max_truth_range(s: Seq<VariableName>, n: int, t: Truth)
    requires truth_ok(t)
    ensures 0 <= max_truth(s, n, t) <= 3
    decreases n
{
    if !(n <= 0 || n > s.len()) { lemma_max_truth_range(s, n - 1, t); }
}
pub proof fn lemma_sem_range_rec(e: Expression, t: Truth)
    requires truth_ok(t)
    ensures 0 <= sem(e, t) <= 3
    decreases e
{
    match e {
        Expression::InfixOp { lhe, infix_op, rhe, .. } => { lemma_sem_range_rec(*lhe, t); lemma_sem_range_rec(*rhe, t); }
        Expression::PrefixOp { prefix_op, rhe, .. } => { lemma_sem_range_rec(*rhe, t); }
        Expression::SwitchOp { cond, if_true, if_false, .. } => { lemma_sem_range_rec(*cond, t); lemma_sem_range_rec(*if_true, t); lemma_sem_range_rec(*if_false, t); }
        Expression::InlineArray { values, .. } => { lemma_max_sem_range(values@, values@.len() as int, t); }
        Expression::Update { rhe, .. } => { lemma_sem_range_rec(*rhe, t); }
        Expression::Phi { args, .. } => { lemma_max_truth_range(args@, args@.len() as int, t); }
        _ => {}
    }
}
pub proof fn lemma_max_sem_range(s: Seq<Expression>, n: int, t: Truth)
    requires truth_ok(t)
    ensures 0 <= max_sem(s, n, t) <= 3
    decreases s, n
{
    if !(n <= 0 || n > s.len()) { lemma_max_sem_range(s, n - 1, t); lemma_sem_range_rec(s[n - 1], t); }
}
pub mod sem_range {
    use vstd::prelude::*;
    use super::*;
    pub broadcast proof fn lemma_sem_range(e: Expression, t: Truth)
        requires truth_ok(t)
        ensures 0 <= #[trigger] sem(e, t) <= 3
    { lemma_sem_range_rec(e, t); }
}

// ---- sequence lemmas (children held in Vec)
pub proof fn lemma_max_truth_bound(s: Seq<VariableName>, n: int, t: Truth, b: int)
    requires b >= 0, 0 <= n <= s.len(), forall|k: int| 0 <= k < n ==> t(#[trigger] s[k]) <= b
    ensures max_truth(s, n, t) <= b
    decreases n
{
    if n > 0 { lemma_max_truth_bound(s, n - 1, t, b); }
}
pub proof fn lemma_max_sem_bound(s: Seq<Expression>, n: int, t: Truth, b: int)
    requires b >= 0, 0 <= n <= s.len(), forall|k: int| 0 <= k < n ==> sem(#[trigger] s[k], t) <= b
    ensures max_sem(s, n, t) <= b
    decreases n
{
    if n > 0 { lemma_max_sem_bound(s, n - 1, t, b); }
}
pub proof fn lemma_all_zero(s: Seq<Expression>, n: int, t: Truth)
    requires 0 <= n <= s.len(), forall|k: int| 0 <= k < n ==> sem(#[trigger] s[k], t) == 0
    ensures all_zero(s, n, t)
    decreases n
{
    if n > 0 { lemma_all_zero(s, n - 1, t); }
}
pub proof fn lemma_all_sound_elems(s: Seq<Expression>, n: int, t: Truth, k: int)
    requires 0 <= k < n <= s.len(), all_sound(s, n, t)
    ensures annot_sound(s[k], t)
    decreases n
{
    if k < n - 1 { lemma_all_sound_elems(s, n - 1, t, k); }
}
// element-wise steps carry over to the sequence-level functions
pub proof fn lemma_seq_step(s0: Seq<Expression>, s1: Seq<Expression>, n: int, env: DegreeEnvironment, t: Truth)
    requires s0.len() == s1.len(), 0 <= n <= s0.len(), forall|k: int| 0 <= k < n ==> step_ok(#[trigger] s0[k], s1[k], env, t)
    ensures
        max_sem(s1, n, t) == max_sem(s0, n, t),
        all_zero(s1, n, t) == all_zero(s0, n, t),
        any_first_write(s1, n, env) == any_first_write(s0, n, env),
        truth_ok(t) && env_sound(env, t) && all_sound(s0, n, t) && !any_first_write(s0, n, env) ==> all_sound(s1, n, t),
    decreases n
{
    if n > 0 {
        lemma_seq_step(s0, s1, n - 1, env, t);
        assert(step_ok(s0[n - 1], s1[n - 1], env, t));
    }
}
pub open spec fn access_step_ok(a0: AccessType, a1: AccessType, env: DegreeEnvironment, t: Truth) -> bool {
    match (a0, a1) {
        (AccessType::ArrayAccess(e0), AccessType::ArrayAccess(e1)) => step_ok(*e0, *e1, env, t),
        (AccessType::ComponentAccess(_), AccessType::ComponentAccess(_)) => true,
        _ => false,
    }
}
pub proof fn lemma_access_step(s0: Seq<AccessType>, s1: Seq<AccessType>, n: int, env: DegreeEnvironment, t: Truth)
    requires s0.len() == s1.len(), 0 <= n <= s0.len(), forall|k: int| 0 <= k < n ==> access_step_ok(#[trigger] s0[k], s1[k], env, t)
    ensures
        any_access_first_write(s1, n, env) == any_access_first_write(s0, n, env),
        truth_ok(t) && env_sound(env, t) && all_access_sound(s0, n, t) && !any_access_first_write(s0, n, env) ==> all_access_sound(s1, n, t),
    decreases n
{
    if n > 0 {
        lemma_access_step(s0, s1, n - 1, env, t);
        assert(access_step_ok(s0[n - 1], s1[n - 1], env, t));
        match (s0[n - 1], s1[n - 1]) {
            (AccessType::ArrayAccess(e0), AccessType::ArrayAccess(e1)) => {
                assert(step_ok(*e0, *e1, env, t));
                assert(access_first_write(s0[n - 1], env) == has_first_write(*e0, env));
                assert(access_first_write(s1[n - 1], env) == has_first_write(*e1, env));
                assert(access_sound(s0[n - 1], t) == annot_sound(*e0, t));
                assert(access_sound(s1[n - 1], t) == annot_sound(*e1, t));
            }
            (AccessType::ComponentAccess(_), AccessType::ComponentAccess(_)) => {
                assert(!access_first_write(s0[n - 1], env) && !access_first_write(s1[n - 1], env));
                assert(access_sound(s0[n - 1], t) && access_sound(s1[n - 1], t));
            }
            _ => { assert(false); }
        }
        assert(any_access_first_write(s1, n, env) == (any_access_first_write(s1, n - 1, env) || access_first_write(s1[n - 1], env)));
        assert(any_access_first_write(s0, n, env) == (any_access_first_write(s0, n - 1, env) || access_first_write(s0[n - 1], env)));
    }
}
pub proof fn lemma_step_refl(e: Expression, env: DegreeEnvironment, t: Truth)
    ensures step_ok(e, e, env, t)
{}
pub proof fn lemma_access_step_refl(a: AccessType, env: DegreeEnvironment, t: Truth)
    ensures access_step_ok(a, a, env, t)
{
    match a { AccessType::ArrayAccess(e) => { lemma_step_refl(*e, env, t); } _ => {} }
}

// ---- statement level (Statement::propagate_degrees): the degree environment stays sound
pub open spec fn log_sound_d(a: LogArgument, t: Truth) -> bool {
    match a { LogArgument::Expr(e) => annot_sound(*e, t), _ => true }
}
pub open spec fn all_log_sound_d(v: Seq<LogArgument>, n: int, t: Truth) -> bool
    decreases n
{
    if n <= 0 || n > v.len() { true } else { all_log_sound_d(v, n - 1, t) && log_sound_d(v[n - 1], t) }
}
pub open spec fn log_first_write(a: LogArgument, env: DegreeEnvironment) -> bool {
    match a { LogArgument::Expr(e) => has_first_write(*e, env), _ => false }
}
pub open spec fn any_log_first_write(v: Seq<LogArgument>, n: int, env: DegreeEnvironment) -> bool
    decreases n
{
    if n <= 0 || n > v.len() { false } else { any_log_first_write(v, n - 1, env) || log_first_write(v[n - 1], env) }
}
pub open spec fn stmt_sound_d(st: Statement, t: Truth) -> bool {
    match st {
        Statement::Declaration { dimensions, .. } => all_sound(dimensions@, dimensions@.len() as int, t),
        Statement::IfThenElse { cond, .. } => annot_sound(cond, t),
        Statement::Return { value, .. } => annot_sound(value, t),
        Statement::Substitution { rhe, .. } => annot_sound(rhe, t),
        Statement::ConstraintEquality { lhe, rhe, .. } => annot_sound(lhe, t) && annot_sound(rhe, t),
        Statement::LogCall { args, .. } => all_log_sound_d(args@, args@.len() as int, t),
        Statement::Assert { arg, .. } => annot_sound(arg, t),
    }
}
pub open spec fn stmt_first_write(st: Statement, env: DegreeEnvironment) -> bool {
    match st {
        Statement::Declaration { .. } => false,
        Statement::IfThenElse { cond, .. } => has_first_write(cond, env),
        Statement::Return { value, .. } => has_first_write(value, env),
        Statement::Substitution { rhe, .. } => has_first_write(rhe, env),
        Statement::ConstraintEquality { lhe, rhe, .. } => has_first_write(lhe, env) || has_first_write(rhe, env),
        Statement::LogCall { args, .. } => any_log_first_write(args@, args@.len() as int, env),
        Statement::Assert { arg, .. } => has_first_write(arg, env),
    }
}
// t is a valuation in which this statement holds: a local variable assigned here has at most the degree of its
// right-hand side; declared signals and components are indeterminates (degree at most 1)
pub open spec fn consistent_d(st: Statement, env: DegreeEnvironment, t: Truth) -> bool {
    match st {
        Statement::Substitution { var, rhe, .. } => denv_local(env, var) ==> t(var) <= sem(rhe, t),
        Statement::Declaration { names, var_type, .. } => vt_linear(var_type) ==> forall|v: VariableName| nev_names(names).contains(v) ==> #[trigger] t(v) <= 1,
        _ => true,
    }
}
pub open spec fn stmt_step_ok_d(pre: Statement, post: Statement, env0: DegreeEnvironment, env1: DegreeEnvironment, t: Truth) -> bool {
    truth_ok(t) && env_sound(env0, t) && stmt_sound_d(pre, t) && consistent_d(pre, env0, t) && !stmt_first_write(pre, env0)
        ==> env_sound(env1, t) && stmt_sound_d(post, t)
}
pub open spec fn log_step_ok_d(a0: LogArgument, a1: LogArgument, env: DegreeEnvironment, t: Truth) -> bool {
    match (a0, a1) {
        (LogArgument::Expr(e0), LogArgument::Expr(e1)) => step_ok(*e0, *e1, env, t),
        (LogArgument::String(x), LogArgument::String(y)) => true,
        _ => false,
    }
}
pub proof fn lemma_log_step_refl_d(a: LogArgument, env: DegreeEnvironment, t: Truth)
    ensures log_step_ok_d(a, a, env, t)
{
    match a { LogArgument::Expr(e) => { lemma_step_refl(*e, env, t); } _ => {} }
}
pub proof fn lemma_log_step_d(v0: Seq<LogArgument>, v1: Seq<LogArgument>, n: int, env: DegreeEnvironment, t: Truth)
    requires v0.len() == v1.len(), 0 <= n <= v0.len(), forall|k: int| 0 <= k < n ==> log_step_ok_d(#[trigger] v0[k], v1[k], env, t)
    ensures
        any_log_first_write(v1, n, env) == any_log_first_write(v0, n, env),
        truth_ok(t) && env_sound(env, t) && all_log_sound_d(v0, n, t) && !any_log_first_write(v0, n, env) ==> all_log_sound_d(v1, n, t),
    decreases n
{
    if n > 0 {
        lemma_log_step_d(v0, v1, n - 1, env, t);
        assert(log_step_ok_d(v0[n - 1], v1[n - 1], env, t));
        match (v0[n - 1], v1[n - 1]) {
            (LogArgument::Expr(e0), LogArgument::Expr(e1)) => {
                assert(step_ok(*e0, *e1, env, t));
                assert(log_first_write(v0[n - 1], env) == has_first_write(*e0, env));
                assert(log_first_write(v1[n - 1], env) == has_first_write(*e1, env));
                assert(log_sound_d(v0[n - 1], t) == annot_sound(*e0, t));
                assert(log_sound_d(v1[n - 1], t) == annot_sound(*e1, t));
            }
            (LogArgument::String(_), LogArgument::String(_)) => {
                assert(!log_first_write(v0[n - 1], env) && !log_first_write(v1[n - 1], env));
                assert(log_sound_d(v0[n - 1], t) && log_sound_d(v1[n - 1], t));
            }
            _ => { assert(false); }
        }
        assert(any_log_first_write(v1, n, env) == (any_log_first_write(v1, n - 1, env) || log_first_write(v1[n - 1], env)));
        assert(any_log_first_write(v0, n, env) == (any_log_first_write(v0, n - 1, env) || log_first_write(v0[n - 1], env)));
        assert(all_log_sound_d(v1, n, t) == (all_log_sound_d(v1, n - 1, t) && log_sound_d(v1[n - 1], t)));
        assert(all_log_sound_d(v0, n, t) == (all_log_sound_d(v0, n - 1, t) && log_sound_d(v0[n - 1], t)));
    }
}
