// ---- prelude of unit `value_expr`
use std::collections::HashSet;
pub type FileID = usize;
pub type FileLocation = std::ops::Range<usize>;
#[verifier::external_body] pub struct VariableName { _o: Vec<u8> }
#[verifier::external_body] pub struct TypeKnowledge { _o: Vec<u8> }
#[verifier::external_body] pub struct DegreeKnowledge { _o: Vec<u8> }
#[verifier::external_body] pub struct VariableKnowledge { _o: Vec<u8> }
#[verifier::external_body] pub struct VariableType { _o: Vec<u8> }
#[verifier::external_body] pub struct AssignOp { _o: Vec<u8> }
#[verifier::external_body] #[verifier::accept_recursive_types(T)] pub struct NonEmptyVec<T> { _o: Vec<T> }
pub type Index = usize;
pub type Version = usize;
// a variable name carries an SSA version or not (ir.rs: `version: Option<Version>`) (T3)
pub uninterp spec fn vn_versioned(v: VariableName) -> bool;
impl VariableName {
    #[verifier::external_body]
    pub fn version(&self) -> (r: &Option<Version>)
        ensures r is Some <==> vn_versioned(*self)
    { unimplemented!() }
}
// the value environment: a finite map from variable names to constants (value_meta.rs: HashMap::get) (T3)
pub uninterp spec fn venv_map(e: ValueEnvironment) -> Map<VariableName, ValueReduction>;
impl ValueEnvironment {
    #[verifier::external_body]
    pub fn get_variable(&self, name: &VariableName) -> (r: Option<&ValueReduction>)
        ensures
            r is Some <==> venv_map(*self).dom().contains(*name),
            r is Some ==> *r.unwrap() == venv_map(*self)[*name],
    { unimplemented!() }
    // value_meta.rs: `if let Some(previous) = self.reduces_to.insert(name.clone(), value.clone()) { assert_eq!(previous, *value); false } else { true }`
    // Partial correctness: IF the call returns, an earlier entry for the name was equal to the new value. That the
    // assert_eq! cannot fire is NOT established here (see not_covered of C06 / C01).
    #[verifier::external_body]
    pub fn add_variable(&mut self, name: &VariableName, value: &ValueReduction) -> (r: bool)
        ensures
            venv_map(*final(self)) == venv_map(*old(self)).insert(*name, *value),
            env_prime(*final(self)) == env_prime(*old(self)),
            venv_map(*old(self)).dom().contains(*name) ==> venv_map(*old(self))[*name] == *value,
    { unimplemented!() }
}

// ---- R5 helpers: bodies are the ORIGINAL expressions
// derived `Clone` of ValueReduction
#[verifier::external_body]
fn __h_clone_red(value: &ValueReduction) -> (r: ValueReduction)
    ensures r == *value
{ unimplemented!() }

// `args.iter().map(|name| env.get_variable(name)).collect::<Option<HashSet<_>>>()`:
// None if some argument has no entry, otherwise the set of the arguments' values (std: FromIterator for Option / HashSet;
// derived Hash/Eq of ValueReduction is structural)
#[verifier::external_body]
fn __h_phi_values<'a>(args: &Vec<VariableName>, env: &'a ValueEnvironment) -> (r: Option<HashSet<&'a ValueReduction>>)
    ensures
        r is Some <==> forall|k: int| 0 <= k < args@.len() ==> venv_map(*env).dom().contains(#[trigger] args@[k]),
        r is Some ==> forall|k: int| 0 <= k < args@.len() ==> r.unwrap()@.contains(&venv_map(*env)[#[trigger] args@[k]]),
        r is Some ==> forall|x: &ValueReduction| r.unwrap()@.contains(x) ==> exists|k: int| 0 <= k < args@.len() && *x == venv_map(*env)[#[trigger] args@[k]],
{ unimplemented!() }

// `*values.iter().next().unwrap()` on a set of size 1 (the caller's guard): some member of the set
#[verifier::external_body]
fn __h_only<'a>(values: &HashSet<&'a ValueReduction>) -> (r: &'a ValueReduction)
    requires values@.len() >= 1
    ensures values@.contains(r)
{ unimplemented!() }

// num_traits::Zero::is_zero for BigInt (T1)
impl BigInt {
    #[verifier::external_body]
    pub fn is_zero(&self) -> (r: bool)
        ensures r == (self@ == 0)
    { unimplemented!() }
}

// derived Hash / PartialEq / Eq of ValueReduction are structural and consistent, so a HashSet<&ValueReduction> behaves as
// the mathematical set of its members (vstd's key model) (T: derive)
#[verifier::external_body]
pub proof fn axiom_value_reduction_key_model()
    ensures vstd::std_specs::hash::obeys_key_model::<&ValueReduction>()
{}
