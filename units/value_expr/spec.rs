// ---- specification of unit `value_expr` (C06 stage 2)
// s: the value (a canonical field element) of every SSA variable in one execution of the enclosing definition.
pub type State = spec_fn(VariableName) -> int;

pub closed spec fn vk_red(k: ValueKnowledge) -> Option<ValueReduction> { k.reduces_to }
pub closed spec fn vk_of(m: Meta) -> Option<ValueReduction> { vk_red(m.value_knowledge) }
pub open spec fn expr_meta(e: Expression) -> Meta {
    match e {
        Expression::InfixOp { meta, .. } => meta,
        Expression::PrefixOp { meta, .. } => meta,
        Expression::SwitchOp { meta, .. } => meta,
        Expression::Variable { meta, .. } => meta,
        Expression::Number(meta, _) => meta,
        Expression::Call { meta, .. } => meta,
        Expression::InlineArray { meta, .. } => meta,
        Expression::Access { meta, .. } => meta,
        Expression::Update { meta, .. } => meta,
        Expression::Phi { meta, .. } => meta,
    }
}
pub open spec fn ann(e: Expression) -> Option<ValueReduction> { vk_of(expr_meta(e)) }
pub open spec fn val(r: ValueReduction) -> int {
    match r { ValueReduction::FieldElement { value } => value@, ValueReduction::Boolean { value } => b2i(value) }
}
pub open spec fn oref(o: &Option<ValueReduction>) -> Option<&ValueReduction> { match o { Some(v) => Some(v), None => None } }
pub open spec fn canon_red(r: ValueReduction, p: int) -> bool {
    match r { ValueReduction::FieldElement { value } => canon(value@, p), _ => true }
}

// the value of `a op b` / `op a` on field elements (truth values are 0 / 1; any non-zero operand of &&, ||, ! is true);
// None where Circom gives a run-time error
pub open spec fn f_div(a: int, b: int, p: int) -> int { choose|v: int| canon(v, p) && (#[trigger] (v * b)) % p == a % p }
pub open spec fn infix_ev(op: ExpressionInfixOpcode, a: int, b: int, p: int) -> Option<int> {
    match op {
        ExpressionInfixOpcode::Mul => Some(f_mul(a, b, p)),
        ExpressionInfixOpcode::Div => if b != 0 { Some(f_div(a, b, p)) } else { None },
        ExpressionInfixOpcode::Add => Some(f_add(a, b, p)),
        ExpressionInfixOpcode::Sub => Some(f_sub(a, b, p)),
        ExpressionInfixOpcode::Pow => Some(ipow(a, b as nat) % p),
        ExpressionInfixOpcode::IntDiv => if b != 0 { Some(a / b) } else { None },
        ExpressionInfixOpcode::Mod => if b != 0 { Some(a % b) } else { None },
        ExpressionInfixOpcode::ShiftL => Some(f_shl(a, b, p)),
        ExpressionInfixOpcode::ShiftR => Some(f_shr(a, b, p)),
        ExpressionInfixOpcode::LesserEq => Some(b2i(f_lt(a, b, p) || f_eq(a, b, p))),
        ExpressionInfixOpcode::GreaterEq => Some(b2i(f_lt(b, a, p) || f_eq(a, b, p))),
        ExpressionInfixOpcode::Lesser => Some(b2i(f_lt(a, b, p))),
        ExpressionInfixOpcode::Greater => Some(b2i(f_lt(b, a, p))),
        ExpressionInfixOpcode::Eq => Some(b2i(f_eq(a, b, p))),
        ExpressionInfixOpcode::NotEq => Some(b2i(!f_eq(a, b, p))),
        ExpressionInfixOpcode::BoolOr => Some(b2i(a != 0 || b != 0)),
        ExpressionInfixOpcode::BoolAnd => Some(b2i(a != 0 && b != 0)),
        ExpressionInfixOpcode::BitOr => Some(nat_or(a, b) % p),
        ExpressionInfixOpcode::BitAnd => Some(nat_and(a, b) % p),
        ExpressionInfixOpcode::BitXor => Some(nat_xor(a, b) % p),
    }
}
pub open spec fn prefix_ev(op: ExpressionPrefixOpcode, a: int, p: int) -> Option<int> {
    match op {
        ExpressionPrefixOpcode::Sub => Some(f_neg(a, p)),
        ExpressionPrefixOpcode::Complement => Some(f_compl(a, p)),
        ExpressionPrefixOpcode::BoolNot => Some(b2i(!(a != 0))),
    }
}
// a phi node has a value only if it is the same whichever argument is live
pub open spec fn phi_ev(args: Seq<VariableName>, s: State) -> Option<int> {
    if args.len() > 0 && (forall|k: int| 0 <= k < args.len() ==> s(#[trigger] args[k]) == s(args[0])) { Some(s(args[0])) } else { None }
}
// ev(e, s, p): the value Circom defines for expression e in state s (None: run-time error, or not modelled — calls,
// array expressions and accesses — so that no constant may ever be attributed to such a node)
pub open spec fn ev(e: Expression, s: State, p: int) -> Option<int>
    decreases e
{
    match e {
        Expression::Number(_, v) => if v@ >= 0 { Some(v@ % p) } else { None },
        Expression::Variable { name, .. } => Some(s(name)),
        Expression::InfixOp { lhe, infix_op, rhe, .. } => match (ev(*lhe, s, p), ev(*rhe, s, p)) {
            (Some(a), Some(b)) => infix_ev(infix_op, a, b, p),
            _ => None,
        },
        Expression::PrefixOp { prefix_op, rhe, .. } => match ev(*rhe, s, p) { Some(a) => prefix_ev(prefix_op, a, p), None => None },
        Expression::SwitchOp { cond, if_true, if_false, .. } => match ev(*cond, s, p) {
            Some(c) => if c != 0 { ev(*if_true, s, p) } else { ev(*if_false, s, p) },
            None => None,
        },
        Expression::Phi { args, .. } => phi_ev(args@, s),
        _ => None,
    }
}
// ---- the operator dispatch (stage 1 contracts) claims exactly these values
pub proof fn lemma_recover(v: int, b: int, x: int, p: int)
    requires p > 1, 0 <= v < p, (x * b) % p == 1
    ensures (((v * b) % p) * x) % p == v
{
    lemma_mul_mod_noop_left(v * b, x, p);
    assert((v * b) * x == v * (x * b)) by (nonlinear_arith);
    lemma_mul_mod_noop_right(v, x * b, p);
    assert(v * 1 == v);
    lemma_small_mod(v as nat, p as nat);
}
pub proof fn lemma_div_unique(a: int, b: int, p: int, v: int)
    requires field_ok(p), 0 < b < p, canon(v, p), (v * b) % p == a % p
    ensures f_div(a, b, p) == v
{
    let w = f_div(a, b, p);
    assert(canon(w, p) && (w * b) % p == a % p);
    assert(has_inverse(b, p));
    let x = choose|x: int| 0 <= x < p && (#[trigger] (x * b)) % p == 1;
    lemma_recover(v, b, x, p);
    lemma_recover(w, b, x, p);
}
pub proof fn lemma_infix_claim(op: ExpressionInfixOpcode, l: Option<&ValueReduction>, r: Option<&ValueReduction>, p: int, out: ValueReduction)
    requires field_ok(p), infix_claim_ok(op, l, r, p, Some(out)), canon_val(l, p), canon_val(r, p)
    ensures l is Some && r is Some && infix_ev(op, val(*l.unwrap()), val(*r.unwrap()), p) == Some(val(out))
{
    match (l, r) {
        (Some(ValueReduction::FieldElement { value: a }), Some(ValueReduction::FieldElement { value: b })) => {
            if op == ExpressionInfixOpcode::Div && out is FieldElement { lemma_div_unique(a@, b@, p, val(out)); }
        }
        _ => {}
    }
}
pub proof fn lemma_prefix_claim(op: ExpressionPrefixOpcode, a: Option<&ValueReduction>, p: int, out: ValueReduction)
    requires prefix_claim_ok(op, a, p, Some(out))
    ensures a is Some && prefix_ev(op, val(*a.unwrap()), p) == Some(val(out))
{}

// every recorded constant in the tree is a value of its node
pub open spec fn annot_sound(e: Expression, s: State, p: int) -> bool
    decreases e
{
    (ann(e) is Some ==> ev(e, s, p) == Some(val(ann(e).unwrap())))
    && match e {
        Expression::InfixOp { lhe, rhe, .. } => annot_sound(*lhe, s, p) && annot_sound(*rhe, s, p),
        Expression::PrefixOp { rhe, .. } => annot_sound(*rhe, s, p),
        Expression::SwitchOp { cond, if_true, if_false, .. } => annot_sound(*cond, s, p) && annot_sound(*if_true, s, p) && annot_sound(*if_false, s, p),
        Expression::Call { args, .. } => all_sound(args@, args@.len() as int, s, p),
        Expression::InlineArray { values, .. } => all_sound(values@, values@.len() as int, s, p),
        Expression::Access { access, .. } => all_access_sound(access@, access@.len() as int, s, p),
        Expression::Update { access, rhe, .. } => annot_sound(*rhe, s, p) && all_access_sound(access@, access@.len() as int, s, p),
        _ => true,
    }
}
pub open spec fn all_sound(v: Seq<Expression>, n: int, s: State, p: int) -> bool
    decreases v, n
{
    if n <= 0 || n > v.len() { true } else { all_sound(v, n - 1, s, p) && annot_sound(v[n - 1], s, p) }
}
pub open spec fn access_sound(a: AccessType, s: State, p: int) -> bool
    decreases a
{
    match a { AccessType::ArrayAccess(e) => annot_sound(*e, s, p), _ => true }
}
pub open spec fn all_access_sound(v: Seq<AccessType>, n: int, s: State, p: int) -> bool
    decreases v, n
{
    if n <= 0 || n > v.len() { true } else { all_access_sound(v, n - 1, s, p) && access_sound(v[n - 1], s, p) }
}
// the environment attributes to a variable only the value it has in state s
pub open spec fn env_sound(env: ValueEnvironment, s: State, p: int) -> bool {
    forall|v: VariableName| venv_map(env).dom().contains(v) ==> val(#[trigger] venv_map(env)[v]) == s(v)
}
// state-independent well-formedness: every recorded field element is canonical (0 <= v < p) — in the tree, in the environment
pub open spec fn env_canon(env: ValueEnvironment, p: int) -> bool {
    forall|v: VariableName| venv_map(env).dom().contains(v) ==> canon_red(#[trigger] venv_map(env)[v], p)
}
pub open spec fn canon_tree(e: Expression, p: int) -> bool
    decreases e
{
    (ann(e) is Some ==> canon_red(ann(e).unwrap(), p))
    && match e {
        Expression::Number(_, v) => v@ >= 0,
        Expression::InfixOp { lhe, rhe, .. } => canon_tree(*lhe, p) && canon_tree(*rhe, p),
        Expression::PrefixOp { rhe, .. } => canon_tree(*rhe, p),
        Expression::SwitchOp { cond, if_true, if_false, .. } => canon_tree(*cond, p) && canon_tree(*if_true, p) && canon_tree(*if_false, p),
        Expression::Call { args, .. } => all_canon(args@, args@.len() as int, p),
        Expression::InlineArray { values, .. } => all_canon(values@, values@.len() as int, p),
        Expression::Access { access, .. } => all_access_canon(access@, access@.len() as int, p),
        Expression::Update { access, rhe, .. } => canon_tree(*rhe, p) && all_access_canon(access@, access@.len() as int, p),
        _ => true,
    }
}
pub open spec fn all_canon(v: Seq<Expression>, n: int, p: int) -> bool
    decreases v, n
{
    if n <= 0 || n > v.len() { true } else { all_canon(v, n - 1, p) && canon_tree(v[n - 1], p) }
}
pub open spec fn access_canon(a: AccessType, p: int) -> bool
    decreases a
{
    match a { AccessType::ArrayAccess(e) => canon_tree(*e, p), _ => true }
}
pub open spec fn all_access_canon(v: Seq<AccessType>, n: int, p: int) -> bool
    decreases v, n
{
    if n <= 0 || n > v.len() { true } else { all_access_canon(v, n - 1, p) && access_canon(v[n - 1], p) }
}
pub proof fn lemma_all_canon_elem(v: Seq<Expression>, n: int, p: int, k: int)
    requires 0 <= k < n <= v.len(), all_canon(v, n, p)
    ensures canon_tree(v[k], p)
    decreases n
{ if k < n - 1 { lemma_all_canon_elem(v, n - 1, p, k); } }
pub proof fn lemma_all_canon_intro(v: Seq<Expression>, n: int, p: int)
    requires 0 <= n <= v.len(), forall|k: int| 0 <= k < n ==> canon_tree(#[trigger] v[k], p)
    ensures all_canon(v, n, p)
    decreases n
{ if n > 0 { lemma_all_canon_intro(v, n - 1, p); } }
pub proof fn lemma_all_access_canon_elem(v: Seq<AccessType>, n: int, p: int, k: int)
    requires 0 <= k < n <= v.len(), all_access_canon(v, n, p)
    ensures access_canon(v[k], p)
    decreases n
{ if k < n - 1 { lemma_all_access_canon_elem(v, n - 1, p, k); } }
pub proof fn lemma_all_access_canon_intro(v: Seq<AccessType>, n: int, p: int)
    requires 0 <= n <= v.len(), forall|k: int| 0 <= k < n ==> access_canon(#[trigger] v[k], p)
    ensures all_access_canon(v, n, p)
    decreases n
{ if n > 0 { lemma_all_access_canon_intro(v, n - 1, p); } }
// what one call guarantees, for a fixed state: the expression is unchanged apart from its annotations (same values hold),
// and sound annotations stay sound
pub open spec fn step_ok(pre: Expression, post: Expression, env: ValueEnvironment, s: State) -> bool {
    let p = env_prime(env);
    ev(post, s, p) == ev(pre, s, p)
    && (field_ok(p) && env_sound(env, s, p) && annot_sound(pre, s, p) ==> annot_sound(post, s, p))
}
pub proof fn lemma_step_refl(e: Expression, env: ValueEnvironment, s: State)
    ensures step_ok(e, e, env, s)
{}
pub open spec fn access_step_ok(a0: AccessType, a1: AccessType, env: ValueEnvironment, s: State) -> bool {
    match (a0, a1) {
        (AccessType::ArrayAccess(e0), AccessType::ArrayAccess(e1)) => step_ok(*e0, *e1, env, s),
        (AccessType::ComponentAccess(_), AccessType::ComponentAccess(_)) => true,
        _ => false,
    }
}
pub proof fn lemma_access_step_refl(a: AccessType, env: ValueEnvironment, s: State)
    ensures access_step_ok(a, a, env, s)
{
    match a { AccessType::ArrayAccess(e) => { lemma_step_refl(*e, env, s); } _ => {} }
}
// element-wise steps carry over to the sequence-level predicates
pub proof fn lemma_seq_step(v0: Seq<Expression>, v1: Seq<Expression>, n: int, env: ValueEnvironment, s: State)
    requires v0.len() == v1.len(), 0 <= n <= v0.len(), forall|k: int| 0 <= k < n ==> step_ok(#[trigger] v0[k], v1[k], env, s)
    ensures
        field_ok(env_prime(env)) && env_sound(env, s, env_prime(env)) && all_sound(v0, n, s, env_prime(env)) ==> all_sound(v1, n, s, env_prime(env)),
    decreases n
{
    if n > 0 {
        lemma_seq_step(v0, v1, n - 1, env, s);
        assert(step_ok(v0[n - 1], v1[n - 1], env, s));
    }
}
pub proof fn lemma_access_step(v0: Seq<AccessType>, v1: Seq<AccessType>, n: int, env: ValueEnvironment, s: State)
    requires v0.len() == v1.len(), 0 <= n <= v0.len(), forall|k: int| 0 <= k < n ==> access_step_ok(#[trigger] v0[k], v1[k], env, s)
    ensures
        field_ok(env_prime(env)) && env_sound(env, s, env_prime(env)) && all_access_sound(v0, n, s, env_prime(env)) ==> all_access_sound(v1, n, s, env_prime(env)),
    decreases n
{
    if n > 0 {
        lemma_access_step(v0, v1, n - 1, env, s);
        assert(access_step_ok(v0[n - 1], v1[n - 1], env, s));
        match (v0[n - 1], v1[n - 1]) {
            (AccessType::ArrayAccess(e0), AccessType::ArrayAccess(e1)) => {
                assert(step_ok(*e0, *e1, env, s));
                assert(access_sound(v0[n - 1], s, env_prime(env)) == annot_sound(*e0, s, env_prime(env)));
                assert(access_sound(v1[n - 1], s, env_prime(env)) == annot_sound(*e1, s, env_prime(env)));
            }
            (AccessType::ComponentAccess(_), AccessType::ComponentAccess(_)) => {
                assert(access_sound(v0[n - 1], s, env_prime(env)) && access_sound(v1[n - 1], s, env_prime(env)));
            }
            _ => { assert(false); }
        }
        assert(all_access_sound(v1, n, s, env_prime(env)) == (all_access_sound(v1, n - 1, s, env_prime(env)) && access_sound(v1[n - 1], s, env_prime(env))));
        assert(all_access_sound(v0, n, s, env_prime(env)) == (all_access_sound(v0, n - 1, s, env_prime(env)) && access_sound(v0[n - 1], s, env_prime(env))));
    }
}

pub proof fn lemma_two_elems_ref(s: Set<&ValueReduction>, a: &ValueReduction, b: &ValueReduction)
    requires s.contains(a), s.contains(b), *a != *b
    ensures s.len() >= 2
{
    let t = s.remove(a).remove(b);
    assert(s =~= t.insert(b).insert(a));
    assert(!t.contains(b) && !t.insert(b).contains(a));
}

// ---- statement level (Statement::propagate_values): the value environment stays sound
pub closed spec fn dummy_stmt_level() -> bool { true }
pub open spec fn log_sound(a: LogArgument, s: State, p: int) -> bool {
    match a { LogArgument::Expr(e) => annot_sound(*e, s, p), _ => true }
}
pub open spec fn all_log_sound(v: Seq<LogArgument>, n: int, s: State, p: int) -> bool
    decreases n
{
    if n <= 0 || n > v.len() { true } else { all_log_sound(v, n - 1, s, p) && log_sound(v[n - 1], s, p) }
}
pub open spec fn log_canon(a: LogArgument, p: int) -> bool {
    match a { LogArgument::Expr(e) => canon_tree(*e, p), _ => true }
}
pub open spec fn all_log_canon(v: Seq<LogArgument>, n: int, p: int) -> bool
    decreases n
{
    if n <= 0 || n > v.len() { true } else { all_log_canon(v, n - 1, p) && log_canon(v[n - 1], p) }
}
pub proof fn lemma_all_log_canon_elem(v: Seq<LogArgument>, n: int, p: int, k: int)
    requires 0 <= k < n <= v.len(), all_log_canon(v, n, p)
    ensures log_canon(v[k], p)
    decreases n
{ if k < n - 1 { lemma_all_log_canon_elem(v, n - 1, p, k); } }
pub proof fn lemma_all_log_canon_intro(v: Seq<LogArgument>, n: int, p: int)
    requires 0 <= n <= v.len(), forall|k: int| 0 <= k < n ==> log_canon(#[trigger] v[k], p)
    ensures all_log_canon(v, n, p)
    decreases n
{ if n > 0 { lemma_all_log_canon_intro(v, n - 1, p); } }
pub open spec fn log_step_ok(a0: LogArgument, a1: LogArgument, env: ValueEnvironment, s: State) -> bool {
    match (a0, a1) {
        (LogArgument::Expr(e0), LogArgument::Expr(e1)) => step_ok(*e0, *e1, env, s),
        (LogArgument::String(x), LogArgument::String(y)) => true,
        _ => false,
    }
}
pub proof fn lemma_log_step_refl(a: LogArgument, env: ValueEnvironment, s: State)
    ensures log_step_ok(a, a, env, s)
{
    match a { LogArgument::Expr(e) => { lemma_step_refl(*e, env, s); } _ => {} }
}
pub proof fn lemma_log_step(v0: Seq<LogArgument>, v1: Seq<LogArgument>, n: int, env: ValueEnvironment, s: State)
    requires v0.len() == v1.len(), 0 <= n <= v0.len(), forall|k: int| 0 <= k < n ==> log_step_ok(#[trigger] v0[k], v1[k], env, s)
    ensures
        field_ok(env_prime(env)) && env_sound(env, s, env_prime(env)) && all_log_sound(v0, n, s, env_prime(env)) ==> all_log_sound(v1, n, s, env_prime(env)),
    decreases n
{
    if n > 0 {
        lemma_log_step(v0, v1, n - 1, env, s);
        assert(log_step_ok(v0[n - 1], v1[n - 1], env, s));
        match (v0[n - 1], v1[n - 1]) {
            (LogArgument::Expr(e0), LogArgument::Expr(e1)) => {
                assert(step_ok(*e0, *e1, env, s));
                assert(log_sound(v0[n - 1], s, env_prime(env)) == annot_sound(*e0, s, env_prime(env)));
                assert(log_sound(v1[n - 1], s, env_prime(env)) == annot_sound(*e1, s, env_prime(env)));
            }
            (LogArgument::String(_), LogArgument::String(_)) => {
                assert(log_sound(v0[n - 1], s, env_prime(env)) && log_sound(v1[n - 1], s, env_prime(env)));
            }
            _ => { assert(false); }
        }
        assert(all_log_sound(v1, n, s, env_prime(env)) == (all_log_sound(v1, n - 1, s, env_prime(env)) && log_sound(v1[n - 1], s, env_prime(env))));
        assert(all_log_sound(v0, n, s, env_prime(env)) == (all_log_sound(v0, n - 1, s, env_prime(env)) && log_sound(v0[n - 1], s, env_prime(env))));
    }
}
// every constant recorded inside the statement is the value of its node; the statement's own constant is the value assigned
pub open spec fn stmt_sound(st: Statement, s: State, p: int) -> bool {
    match st {
        Statement::Declaration { dimensions, .. } => all_sound(dimensions@, dimensions@.len() as int, s, p),
        Statement::IfThenElse { cond, .. } => annot_sound(cond, s, p),
        Statement::Return { value, .. } => annot_sound(value, s, p),
        Statement::Substitution { meta, rhe, .. } => annot_sound(rhe, s, p) && (vk_of(meta) is Some ==> ev(rhe, s, p) == Some(val(vk_of(meta).unwrap()))),
        Statement::ConstraintEquality { lhe, rhe, .. } => annot_sound(lhe, s, p) && annot_sound(rhe, s, p),
        Statement::LogCall { args, .. } => all_log_sound(args@, args@.len() as int, s, p),
        Statement::Assert { arg, .. } => annot_sound(arg, s, p),
    }
}
pub open spec fn stmt_canon(st: Statement, p: int) -> bool {
    match st {
        Statement::Declaration { dimensions, .. } => all_canon(dimensions@, dimensions@.len() as int, p),
        Statement::IfThenElse { cond, .. } => canon_tree(cond, p),
        Statement::Return { value, .. } => canon_tree(value, p),
        Statement::Substitution { meta, rhe, .. } => canon_tree(rhe, p) && (vk_of(meta) is Some ==> canon_red(vk_of(meta).unwrap(), p)),
        Statement::ConstraintEquality { lhe, rhe, .. } => canon_tree(lhe, p) && canon_tree(rhe, p),
        Statement::LogCall { args, .. } => all_log_canon(args@, args@.len() as int, p),
        Statement::Assert { arg, .. } => canon_tree(arg, p),
    }
}
// s is an execution in which this statement holds: an SSA variable assigned here has the value of its right-hand side
pub open spec fn consistent(st: Statement, s: State, p: int) -> bool {
    match st {
        Statement::Substitution { var, rhe, .. } => vn_versioned(var) && !(rhe is Update) && ev(rhe, s, p) is Some ==> s(var) == ev(rhe, s, p).unwrap(),
        _ => true,
    }
}
// what one call of Statement::propagate_values guarantees for a fixed state
pub open spec fn stmt_step_ok(pre: Statement, post: Statement, env0: ValueEnvironment, env1: ValueEnvironment, s: State) -> bool {
    let p = env_prime(env0);
    consistent(post, s, p) == consistent(pre, s, p)
    && (field_ok(p) && env_sound(env0, s, p) && stmt_sound(pre, s, p) && consistent(pre, s, p) ==> env_sound(env1, s, p) && stmt_sound(post, s, p))
}
