// ---- prelude of unit `dom`
use std::collections::HashSet;
use std::marker::PhantomData;
use vstd::std_specs::iter::IteratorSpec;
broadcast use vstd::std_specs::hash::group_hash_axioms;

pub type Index = usize;
pub type IndexSet = HashSet<Index>;
pub type DominatorInfo = Vec<HashSet<Index>>;
pub type ImmediateDominatorInfo = Vec<Option<Index>>;

// ---- R5 helpers: each body is the ORIGINAL expression of /repo, verbatim; only the specification is assumed (T2)
#[verifier::external_body]
fn __h_singleton_zero() -> (r: HashSet<usize>)
    ensures r@ == set![0usize]
{ HashSet::from([0]) }

#[verifier::external_body]
fn __h_full_set(nof_blocks: usize) -> (r: HashSet<usize>)
    ensures forall|k: usize| r@.contains(k) <==> k < nof_blocks
{ (0..nof_blocks).collect() }

#[verifier::external_body]
fn __h_intersection(new_dominators: &HashSet<usize>, other: &HashSet<usize>) -> (r: HashSet<usize>)
    ensures r@ == new_dominators@.intersect(other@)
{ new_dominators.intersection(other).copied().collect() }

#[verifier::external_body]
fn __h_set_ne(a: &HashSet<usize>, b: &HashSet<usize>) -> (r: bool)
    ensures r == (a@ != b@)
{ a != b }

#[verifier::external_body]
fn __h_vec_none(nof_blocks: usize) -> (r: Vec<Option<usize>>)
    ensures r@.len() == nof_blocks, forall|k: int| 0 <= k < r@.len() ==> (#[trigger] r@[k]) is None
{ vec![None; nof_blocks] }

#[verifier::external_body]
fn __h_vec_empty_sets(nof_blocks: usize) -> (r: Vec<HashSet<usize>>)
    ensures r@.len() == nof_blocks, forall|k: int| 0 <= k < r@.len() ==> (#[trigger] r@[k])@ == Set::<usize>::empty()
{ vec![HashSet::new(); nof_blocks] }

// `Dom(j) \ {j}  U  all_dominators`
#[verifier::external_body]
fn __h_union_strict(dom_j: &HashSet<usize>, j: &usize, all_dominators: &HashSet<usize>) -> (r: HashSet<usize>)
    ensures r@ == dom_j@.remove(*j).union(all_dominators@)
{ dom_j.clone().into_iter().filter(|&k| k != *j).collect::<HashSet<usize>>().union(all_dominators).copied().collect() }

#[verifier::external_body]
fn __h_difference(a: &HashSet<usize>, b: &HashSet<usize>) -> (r: HashSet<usize>)
    ensures r@ == a@.difference(b@)
{ a - b }

// `set.iter().next()`: some element of the set, None iff the set is empty
#[verifier::external_body]
fn __h_first(s: &HashSet<usize>) -> (r: Option<&usize>)
    ensures
        r is None <==> s@.len() == 0,
        r is Some ==> s@.contains(*r->Some_0),
{ s.iter().next() }

// `HashSet::clone`
#[verifier::external_body]
fn __h_clone_set(s: &HashSet<usize>) -> (r: HashSet<usize>)
    ensures r@ == s@
{ s.clone() }
