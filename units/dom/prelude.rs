// ---- prelude of unit `dom`
use std::collections::HashSet;
use vstd::std_specs::iter::IteratorSpec;
broadcast use vstd::std_specs::hash::group_hash_axioms;

pub type Index = usize;
pub type IndexSet = HashSet<Index>;
pub type DominatorInfo = Vec<HashSet<Index>>;
pub type ImmediateDominatorInfo = Vec<Option<Index>>;

// ---- R5 helpers: each body is the ORIGINAL expression of /repo, verbatim; only the specification is assumed (T2)
#[verifier::external_body]
fn __h_singleton_zero() -> (r: HashSet<usize>)
    ensures r@ == set![0usize]
{ HashSet::from([0]) }

#[verifier::external_body]
fn __h_full_set(nof_blocks: usize) -> (r: HashSet<usize>)
    ensures forall|k: usize| r@.contains(k) <==> k < nof_blocks
{ (0..nof_blocks).collect() }

#[verifier::external_body]
fn __h_intersection(new_dominators: &HashSet<usize>, other: &HashSet<usize>) -> (r: HashSet<usize>)
    ensures r@ == new_dominators@.intersect(other@)
{ new_dominators.intersection(other).copied().collect() }

#[verifier::external_body]
fn __h_set_ne(a: &HashSet<usize>, b: &HashSet<usize>) -> (r: bool)
    ensures r == (a@ != b@)
{ a != b }
