// ---- specification of unit `dom` (C15), from the property statement:
//  "the computed dominator set of a node is exactly the set of nodes lying on every entry-to-node path, the immediate
//   dominator is the unique closest strict dominator, the dominator-tree children invert it, and the dominance frontier
//   of i is exactly the set of nodes j such that i dominates a predecessor of j but does not strictly dominate j"
pub type G = Seq<Set<usize>>;   // g[i] = predecessors of node i; node 0 is the entry

pub open spec fn graph_of<T: DirectedGraphNode>(bs: Seq<T>) -> G { Seq::new(bs.len(), |i: int| bs[i].spec_preds()) }

pub open spec fn is_path(g: G, s: Seq<usize>) -> bool {
    s.len() >= 1 && s[0] == 0
    && (forall|k: int| 0 <= k < s.len() ==> (#[trigger] s[k]) < g.len())
    && (forall|k: int| 0 <= k < s.len() - 1 ==> g[#[trigger] s[k + 1] as int].contains(s[k]))
}
pub open spec fn reachable(g: G, i: usize) -> bool { exists|s: Seq<usize>| is_path(g, s) && #[trigger] s.last() == i }
// "every directed graph whose nodes are all reachable from an entry node without predecessors"
pub open spec fn wf(g: G) -> bool {
    g.len() >= 1
    && (forall|i: int, q: usize| 0 <= i < g.len() && #[trigger] g[i].contains(q) ==> q < g.len())
    && g[0] =~= Set::<usize>::empty()
    && (forall|i: usize| i < g.len() ==> #[trigger] reachable(g, i))
}
// d lies on every entry-to-i path
pub open spec fn dom(g: G, d: usize, i: usize) -> bool {
    forall|s: Seq<usize>| is_path(g, s) && s.last() == i ==> #[trigger] s.contains(d)
}
pub open spec fn sdom(g: G, d: usize, i: usize) -> bool { dom(g, d, i) && d != i }
pub open spec fn is_idom(g: G, j: usize, i: usize) -> bool {
    j < g.len() && sdom(g, j, i) && forall|k: usize| k < g.len() && sdom(g, k, i) ==> #[trigger] dom(g, k, j)
}
pub open spec fn in_df(g: G, i: usize, j: usize) -> bool {
    (exists|q: usize| #[trigger] g[j as int].contains(q) && dom(g, i, q)) && !sdom(g, i, j)
}

// ---- the dominance equations
pub open spec fn in_step(g: G, dd: Seq<Set<usize>>, i: usize, d: usize) -> bool {
    d == i || (d < g.len() && forall|q: usize| g[i as int].contains(q) ==> #[trigger] dd[q as int].contains(d))
}
pub open spec fn fix_at(g: G, dd: Seq<Set<usize>>, i: usize) -> bool {
    forall|d: usize| #[trigger] dd[i as int].contains(d) <==> in_step(g, dd, i, d)
}
pub open spec fn is_fix(g: G, dd: Seq<Set<usize>>) -> bool {
    dd.len() == g.len() && dd[0] =~= set![0usize]
    && forall|i: usize| 1 <= i < g.len() ==> #[trigger] fix_at(g, dd, i)
}

// a fixed point of the dominance equations is contained in Dom (induction on the path)
pub proof fn lemma_fix_sound(g: G, dd: Seq<Set<usize>>, s: Seq<usize>, d: usize)
    requires wf(g), is_fix(g, dd), is_path(g, s), dd[s.last() as int].contains(d)
    ensures s.contains(d)
    decreases s.len()
{
    let i = s.last();
    if s.len() == 1 {
        assert(s[0] == 0);
        assert(d == 0);
        assert(s[0] == d);
    } else {
        let t = s.drop_last();
        let q = t.last();
        assert(q == s[s.len() - 2]);
        assert(g[s[(s.len() - 2) + 1] as int].contains(s[s.len() - 2]));
        assert(i != 0);   // g[0] is empty but q is a predecessor of i
        if d == i {
            assert(s[s.len() - 1] == d);
        } else {
            assert(is_path(g, t)) by {
                assert forall|k: int| 0 <= k < t.len() - 1 implies g[#[trigger] t[k + 1] as int].contains(t[k]) by {
                    assert(t[k + 1] == s[k + 1]);
                    assert(t[k] == s[k]);
                }
                assert forall|k: int| 0 <= k < t.len() implies (#[trigger] t[k]) < g.len() by { assert(t[k] == s[k]); }
            }
            assert(fix_at(g, dd, i));
            assert(in_step(g, dd, i, d));
            assert(dd[q as int].contains(d));
            lemma_fix_sound(g, dd, t, d);
            let k = choose|k: int| 0 <= k < t.len() && t[k] == d;
            assert(s[k] == d);
        }
    }
}

// a dominator of i other than i dominates every predecessor of i
pub proof fn lemma_dom_step(g: G, d: usize, i: usize, q: usize)
    requires wf(g), i < g.len(), g[i as int].contains(q), dom(g, d, i), d != i
    ensures dom(g, d, q)
{
    assert forall|s: Seq<usize>| is_path(g, s) && s.last() == q implies #[trigger] s.contains(d) by {
        let s2 = s.push(i);
        assert(is_path(g, s2)) by {
            assert forall|k: int| 0 <= k < s2.len() - 1 implies g[#[trigger] s2[k + 1] as int].contains(s2[k]) by {
                if k + 1 < s.len() { assert(s2[k + 1] == s[k + 1]); assert(s2[k] == s[k]); }
                else { assert(s2[k + 1] == i); assert(s2[k] == q); }
            }
            assert forall|k: int| 0 <= k < s2.len() implies (#[trigger] s2[k]) < g.len() by {
                if k < s.len() { assert(s2[k] == s[k]); }
            }
            assert(s2[0] == s[0]);
        }
        assert(s2.last() == i);
        assert(s2.contains(d));
        let k = choose|k: int| 0 <= k < s2.len() && s2[k] == d;
        assert(k < s.len());
        assert(s[k] == d);
    }
}

// only the entry dominates the entry; every dominator is a node of the graph (needs a path: reachability)
pub proof fn lemma_dom_entry(g: G, d: usize)
    requires wf(g), dom(g, d, 0)
    ensures d == 0
{
    let s = seq![0usize];
    assert(is_path(g, s));
    assert(s.last() == 0);
    assert(s.contains(d));
    let k = choose|k: int| 0 <= k < s.len() && s[k] == d;
    assert(s[k] == 0);
}
pub proof fn lemma_dom_in_range(g: G, d: usize, i: usize)
    requires wf(g), i < g.len(), dom(g, d, i)
    ensures d < g.len()
{
    assert(reachable(g, i));
    let s = choose|s: Seq<usize>| is_path(g, s) && #[trigger] s.last() == i;
    assert(s.contains(d));
    let k = choose|k: int| 0 <= k < s.len() && s[k] == d;
    assert(s[k] < g.len());
}
pub proof fn lemma_dom_refl(g: G, i: usize)
    ensures dom(g, i, i)
{
    assert forall|s: Seq<usize>| is_path(g, s) && s.last() == i implies #[trigger] s.contains(i) by {
        assert(s[s.len() - 1] == i);
    }
}

// the invariant of the fixpoint iteration: D over-approximates Dom, stays inside the node range, D[0] = {0}
pub open spec fn sup_inv(g: G, dd: Seq<Set<usize>>) -> bool {
    dd.len() == g.len() && dd[0] =~= set![0usize]
    && (forall|i: usize, d: usize| i < g.len() && #[trigger] dd[i as int].contains(d) ==> d < g.len())
    && (forall|i: usize, d: usize| i < g.len() && #[trigger] dom(g, d, i) ==> dd[i as int].contains(d))
}
pub open spec fn view_sets(v: Seq<HashSet<usize>>) -> Seq<Set<usize>> { Seq::new(v.len(), |i: int| v[i]@) }

// final step: a fixed point that over-approximates Dom IS Dom
pub proof fn lemma_fix_is_dom(g: G, dd: Seq<Set<usize>>)
    requires wf(g), sup_inv(g, dd), is_fix(g, dd)
    ensures forall|i: usize, d: usize| i < g.len() ==> (#[trigger] dd[i as int].contains(d) <==> d < g.len() && dom(g, d, i))
{
    assert forall|i: usize, d: usize| i < g.len() implies (#[trigger] dd[i as int].contains(d) <==> d < g.len() && dom(g, d, i)) by {
        if dd[i as int].contains(d) {
            assert forall|s: Seq<usize>| is_path(g, s) && s.last() == i implies #[trigger] s.contains(d) by {
                lemma_fix_sound(g, dd, s, d);
            }
        }
    }
}

// Dom satisfies the step inequality: what the algorithm computes for node i keeps every dominator of i
pub proof fn lemma_step_sup(g: G, dd: Seq<Set<usize>>, i: usize)
    requires wf(g), sup_inv(g, dd), 1 <= i < g.len()
    ensures forall|d: usize| #[trigger] dom(g, d, i) ==> in_step(g, dd, i, d)
{
    assert forall|d: usize| #[trigger] dom(g, d, i) implies in_step(g, dd, i, d) by {
        if d != i {
            lemma_dom_in_range(g, d, i);
            assert forall|q: usize| g[i as int].contains(q) implies #[trigger] dd[q as int].contains(d) by {
                lemma_dom_step(g, d, i, q);
                assert(q < g.len());
                assert(dom(g, d, q));
            }
        }
    }
}

// replacing D[i] by the step value keeps the invariant
pub proof fn lemma_update_sup(g: G, dd: Seq<Set<usize>>, i: usize, s: Set<usize>)
    requires wf(g), sup_inv(g, dd), 1 <= i < g.len(), forall|d: usize| s.contains(d) <==> in_step(g, dd, i, d)
    ensures sup_inv(g, dd.update(i as int, s))
{
    lemma_step_sup(g, dd, i);
    let d2 = dd.update(i as int, s);
    assert(d2[0] == dd[0]);
    assert forall|k: usize, d: usize| k < g.len() && #[trigger] d2[k as int].contains(d) implies d < g.len() by {
        if k == i { assert(in_step(g, dd, i, d)); } else { assert(d2[k as int] == dd[k as int]); }
    }
    assert forall|k: usize, d: usize| k < g.len() && #[trigger] dom(g, d, k) implies d2[k as int].contains(d) by {
        if k == i { assert(in_step(g, dd, i, d)); } else { assert(d2[k as int] == dd[k as int]); }
    }
}
