// ---- specification of unit `dom` (C15), from the property statement:
//  "the computed dominator set of a node is exactly the set of nodes lying on every entry-to-node path, the immediate
//   dominator is the unique closest strict dominator, the dominator-tree children invert it, and the dominance frontier
//   of i is exactly the set of nodes j such that i dominates a predecessor of j but does not strictly dominate j"
pub type G = Seq<Set<usize>>;   // g[i] = predecessors of node i; node 0 is the entry

pub open spec fn graph_of<T: DirectedGraphNode>(bs: Seq<T>) -> G { Seq::new(bs.len(), |i: int| bs[i].spec_preds()) }

pub open spec fn is_path(g: G, s: Seq<usize>) -> bool {
    s.len() >= 1 && s[0] == 0
    && (forall|k: int| 0 <= k < s.len() ==> (#[trigger] s[k]) < g.len())
    && (forall|k: int| 0 <= k < s.len() - 1 ==> g[#[trigger] s[k + 1] as int].contains(s[k]))
}
pub open spec fn reachable(g: G, i: usize) -> bool { exists|s: Seq<usize>| is_path(g, s) && #[trigger] s.last() == i }
// "every directed graph whose nodes are all reachable from an entry node without predecessors"
pub open spec fn wf(g: G) -> bool {
    g.len() >= 1
    && (forall|i: int, q: usize| 0 <= i < g.len() && #[trigger] g[i].contains(q) ==> q < g.len())
    && g[0] =~= Set::<usize>::empty()
    && (forall|i: usize| i < g.len() ==> #[trigger] reachable(g, i))
}
// d lies on every entry-to-i path
pub open spec fn dom(g: G, d: usize, i: usize) -> bool {
    forall|s: Seq<usize>| is_path(g, s) && s.last() == i ==> #[trigger] s.contains(d)
}
pub open spec fn sdom(g: G, d: usize, i: usize) -> bool { dom(g, d, i) && d != i }
pub open spec fn is_idom(g: G, j: usize, i: usize) -> bool {
    j < g.len() && sdom(g, j, i) && forall|k: usize| k < g.len() && sdom(g, k, i) ==> #[trigger] dom(g, k, j)
}
pub open spec fn in_df(g: G, i: usize, j: usize) -> bool {
    (exists|q: usize| #[trigger] g[j as int].contains(q) && dom(g, i, q)) && !sdom(g, i, j)
}

// ---- the dominance equations
pub open spec fn in_step(g: G, dd: Seq<Set<usize>>, i: usize, d: usize) -> bool {
    d == i || (d < g.len() && forall|q: usize| g[i as int].contains(q) ==> #[trigger] dd[q as int].contains(d))
}
pub open spec fn fix_at(g: G, dd: Seq<Set<usize>>, i: usize) -> bool {
    forall|d: usize| #[trigger] dd[i as int].contains(d) <==> in_step(g, dd, i, d)
}
pub open spec fn is_fix(g: G, dd: Seq<Set<usize>>) -> bool {
    dd.len() == g.len() && dd[0] =~= set![0usize]
    && forall|i: usize| 1 <= i < g.len() ==> #[trigger] fix_at(g, dd, i)
}

// a fixed point of the dominance equations is contained in Dom (induction on the path)
pub proof fn lemma_fix_sound(g: G, dd: Seq<Set<usize>>, s: Seq<usize>, d: usize)
    requires wf(g), is_fix(g, dd), is_path(g, s), dd[s.last() as int].contains(d)
    ensures s.contains(d)
    decreases s.len()
{
    let i = s.last();
    if s.len() == 1 {
        assert(s[0] == 0);
        assert(d == 0);
        assert(s[0] == d);
    } else {
        let t = s.drop_last();
        let q = t.last();
        assert(q == s[s.len() - 2]);
        assert(g[s[(s.len() - 2) + 1] as int].contains(s[s.len() - 2]));
        assert(i != 0);   // g[0] is empty but q is a predecessor of i
        if d == i {
            assert(s[s.len() - 1] == d);
        } else {
            assert(is_path(g, t)) by {
                assert forall|k: int| 0 <= k < t.len() - 1 implies g[#[trigger] t[k + 1] as int].contains(t[k]) by {
                    assert(t[k + 1] == s[k + 1]);
                    assert(t[k] == s[k]);
                }
                assert forall|k: int| 0 <= k < t.len() implies (#[trigger] t[k]) < g.len() by { assert(t[k] == s[k]); }
            }
            assert(fix_at(g, dd, i));
            assert(in_step(g, dd, i, d));
            assert(dd[q as int].contains(d));
            lemma_fix_sound(g, dd, t, d);
            let k = choose|k: int| 0 <= k < t.len() && t[k] == d;
            assert(s[k] == d);
        }
    }
}

// a dominator of i other than i dominates every predecessor of i
pub proof fn lemma_dom_step(g: G, d: usize, i: usize, q: usize)
    requires wf(g), i < g.len(), g[i as int].contains(q), dom(g, d, i), d != i
    ensures dom(g, d, q)
{
    assert forall|s: Seq<usize>| is_path(g, s) && s.last() == q implies #[trigger] s.contains(d) by {
        let s2 = s.push(i);
        assert(is_path(g, s2)) by {
            assert forall|k: int| 0 <= k < s2.len() - 1 implies g[#[trigger] s2[k + 1] as int].contains(s2[k]) by {
                if k + 1 < s.len() { assert(s2[k + 1] == s[k + 1]); assert(s2[k] == s[k]); }
                else { assert(s2[k + 1] == i); assert(s2[k] == q); }
            }
            assert forall|k: int| 0 <= k < s2.len() implies (#[trigger] s2[k]) < g.len() by {
                if k < s.len() { assert(s2[k] == s[k]); }
            }
            assert(s2[0] == s[0]);
        }
        assert(s2.last() == i);
        assert(s2.contains(d));
        let k = choose|k: int| 0 <= k < s2.len() && s2[k] == d;
        assert(k < s.len());
        assert(s[k] == d);
    }
}

// only the entry dominates the entry; every dominator is a node of the graph (needs a path: reachability)
pub proof fn lemma_dom_entry(g: G, d: usize)
    requires wf(g), dom(g, d, 0)
    ensures d == 0
{
    let s = seq![0usize];
    assert(is_path(g, s));
    assert(s.last() == 0);
    assert(s.contains(d));
    let k = choose|k: int| 0 <= k < s.len() && s[k] == d;
    assert(s[k] == 0);
}
pub proof fn lemma_dom_in_range(g: G, d: usize, i: usize)
    requires wf(g), i < g.len(), dom(g, d, i)
    ensures d < g.len()
{
    assert(reachable(g, i));
    let s = choose|s: Seq<usize>| is_path(g, s) && #[trigger] s.last() == i;
    assert(s.contains(d));
    let k = choose|k: int| 0 <= k < s.len() && s[k] == d;
    assert(s[k] < g.len());
}
pub proof fn lemma_dom_refl(g: G, i: usize)
    ensures dom(g, i, i)
{
    assert forall|s: Seq<usize>| is_path(g, s) && s.last() == i implies #[trigger] s.contains(i) by {
        assert(s[s.len() - 1] == i);
    }
}

// the invariant of the fixpoint iteration: D over-approximates Dom, stays inside the node range, D[0] = {0}
pub open spec fn sup_inv(g: G, dd: Seq<Set<usize>>) -> bool {
    dd.len() == g.len() && dd[0] =~= set![0usize]
    && (forall|i: usize, d: usize| i < g.len() && #[trigger] dd[i as int].contains(d) ==> d < g.len())
    && (forall|i: usize, d: usize| i < g.len() && #[trigger] dom(g, d, i) ==> dd[i as int].contains(d))
}
pub open spec fn view_sets(v: Seq<HashSet<usize>>) -> Seq<Set<usize>> { Seq::new(v.len(), |i: int| v[i]@) }

// final step: a fixed point that over-approximates Dom IS Dom
pub proof fn lemma_fix_is_dom(g: G, dd: Seq<Set<usize>>)
    requires wf(g), sup_inv(g, dd), is_fix(g, dd)
    ensures forall|i: usize, d: usize| i < g.len() ==> (#[trigger] dd[i as int].contains(d) <==> d < g.len() && dom(g, d, i))
{
    assert forall|i: usize, d: usize| i < g.len() implies (#[trigger] dd[i as int].contains(d) <==> d < g.len() && dom(g, d, i)) by {
        if dd[i as int].contains(d) {
            assert forall|s: Seq<usize>| is_path(g, s) && s.last() == i implies #[trigger] s.contains(d) by {
                lemma_fix_sound(g, dd, s, d);
            }
        }
    }
}

// Dom satisfies the step inequality: what the algorithm computes for node i keeps every dominator of i
pub proof fn lemma_step_sup(g: G, dd: Seq<Set<usize>>, i: usize)
    requires wf(g), sup_inv(g, dd), 1 <= i < g.len()
    ensures forall|d: usize| #[trigger] dom(g, d, i) ==> in_step(g, dd, i, d)
{
    assert forall|d: usize| #[trigger] dom(g, d, i) implies in_step(g, dd, i, d) by {
        if d != i {
            lemma_dom_in_range(g, d, i);
            assert forall|q: usize| g[i as int].contains(q) implies #[trigger] dd[q as int].contains(d) by {
                lemma_dom_step(g, d, i, q);
                assert(q < g.len());
                assert(dom(g, d, q));
            }
        }
    }
}

// replacing D[i] by the step value keeps the invariant
pub proof fn lemma_update_sup(g: G, dd: Seq<Set<usize>>, i: usize, s: Set<usize>)
    requires wf(g), sup_inv(g, dd), 1 <= i < g.len(), forall|d: usize| s.contains(d) <==> in_step(g, dd, i, d)
    ensures sup_inv(g, dd.update(i as int, s))
{
    lemma_step_sup(g, dd, i);
    let d2 = dd.update(i as int, s);
    assert(d2[0] == dd[0]);
    assert forall|k: usize, d: usize| k < g.len() && #[trigger] d2[k as int].contains(d) implies d < g.len() by {
        if k == i { assert(in_step(g, dd, i, d)); } else { assert(d2[k as int] == dd[k as int]); }
    }
    assert forall|k: usize, d: usize| k < g.len() && #[trigger] dom(g, d, k) implies d2[k as int].contains(d) by {
        if k == i { assert(in_step(g, dd, i, d)); } else { assert(d2[k as int] == dd[k as int]); }
    }
}

// ---------------------------------------------------------------------------------------------
// order-theoretic facts about dominance (used for immediate dominators and frontiers)

pub open spec fn prefix_to(s: Seq<usize>, k: int) -> Seq<usize> { s.subrange(0, k + 1) }

pub proof fn lemma_prefix_path(g: G, s: Seq<usize>, k: int)
    requires is_path(g, s), 0 <= k < s.len()
    ensures is_path(g, prefix_to(s, k)), prefix_to(s, k).last() == s[k], prefix_to(s, k).len() == k + 1
{
    let t = prefix_to(s, k);
    assert forall|m: int| 0 <= m < t.len() implies (#[trigger] t[m]) < g.len() by { assert(t[m] == s[m]); }
    assert forall|m: int| 0 <= m < t.len() - 1 implies g[#[trigger] t[m + 1] as int].contains(t[m]) by {
        assert(t[m + 1] == s[m + 1]);
        assert(t[m] == s[m]);
    }
    assert(t[0] == s[0]);
}

pub proof fn lemma_dom_trans(g: G, a: usize, b: usize, c: usize)
    requires dom(g, a, b), dom(g, b, c)
    ensures dom(g, a, c)
{
    assert forall|s: Seq<usize>| is_path(g, s) && s.last() == c implies #[trigger] s.contains(a) by {
        assert(s.contains(b));
        let k = choose|k: int| 0 <= k < s.len() && s[k] == b;
        lemma_prefix_path(g, s, k);
        let t = prefix_to(s, k);
        assert(t.contains(a));
        let m = choose|m: int| 0 <= m < t.len() && t[m] == a;
        assert(s[m] == a);
    }
}

// from a path to a that is longer than needed we get a strictly shorter one, if a and b dominate each other
proof fn lemma_antisym_descent(g: G, a: usize, b: usize, s: Seq<usize>)
    requires dom(g, a, b), dom(g, b, a), a != b, is_path(g, s), s.last() == a
    ensures false
    decreases s.len()
{
    assert(s.contains(b));
    let k = choose|k: int| 0 <= k < s.len() && s[k] == b;
    assert(k < s.len() - 1) by { if k == s.len() - 1 { assert(s[k] == a); } }
    lemma_prefix_path(g, s, k);
    let t = prefix_to(s, k);
    assert(t.contains(a));
    let m = choose|m: int| 0 <= m < t.len() && t[m] == a;
    assert(s[m] == a);
    lemma_prefix_path(g, s, m);
    let u = prefix_to(s, m);
    assert(u.len() < s.len());
    lemma_antisym_descent(g, a, b, u);
}

pub proof fn lemma_dom_antisym(g: G, a: usize, b: usize)
    requires wf(g), a < g.len(), dom(g, a, b), dom(g, b, a)
    ensures a == b
{
    if a != b {
        assert(reachable(g, a));
        let s = choose|s: Seq<usize>| is_path(g, s) && #[trigger] s.last() == a;
        lemma_antisym_descent(g, a, b, s);
    }
}

pub proof fn lemma_entry_dominates(g: G, i: usize)
    ensures dom(g, 0, i)
{
    assert forall|s: Seq<usize>| is_path(g, s) && s.last() == i implies #[trigger] s.contains(0usize) by {
        assert(s[0] == 0);
    }
}

// ---- chain lemma: two strict dominators of the same node are comparable
pub open spec fn last_ab(s: Seq<usize>, a: usize, b: usize, hi: int) -> int
    decreases hi + 1
{
    if hi < 0 { -1 } else if s[hi] == a || s[hi] == b { hi } else { last_ab(s, a, b, hi - 1) }
}
proof fn lemma_last_ab(s: Seq<usize>, a: usize, b: usize, hi: int)
    requires -1 <= hi < s.len()
    ensures
        -1 <= last_ab(s, a, b, hi) <= hi,
        last_ab(s, a, b, hi) >= 0 ==> (s[last_ab(s, a, b, hi)] == a || s[last_ab(s, a, b, hi)] == b),
        forall|k: int| last_ab(s, a, b, hi) < k <= hi ==> s[k] != a && s[k] != b,
    decreases hi + 1
{
    if hi >= 0 && !(s[hi] == a || s[hi] == b) { lemma_last_ab(s, a, b, hi - 1); }
}

// r is a path to s[m]; r ++ s[m+1..] is a path to s.last()
proof fn lemma_splice(g: G, r: Seq<usize>, s: Seq<usize>, m: int) -> (t: Seq<usize>)
    requires is_path(g, r), is_path(g, s), 0 <= m < s.len(), r.last() == s[m]
    ensures is_path(g, t), t.last() == s.last(), t == r + s.subrange(m + 1, s.len() as int)
{
    let suf = s.subrange(m + 1, s.len() as int);
    let t = r + suf;
    assert forall|k: int| 0 <= k < t.len() implies (#[trigger] t[k]) < g.len() by {
        if k < r.len() { assert(t[k] == r[k]); } else { assert(t[k] == s[m + 1 + (k - r.len())]); }
    }
    assert forall|k: int| 0 <= k < t.len() - 1 implies g[#[trigger] t[k + 1] as int].contains(t[k]) by {
        if k + 1 < r.len() { assert(t[k + 1] == r[k + 1]); assert(t[k] == r[k]); }
        else if k + 1 == r.len() { assert(t[k] == r[k]); assert(t[k + 1] == s[m + 1]); assert(r[k] == s[m]); assert(g[s[m + 1] as int].contains(s[m])); }
        else { let j = m + 1 + (k - r.len()); assert(t[k] == s[j]); assert(t[k + 1] == s[j + 1]); assert(g[s[j + 1] as int].contains(s[j])); }
    }
    assert(t[0] == r[0]);
    if suf.len() == 0 { assert(m == s.len() - 1); assert(t.last() == r.last()); } else { assert(t.last() == s.last()); }
    t
}

pub proof fn lemma_chain(g: G, a: usize, b: usize, i: usize)
    requires wf(g), i < g.len(), sdom(g, a, i), sdom(g, b, i)
    ensures dom(g, a, b) || dom(g, b, a)
{
    if !dom(g, a, b) && !dom(g, b, a) {
        assert(reachable(g, i));
        let p = choose|p: Seq<usize>| is_path(g, p) && #[trigger] p.last() == i;
        let q = choose|q: Seq<usize>| is_path(g, q) && q.last() == b && !q.contains(a);
        let r = choose|r: Seq<usize>| is_path(g, r) && r.last() == a && !r.contains(b);
        let hi = p.len() - 1;
        lemma_last_ab(p, a, b, hi);
        let m = last_ab(p, a, b, hi);
        assert(p.contains(a));
        let ka = choose|k: int| 0 <= k < p.len() && p[k] == a;
        assert(m >= 0) by { if m < 0 { assert(p[ka] != a); } }
        assert(m < hi) by { assert(p[hi] == i); }
        if p[m] == a {
            let t = lemma_splice(g, r, p, m);
            assert(t.contains(b));
            let k = choose|k: int| 0 <= k < t.len() && t[k] == b;
            if k < r.len() { assert(t[k] == r[k]); assert(r.contains(b)); }
            else { assert(t[k] == p[m + 1 + (k - r.len())]); }
            assert(false);
        } else {
            let t = lemma_splice(g, q, p, m);
            assert(t.contains(a));
            let k = choose|k: int| 0 <= k < t.len() && t[k] == a;
            if k < q.len() { assert(t[k] == q[k]); assert(q.contains(a)); }
            else { assert(t[k] == p[m + 1 + (k - q.len())]); }
            assert(false);
        }
    }
}

// ---- a finite non-empty set of strict dominators of i has a closest element (dominated by all the others)
pub proof fn lemma_closest(g: G, i: usize, c: Set<usize>) -> (m: usize)
    requires wf(g), i < g.len(), c.finite(), c.len() > 0, forall|x: usize| c.contains(x) ==> x < g.len() && sdom(g, x, i)
    ensures c.contains(m), forall|k: usize| c.contains(k) ==> #[trigger] dom(g, k, m)
    decreases c.len()
{
    let x = c.choose();
    let rest = c.remove(x);
    if rest.len() == 0 {
        assert forall|k: usize| c.contains(k) implies #[trigger] dom(g, k, x) by {
            if k != x { assert(rest.contains(k)); }
            lemma_dom_refl(g, x);
        }
        x
    } else {
        let m0 = lemma_closest(g, i, rest);
        lemma_chain(g, m0, x, i);
        if dom(g, m0, x) {
            assert forall|k: usize| c.contains(k) implies #[trigger] dom(g, k, x) by {
                if k == x { lemma_dom_refl(g, x); } else { assert(rest.contains(k)); lemma_dom_trans(g, k, m0, x); }
            }
            x
        } else {
            assert forall|k: usize| c.contains(k) implies #[trigger] dom(g, k, m0) by {
                if k == x { } else { assert(rest.contains(k)); }
            }
            m0
        }
    }
}

// the strict dominators of a node other than the entry include the entry
pub proof fn lemma_has_strict_dominator(g: G, i: usize)
    requires i != 0
    ensures sdom(g, 0, i)
{
    lemma_entry_dominates(g, i);
}

// ---------------------------------------------------------------------------------------------
// immediate dominators

pub open spec fn is_sd_set(g: G, i: usize, c: Set<usize>) -> bool { forall|d: usize| c.contains(d) <==> d < g.len() && sdom(g, d, i) }
pub open spec fn dom_facts(g: G, doms: Seq<HashSet<usize>>) -> bool {
    doms.len() == g.len()
    && forall|i: usize, d: usize| i < g.len() ==> (#[trigger] doms[i as int]@.contains(d) <==> d < g.len() && dom(g, d, i))
}
pub open spec fn idom_ok(g: G, idoms: Seq<Option<usize>>, upto: int) -> bool {
    forall|x: usize| 0 <= x < upto ==> ((#[trigger] idoms[x as int]) is None <==> x == 0) && (idoms[x as int] is Some ==> is_idom(g, idoms[x as int].unwrap(), x))
}
pub open spec fn succ_ok(g: G, idoms: Seq<Option<usize>>, succ: Seq<HashSet<usize>>, upto: int) -> bool {
    forall|j: usize, x: usize| j < g.len() ==> (#[trigger] succ[j as int]@.contains(x) <==> x < upto && idoms[x as int] == Some(j))
}
// `all_dominators` while the candidates `seen` have been handled
pub open spec fn a_sound(g: G, a: Set<usize>, seen: Set<usize>) -> bool {
    forall|x: usize| a.contains(x) ==> x < g.len() && exists|c: usize| seen.contains(c) && #[trigger] sdom(g, x, c)
}
pub open spec fn a_complete(g: G, a: Set<usize>, seen: Set<usize>) -> bool {
    forall|c: usize, x: usize| seen.contains(c) && x < g.len() && #[trigger] sdom(g, x, c) ==> a.contains(x)
}

// a candidate that is already in the set has all its strict dominators in the set (the `continue` shortcut)
pub proof fn lemma_skip_closed(g: G, a: Set<usize>, seen: Set<usize>, j: usize)
    requires wf(g), a_sound(g, a, seen), a_complete(g, a, seen), a.contains(j), j < g.len(),
        forall|c: usize| seen.contains(c) ==> c < g.len()
    ensures a_sound(g, a, seen.insert(j)), a_complete(g, a, seen.insert(j))
{
    let c0 = choose|c: usize| seen.contains(c) && #[trigger] sdom(g, j, c);
    assert forall|c: usize, x: usize| seen.insert(j).contains(c) && x < g.len() && #[trigger] sdom(g, x, c) implies a.contains(x) by {
        if c == j && !seen.contains(j) {
            lemma_dom_trans(g, x, j, c0);
            if x == c0 { lemma_dom_antisym(g, c0, j); }
            assert(sdom(g, x, c0));
        }
    }
    assert forall|x: usize| a.contains(x) implies x < g.len() && exists|c: usize| seen.insert(j).contains(c) && #[trigger] sdom(g, x, c) by {
        let c = choose|c: usize| seen.contains(c) && #[trigger] sdom(g, x, c);
        assert(seen.insert(j).contains(c));
    }
}

pub proof fn lemma_add_candidate(g: G, a: Set<usize>, seen: Set<usize>, j: usize, dom_j: Set<usize>)
    requires wf(g), a_sound(g, a, seen), a_complete(g, a, seen), j < g.len(),
        forall|d: usize| dom_j.contains(d) <==> d < g.len() && dom(g, d, j)
    ensures a_sound(g, dom_j.remove(j).union(a), seen.insert(j)), a_complete(g, dom_j.remove(j).union(a), seen.insert(j))
{
    let a2 = dom_j.remove(j).union(a);
    let s2 = seen.insert(j);
    assert forall|x: usize| a2.contains(x) implies x < g.len() && exists|c: usize| s2.contains(c) && #[trigger] sdom(g, x, c) by {
        if a.contains(x) {
            let c = choose|c: usize| seen.contains(c) && #[trigger] sdom(g, x, c);
            assert(s2.contains(c));
        } else {
            assert(s2.contains(j) && sdom(g, x, j));
        }
    }
    assert forall|c: usize, x: usize| s2.contains(c) && x < g.len() && #[trigger] sdom(g, x, c) implies a2.contains(x) by {
        if c == j { assert(dom_j.contains(x)); }
    }
}

// candidates minus their strict dominators is exactly the closest strict dominator, which is the immediate dominator
pub proof fn lemma_closest_unique(g: G, i: usize, c0: Set<usize>, a: Set<usize>) -> (m: usize)
    requires wf(g), i < g.len(), is_sd_set(g, i, c0), c0.finite(), c0.len() > 0, a_sound(g, a, c0), a_complete(g, a, c0)
    ensures c0.difference(a) =~= set![m], is_idom(g, m, i)
{
    let m = lemma_closest(g, i, c0);
    assert(!a.contains(m)) by {
        if a.contains(m) {
            let c = choose|c: usize| c0.contains(c) && #[trigger] sdom(g, m, c);
            assert(dom(g, c, m));
            lemma_dom_antisym(g, c, m);
        }
    }
    assert forall|x: usize| c0.difference(a).contains(x) implies x == m by {
        assert(dom(g, x, m));
        if x != m { assert(sdom(g, x, m)); assert(a.contains(x)); }
    }
    assert(is_idom(g, m, i)) by {
        assert forall|k: usize| k < g.len() && sdom(g, k, i) implies #[trigger] dom(g, k, m) by { assert(c0.contains(k)); }
    }
    m
}

// at most one strict dominator: it is the entry (or there is none and the node is the entry)
pub proof fn lemma_small_candidates(g: G, i: usize, c0: Set<usize>)
    requires wf(g), i < g.len(), is_sd_set(g, i, c0), c0.finite(), c0.len() <= 1
    ensures
        i == 0 ==> c0 =~= Set::<usize>::empty(),
        i != 0 ==> c0 =~= set![0usize] && is_idom(g, 0, i),
{
    if i == 0 {
        assert forall|d: usize| !c0.contains(d) by { if c0.contains(d) { lemma_dom_entry(g, d); } }
    } else {
        lemma_has_strict_dominator(g, i);
        assert(c0.contains(0usize));
        assert forall|d: usize| c0.contains(d) implies d == 0 by {
            if d != 0 {
                let two = set![0usize, d];
                assert(two.subset_of(c0));
                vstd::set_lib::lemma_len_subset(two, c0);
                assert(two.len() == 2) by { assert(set![0usize].insert(d) =~= two); assert(!set![0usize].contains(d)); }
            }
        }
        assert(is_idom(g, 0, i)) by {
            assert forall|k: usize| k < g.len() && sdom(g, k, i) implies #[trigger] dom(g, k, 0) by { assert(c0.contains(k)); lemma_dom_refl(g, 0); }
        }
    }
}

// the entry has no strict dominators; every other node has one, so more than one candidate only happens for i != 0
pub proof fn lemma_entry_no_candidates(g: G, c: Set<usize>)
    requires wf(g), is_sd_set(g, 0, c)
    ensures c =~= Set::<usize>::empty()
{
    assert forall|d: usize| !c.contains(d) by { if c.contains(d) { lemma_dom_entry(g, d); } }
}

// ---------------------------------------------------------------------------------------------
// dominance frontiers

pub open spec fn idoms_ok(g: G, idoms: Seq<Option<usize>>) -> bool { idoms.len() == g.len() && idom_ok(g, idoms, g.len() as int) }

// x is in the frontier of a because of one of the predecessors in `seenp`
pub open spec fn visited_i(g: G, i: usize, seenp: Set<usize>, a: usize) -> bool {
    exists|q: usize| seenp.contains(q) && #[trigger] dom(g, a, q) && !sdom(g, a, i)
}
pub open spec fn df_done(g: G, df: Seq<HashSet<usize>>, upto: int) -> bool {
    df.len() == g.len()
    && forall|a: usize, x: usize| a < g.len() ==> (#[trigger] df[a as int]@.contains(x) <==> x < upto && x < g.len() && in_df(g, a, x))
}
pub open spec fn df_mid(g: G, df: Seq<HashSet<usize>>, i: usize, seenp: Set<usize>, j: usize, k: usize, walking: bool) -> bool {
    df.len() == g.len()
    && forall|a: usize, x: usize| a < g.len() ==> (#[trigger] df[a as int]@.contains(x) <==>
        (x < i && in_df(g, a, x)) || (x == i && (visited_i(g, i, seenp, a) || (walking && dom(g, a, j) && !dom(g, a, k)))))
}

// a node whose only predecessor is q has an empty frontier membership: nothing has it in its frontier
proof fn lemma_single_pred_descent(g: G, i: usize, q: usize, s: Seq<usize>)
    requires wf(g), i < g.len(), forall|x: usize| g[i as int].contains(x) <==> x == q, dom(g, i, q), is_path(g, s), s.last() == i
    ensures false
    decreases s.len()
{
    if s.len() == 1 {
        assert(s[0] == 0 && i == 0);
        assert(g[0].contains(q));
    } else {
        let e = s.len() - 2;
        assert(g[s[e + 1] as int].contains(s[e]));
        assert(s[e] == q);
        lemma_prefix_path(g, s, e);
        let t = prefix_to(s, e);
        assert(t.contains(i));
        let m = choose|m: int| 0 <= m < t.len() && t[m] == i;
        assert(s[m] == i);
        lemma_prefix_path(g, s, m);
        lemma_single_pred_descent(g, i, q, prefix_to(s, m));
    }
}

pub proof fn lemma_single_pred_no_df(g: G, i: usize, q: usize)
    requires wf(g), i < g.len(), forall|x: usize| g[i as int].contains(x) <==> x == q
    ensures forall|a: usize| !in_df(g, a, i)
{
    assert forall|a: usize| !in_df(g, a, i) by {
        if in_df(g, a, i) {
            let q2 = choose|q2: usize| #[trigger] g[i as int].contains(q2) && dom(g, a, q2);
            assert(q2 == q);
            // a dominates i, because every path to i ends with the edge q -> i
            assert forall|s: Seq<usize>| is_path(g, s) && s.last() == i implies #[trigger] s.contains(a) by {
                if s.len() == 1 {
                    assert(s[0] == 0 && i == 0);
                    assert(g[0].contains(q));
                } else {
                    let e = s.len() - 2;
                    assert(g[s[e + 1] as int].contains(s[e]));
                    lemma_prefix_path(g, s, e);
                    let t = prefix_to(s, e);
                    assert(t.contains(a));
                    let m = choose|m: int| 0 <= m < t.len() && t[m] == a;
                    assert(s[m] == a);
                }
            }
            assert(a == i);
            assert(reachable(g, i));
            let s = choose|s: Seq<usize>| is_path(g, s) && #[trigger] s.last() == i;
            lemma_single_pred_descent(g, i, q, s);
        }
    }
}

pub proof fn lemma_no_pred_no_df(g: G, i: usize)
    requires forall|x: usize| !g[i as int].contains(x)
    ensures forall|a: usize| !in_df(g, a, i)
{
}

// start of the walk from predecessor j of i: the immediate dominator d of i dominates j
pub proof fn lemma_walk_start(g: G, i: usize, d: usize, j: usize)
    requires wf(g), i < g.len(), is_idom(g, d, i), g[i as int].contains(j)
    ensures dom(g, j, j), dom(g, d, j), j < g.len()
{
    lemma_dom_refl(g, j);
    lemma_dom_step(g, d, i, j);
}

// one step k -> k2 = idom(k) of the walk (k != d)
pub proof fn lemma_walk_step(g: G, i: usize, d: usize, j: usize, k: usize, k2: usize)
    requires wf(g), i < g.len(), is_idom(g, d, i), k < g.len(), j < g.len(), dom(g, k, j), dom(g, d, k), k != d, is_idom(g, k2, k)
    ensures
        k2 < g.len(), dom(g, k2, j), dom(g, d, k2),
        dom(g, k, j) && !dom(g, k, k2) && !sdom(g, k, i),
        forall|a: usize| a < g.len() ==> ((dom(g, a, j) && !dom(g, a, k2)) <==> ((dom(g, a, j) && !dom(g, a, k)) || a == k)),
{
    lemma_dom_trans(g, k2, k, j);
    assert(sdom(g, d, k));
    assert(dom(g, d, k2));
    if dom(g, k, k2) { lemma_dom_antisym(g, k, k2); }
    if sdom(g, k, i) { assert(dom(g, k, d)); lemma_dom_antisym(g, k, d); }
    assert forall|a: usize| a < g.len() implies ((dom(g, a, j) && !dom(g, a, k2)) <==> ((dom(g, a, j) && !dom(g, a, k)) || a == k)) by {
        if dom(g, a, k2) { lemma_dom_trans(g, a, k2, k); }
        if dom(g, a, k) && a != k { assert(sdom(g, a, k)); assert(dom(g, a, k2)); }
    }
}

// end of the walk (k == d): what was inserted is exactly "dominates j but does not strictly dominate i"
pub proof fn lemma_walk_end(g: G, i: usize, d: usize, j: usize)
    requires wf(g), i < g.len(), is_idom(g, d, i)
    ensures forall|a: usize| a < g.len() ==> ((dom(g, a, j) && !dom(g, a, d)) <==> (dom(g, a, j) && !sdom(g, a, i)))
{
    assert forall|a: usize| a < g.len() implies ((dom(g, a, j) && !dom(g, a, d)) <==> (dom(g, a, j) && !sdom(g, a, i))) by {
        if dom(g, a, d) {
            lemma_dom_trans(g, a, d, i);
            if a == i { lemma_dom_antisym(g, d, i); }
        }
        if sdom(g, a, i) { assert(dom(g, a, d)); }
    }
}

// the entry never stops the walk early: if d dominates the entry then d is the entry
pub proof fn lemma_walk_no_break(g: G, d: usize, k: usize)
    requires wf(g), dom(g, d, k), k == 0
    ensures d == 0
{
    lemma_dom_entry(g, d);
}


// ---------------------------------------------------------------------------------------------
// the assembled tree
pub closed spec fn dt_dominators<T: DirectedGraphNode>(t: DominatorTree<T>) -> Seq<HashSet<usize>> { t.dominators@ }
pub closed spec fn dt_idoms<T: DirectedGraphNode>(t: DominatorTree<T>) -> Seq<Option<usize>> { t.immediate_dominators@ }
pub closed spec fn dt_children<T: DirectedGraphNode>(t: DominatorTree<T>) -> Seq<HashSet<usize>> { t.dominator_successors@ }
pub closed spec fn dt_frontier<T: DirectedGraphNode>(t: DominatorTree<T>) -> Seq<HashSet<usize>> { t.dominance_frontier@ }
pub open spec fn dt_ok<T: DirectedGraphNode>(g: G, t: DominatorTree<T>) -> bool {
    dom_facts(g, dt_dominators(t))
    && idoms_ok(g, dt_idoms(t))
    && dt_children(t).len() == g.len() && succ_ok(g, dt_idoms(t), dt_children(t), g.len() as int)
    && df_done(g, dt_frontier(t), g.len() as int)
}
