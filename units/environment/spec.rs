// ---- specification of unit `environment`: the variable part of RawEnvironment is a stack of maps
pub closed spec fn vb_map<VC>(b: VariableBlock<VC>) -> Map<Seq<char>, VC> { hm(b.variables) }
pub closed spec fn blocks<T, CC, SC, VC>(e: RawEnvironment<T, CC, SC, VC>) -> Seq<Map<Seq<char>, VC>> {
    Seq::new(e.variables@.len(), |i: int| vb_map(e.variables@[i]))
}
pub open spec fn lookup<V>(sc: Seq<Map<Seq<char>, V>>, n: Seq<char>) -> Option<V>
    decreases sc.len()
{
    if sc.len() == 0 { None } else if sc.last().dom().contains(n) { Some(sc.last()[n]) } else { lookup(sc.drop_last(), n) }
}
pub open spec fn bind<V>(sc: Seq<Map<Seq<char>, V>>, n: Seq<char>, v: V) -> Seq<Map<Seq<char>, V>>
    recommends sc.len() > 0
{
    sc.update(sc.len() - 1, sc.last().insert(n, v))
}
// the innermost block (highest index) that binds n, if any
pub open spec fn innermost<V>(sc: Seq<Map<Seq<char>, V>>, n: Seq<char>, k: int) -> bool {
    0 <= k < sc.len() && sc[k].dom().contains(n) && forall|j: int| k < j < sc.len() ==> !(#[trigger] sc[j]).dom().contains(n)
}
pub proof fn lemma_lookup_innermost<V>(sc: Seq<Map<Seq<char>, V>>, n: Seq<char>, k: int)
    requires innermost(sc, n, k)
    ensures lookup(sc, n) == Some(sc[k][n])
    decreases sc.len()
{
    if k < sc.len() - 1 {
        assert(!sc[sc.len() - 1].dom().contains(n));
        let d = sc.drop_last();
        assert(innermost(d, n, k)) by { assert forall|j: int| k < j < d.len() implies !(#[trigger] d[j]).dom().contains(n) by { assert(d[j] == sc[j]); } }
        lemma_lookup_innermost(d, n, k);
    }
}
pub proof fn lemma_lookup_none<V>(sc: Seq<Map<Seq<char>, V>>, n: Seq<char>)
    requires forall|j: int| 0 <= j < sc.len() ==> !(#[trigger] sc[j]).dom().contains(n)
    ensures lookup(sc, n) is None
    decreases sc.len()
{
    if sc.len() > 0 {
        let d = sc.drop_last();
        assert forall|j: int| 0 <= j < d.len() implies !(#[trigger] d[j]).dom().contains(n) by { assert(d[j] == sc[j]); }
        lemma_lookup_none(d, n);
    }
}
