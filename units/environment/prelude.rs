// ---- prelude of unit `environment`
use std::collections::HashMap;
use std::marker::PhantomData;
// std::collections::HashMap<String, V> used through &str keys (Borrow<str>): a map from character sequences (T2)
pub uninterp spec fn hm<V>(m: HashMap<String, V>) -> Map<Seq<char>, V>;
#[verifier::external_body]
fn __h_new_map<V>() -> (r: HashMap<String, V>) ensures hm(r) == Map::<Seq<char>, V>::empty() { unimplemented!() }
#[verifier::external_body]
fn __h_insert<V>(m: &mut HashMap<String, V>, symbol: &str, content: V) -> (r: Option<V>)
    ensures hm(*final(m)) == hm(*old(m)).insert(symbol@, content)
{ unimplemented!() }
#[verifier::external_body]
fn __h_contains_key<V>(m: &HashMap<String, V>, symbol: &str) -> (r: bool)
    ensures r == hm(*m).dom().contains(symbol@)
{ unimplemented!() }
#[verifier::external_body]
fn __h_get<'a, V>(m: &'a HashMap<String, V>, symbol: &str) -> (r: Option<&'a V>)
    ensures r is Some <==> hm(*m).dom().contains(symbol@), r is Some ==> *r.unwrap() == hm(*m)[symbol@]
{ unimplemented!() }
// `vec![VariableBlock::new()]`
fn __h_one_block<VC>() -> (r: Vec<VariableBlock<VC>>)
    ensures r@.len() == 1, vb_map(r@[0]) == Map::<Seq<char>, VC>::empty()
{
    let mut v = Vec::new();
    v.push(VariableBlock::new());
    v
}
// vstd's hook for Default impls: no functional spec attached (the contract is the `ensures` on the impl)
