// ---- prelude of unit `sigassign`: opaque neighbours (T3)
use std::collections::HashSet;
broadcast use vstd::std_specs::hash::group_hash_axioms;
pub type FileID = usize;
pub type FileLocation = std::ops::Range<usize>;
pub type Index = usize;
pub type IndexSet = HashSet<Index>;
pub type ReportCollection = Vec<Report>;
#[verifier::external_body] pub struct BigInt { _o: Vec<u8> }
#[verifier::external_body] pub struct VariableName { _o: Vec<u8> }
#[verifier::external_body] pub struct AccessType { _o: Vec<u8> }
#[verifier::external_body] pub struct DegreeRange { _o: Vec<u8> }
#[verifier::external_body] pub struct DegreeKnowledge { _o: Vec<u8> }
#[verifier::external_body] pub struct TypeKnowledge { _o: Vec<u8> }
#[verifier::external_body] pub struct ValueKnowledge { _o: Vec<u8> }
#[verifier::external_body] pub struct VariableKnowledge { _o: Vec<u8> }
#[verifier::external_body] pub struct VariableType { _o: Vec<u8> }
#[verifier::external_body] pub struct UsefulConstants { _o: Vec<u8> }
#[verifier::external_body] pub struct Declarations { _o: Vec<u8> }
#[verifier::external_body] pub struct Parameters { _o: Vec<u8> }
#[verifier::external_body] #[verifier::reject_recursive_types(T)] pub struct DominatorTree<T> { _o: Vec<T> }
#[verifier::external_body] #[verifier::accept_recursive_types(T)] pub struct NonEmptyVec<T> { _o: Vec<T> }

// derived `Clone` of Meta, VariableName, Expression: the result equals the argument
impl Clone for Meta { #[verifier::external_body] fn clone(&self) -> (r: Meta) ensures r == *self { unimplemented!() } }
impl Clone for VariableName { #[verifier::external_body] fn clone(&self) -> (r: VariableName) ensures r == *self { unimplemented!() } }
impl Clone for Expression { #[verifier::external_body] fn clone(&self) -> (r: Expression) ensures r == *self { unimplemented!() } }

// `DegreeMeta::degree` of an expression (expression_impl.rs: the range recorded in the node's meta) and `is_quadratic`
pub uninterp spec fn expr_degree(e: Expression) -> Option<DegreeRange>;
pub uninterp spec fn dr_quadratic(r: DegreeRange) -> bool;
impl Expression {
    #[verifier::external_body]
    pub fn degree(&self) -> (r: Option<&DegreeRange>)
        ensures r is Some <==> expr_degree(*self) is Some, r is Some ==> *r.unwrap() == expr_degree(*self).unwrap()
    { unimplemented!() }
}
impl DegreeRange {
    #[verifier::external_body]
    pub fn is_quadratic(&self) -> (r: bool) ensures r == dr_quadratic(*self) { unimplemented!() }
}

// ---- R5 helpers (bodies are the original expressions): slice/vector/option copies return equal values
#[verifier::external_body]
fn __h_to_owned(access: &[AccessType]) -> (r: Vec<AccessType>) ensures r@ == access@ { unimplemented!() }
#[verifier::external_body]
fn __h_metas_to_owned(metas: &[Meta]) -> (r: Vec<Meta>) ensures r@ == metas@ { unimplemented!() }
#[verifier::external_body]
fn __h_clone_access(access: &Vec<AccessType>) -> (r: Vec<AccessType>) ensures r@ == access@ { unimplemented!() }
#[verifier::external_body]
fn __h_cloned(degree: Option<&DegreeRange>) -> (r: Option<DegreeRange>)
    ensures r is Some <==> degree is Some, r is Some ==> r.unwrap() == *degree.unwrap()
{ unimplemented!() }
// the three message texts (format! of the signal name and its access): not part of any claim
#[verifier::external_body]
fn __h_msg_assigned(signal: &VariableName, access: &Vec<AccessType>) -> String { unimplemented!() }
#[verifier::external_body]
fn __h_msg_constrained(signal: &VariableName, access: &Vec<AccessType>) -> Option<String> { unimplemented!() }
#[verifier::external_body]
fn __h_msg_quadratic(signal: &VariableName, access: &Vec<AccessType>) -> String { unimplemented!() }

// a vector is determined by its elements (Verus has no extensionality for Vec values)
#[verifier::external_body]
pub proof fn axiom_vec_ext<T>(a: Vec<T>, b: Vec<T>)
    requires a@ == b@
    ensures a == b
{}

// ---- derived Hash / Eq of the two record types of the pass (T2): equality of records is equality of their fields
impl PartialEq for Assignment { #[verifier::external_body] fn eq(&self, other: &Assignment) -> bool { unimplemented!() } }
impl Eq for Assignment {}
impl std::hash::Hash for Assignment { #[verifier::external_body] fn hash<H: std::hash::Hasher>(&self, state: &mut H) { unimplemented!() } }
impl PartialEq for Constraint { #[verifier::external_body] fn eq(&self, other: &Constraint) -> bool { unimplemented!() } }
impl Eq for Constraint {}
impl std::hash::Hash for Constraint { #[verifier::external_body] fn hash<H: std::hash::Hasher>(&self, state: &mut H) { unimplemented!() } }
#[verifier::external_body]
pub proof fn axiom_record_key_model()
    ensures vstd::std_specs::hash::obeys_key_model::<Assignment>(), vstd::std_specs::hash::obeys_key_model::<Constraint>()
{}

// ---- program_structure::report::Report: the observable content of a report (code, labels, notes)
#[verifier::external_body] pub struct Report { _o: Vec<u8> }
#[verifier::external_body] pub struct ReportLabel { _o: Vec<u8> }
pub struct Label { pub location: FileLocation, pub file_id: FileID }
pub uninterp spec fn rep_code(r: Report) -> ReportCode;
pub uninterp spec fn rep_warning(r: Report) -> bool;
pub uninterp spec fn rep_primary(r: Report) -> Seq<Label>;
pub uninterp spec fn rep_secondary(r: Report) -> Seq<Label>;
pub uninterp spec fn rep_notes(r: Report) -> nat;
impl Report {
    #[verifier::external_body]
    pub fn warning(message: String, code: ReportCode) -> (r: Report)
        ensures rep_code(r) == code, rep_warning(r), rep_primary(r).len() == 0, rep_secondary(r).len() == 0, rep_notes(r) == 0
    { unimplemented!() }
    // (the real methods return `&mut Self` for chaining; no caller in this file uses the result)
    #[verifier::external_body]
    pub fn add_primary(&mut self, location: FileLocation, file_id: FileID, message: String)
        ensures rep_primary(*final(self)) == rep_primary(*old(self)).push(Label { location, file_id }),
            rep_code(*final(self)) == rep_code(*old(self)), rep_warning(*final(self)) == rep_warning(*old(self)),
            rep_secondary(*final(self)) == rep_secondary(*old(self)), rep_notes(*final(self)) == rep_notes(*old(self)),
    { unimplemented!() }
    #[verifier::external_body]
    pub fn add_secondary(&mut self, location: FileLocation, file_id: FileID, message: Option<String>)
        ensures rep_secondary(*final(self)) == rep_secondary(*old(self)).push(Label { location, file_id }),
            rep_code(*final(self)) == rep_code(*old(self)), rep_warning(*final(self)) == rep_warning(*old(self)),
            rep_primary(*final(self)) == rep_primary(*old(self)), rep_notes(*final(self)) == rep_notes(*old(self)),
    { unimplemented!() }
    #[verifier::external_body]
    pub fn add_note(&mut self, note: String)
        ensures rep_notes(*final(self)) == rep_notes(*old(self)) + 1,
            rep_code(*final(self)) == rep_code(*old(self)), rep_warning(*final(self)) == rep_warning(*old(self)),
            rep_primary(*final(self)) == rep_primary(*old(self)), rep_secondary(*final(self)) == rep_secondary(*old(self)),
    { unimplemented!() }
    #[verifier::external_body]
    pub fn secondary(&self) -> (r: &Vec<ReportLabel>)
        ensures r@.len() == rep_secondary(*self).len()
    { unimplemented!() }
}

// ---- SignalUse::get_constraint_metas / get_constraints: iterator adapters over the constraint set and the cached
// `signals_read` of both sides (VariableMeta). Contract: the metas of exactly the recorded constraints that mention
// `signal` with this `access`, each once. `mentions` is what "a constraint mentions the signal" means to the pass.
pub uninterp spec fn mentions(c: Constraint, signal: VariableName, access: Seq<AccessType>) -> bool;
impl SignalUse {
    #[verifier::external_body]
    fn get_constraint_metas(&self, signal: &VariableName, access: &Vec<AccessType>) -> (r: Vec<Meta>)
        ensures metas_of(su_constraints(*self), *signal, access@, r@)
    { unimplemented!() }
}

// derived `Default` of SignalUse: two empty sets
impl Default for SignalUse {
    #[verifier::external_body]
    fn default() -> (r: SignalUse)
        ensures su_assignments(r) == Set::<Assignment>::empty(), su_constraints(r) == Set::<Constraint>::empty()
    { unimplemented!() }
}
