// ---- specification of unit `sigassign` (C08, the pass itself): "each statement that assigns a signal with `<--` yields
// exactly one finding, anchored at that statement: either `signal assignment`, whose secondary locations are all
// constraint statements mentioning the assigned signal, or `unnecessary signal assignment` ... none for functions or
// custom templates" — stated over the statements of the CFG the pass is given.
pub closed spec fn su_assignments(u: SignalUse) -> Set<Assignment> { u.assignments@ }
pub closed spec fn su_constraints(u: SignalUse) -> Set<Constraint> { u.constraints@ }
pub closed spec fn cfg_def(c: Cfg) -> DefinitionType { c.definition_type }
pub closed spec fn cfg_nblocks(c: Cfg) -> int { c.basic_blocks@.len() as int }
pub closed spec fn cfg_block(c: Cfg, b: int) -> Seq<Statement> { c.basic_blocks@[b].stmts@ }

// all statements of the first `nb` blocks, in order
pub closed spec fn flat(c: Cfg, nb: int) -> Seq<Statement>
    decreases nb
{
    if nb <= 0 || nb > cfg_nblocks(c) { Seq::empty() } else { flat(c, nb - 1) + cfg_block(c, nb - 1) }
}
pub closed spec fn all_stmts(c: Cfg) -> Seq<Statement> { flat(c, cfg_nblocks(c)) }

pub closed spec fn access_of(e: Expression) -> Seq<AccessType> {
    match e { Expression::Update { access, .. } => access@, _ => Seq::empty() }
}
// `a` is the record of the signal assignment `s` (location, assigned signal, access, degree of the right-hand side)
pub closed spec fn is_rec(a: Assignment, s: Statement) -> bool {
    match s {
        Statement::Substitution { meta, var, op, rhe } =>
            op is AssignSignal && a.meta == meta && a.signal == var && a.access@ == access_of(rhe) && a.degree == expr_degree(rhe),
        _ => false,
    }
}
// `c` is the record of the constraint statement `s` (`x <== e` constrains like `x === e`)
pub closed spec fn is_con(c: Constraint, s: Statement) -> bool {
    match s {
        Statement::Substitution { meta, var, op, rhe } =>
            op is AssignConstraintSignal && c.meta == meta && c.lhe == (Expression::Variable { meta: meta, name: var }) && c.rhe == rhe,
        Statement::ConstraintEquality { meta, lhe, rhe } => c.meta == meta && c.lhe == lhe && c.rhe == rhe,
        _ => false,
    }
}
pub closed spec fn in_recs(ss: Seq<Statement>, a: Assignment) -> bool { exists|i: int| 0 <= i < ss.len() && is_rec(a, #[trigger] ss[i]) }
pub closed spec fn in_cons(ss: Seq<Statement>, c: Constraint) -> bool { exists|i: int| 0 <= i < ss.len() && is_con(c, #[trigger] ss[i]) }
pub closed spec fn use_is(u: SignalUse, ss: Seq<Statement>) -> bool {
    &&& forall|a: Assignment| #![trigger su_assignments(u).contains(a)] su_assignments(u).contains(a) <==> in_recs(ss, a)
    &&& forall|c: Constraint| #![trigger su_constraints(u).contains(c)] su_constraints(u).contains(c) <==> in_cons(ss, c)
}
proof fn lemma_in_push(ss: Seq<Statement>, x: Statement)
    ensures
        forall|a: Assignment| #![trigger in_recs(ss.push(x), a)] in_recs(ss.push(x), a) <==> in_recs(ss, a) || is_rec(a, x),
        forall|c: Constraint| #![trigger in_cons(ss.push(x), c)] in_cons(ss.push(x), c) <==> in_cons(ss, c) || is_con(c, x),
{
    let t = ss.push(x);
    assert forall|a: Assignment| #![trigger in_recs(t, a)] in_recs(t, a) <==> in_recs(ss, a) || is_rec(a, x) by {
        if in_recs(t, a) { let i = choose|i: int| 0 <= i < t.len() && is_rec(a, #[trigger] t[i]); if i < ss.len() { assert(t[i] == ss[i]); } }
        if in_recs(ss, a) { let i = choose|i: int| 0 <= i < ss.len() && is_rec(a, #[trigger] ss[i]); assert(t[i] == ss[i]); }
        if is_rec(a, x) { assert(t[ss.len() as int] == x); }
    }
    assert forall|c: Constraint| #![trigger in_cons(t, c)] in_cons(t, c) <==> in_cons(ss, c) || is_con(c, x) by {
        if in_cons(t, c) { let i = choose|i: int| 0 <= i < t.len() && is_con(c, #[trigger] t[i]); if i < ss.len() { assert(t[i] == ss[i]); } }
        if in_cons(ss, c) { let i = choose|i: int| 0 <= i < ss.len() && is_con(c, #[trigger] ss[i]); assert(t[i] == ss[i]); }
        if is_con(c, x) { assert(t[ss.len() as int] == x); }
    }
}

// ---- what a report says
pub closed spec fn labels(ms: Seq<Meta>) -> Seq<Label>
    decreases ms.len()
{
    if ms.len() == 0 { Seq::empty() } else {
        let p = labels(ms.drop_last());
        let m = ms.last();
        if m.file_id is Some { p.push(Label { location: m.location, file_id: m.file_id.unwrap() }) } else { p }
    }
}
// `ms` lists the metas of exactly the recorded constraints that mention signal[access], each once
pub closed spec fn metas_of(cons: Set<Constraint>, signal: VariableName, access: Seq<AccessType>, ms: Seq<Meta>) -> bool {
    exists|cs: Seq<Constraint>| #![trigger cs.no_duplicates()] cs.no_duplicates() && cs.len() == ms.len()
        && (forall|c: Constraint| #![trigger cs.contains(c)] cs.contains(c) <==> (cons.contains(c) && mentions(c, signal, access)))
        && (forall|k: int| 0 <= k < cs.len() ==> #[trigger] ms[k] == cs[k].meta)
}
pub closed spec fn quadratic(d: Option<DegreeRange>) -> bool { d is Some && dr_quadratic(d.unwrap()) }
pub closed spec fn anchor(m: Meta) -> Seq<Label> {
    if m.file_id is Some { seq![Label { location: m.location, file_id: m.file_id.unwrap() }] } else { Seq::empty() }
}
// the finding for the record `a`: anchored at the assignment; `unnecessary signal assignment` iff the right-hand side is
// known to be at most quadratic; otherwise `signal assignment` with one secondary label per mentioning constraint
pub closed spec fn report_ok(r: Report, a: Assignment, cons: Set<Constraint>) -> bool {
    &&& rep_warning(r)
    &&& rep_primary(r) == anchor(a.meta)
    &&& quadratic(a.degree) ==> rep_code(r) is UnnecessarySignalAssignment && rep_secondary(r).len() == 0
    &&& !quadratic(a.degree) ==> rep_code(r) is SignalAssignmentStatement
            && exists|ms: Seq<Meta>| #![trigger labels(ms)] metas_of(cons, a.signal, a.access@, ms) && rep_secondary(r) == labels(ms)
}
// the reports `rs` are, in some order, one finding for each distinct record of a `<--` statement in `ss`
pub closed spec fn all_reports_ok(rs: Seq<Report>, order: Seq<Assignment>, ss: Seq<Statement>, cons: Set<Constraint>) -> bool {
    &&& order.no_duplicates()
    &&& order.len() == rs.len()
    &&& forall|a: Assignment| #![trigger order.contains(a)] order.contains(a) <==> in_recs(ss, a)
    &&& forall|k: int| 0 <= k < order.len() ==> report_ok(#[trigger] rs[k], order[k], cons)
    &&& forall|c: Constraint| #![trigger cons.contains(c)] cons.contains(c) <==> in_cons(ss, c)
}

// ---- the property, read off the contract: every `<--` statement of the template has exactly one finding
proof fn theorem_one_finding_per_statement(rs: Seq<Report>, order: Seq<Assignment>, ss: Seq<Statement>, cons: Set<Constraint>, i: int, a: Assignment)
    requires all_reports_ok(rs, order, ss, cons), 0 <= i < ss.len(), is_rec(a, ss[i]),
    ensures
        exists|k: int| 0 <= k < rs.len() && order[k] == a && report_ok(#[trigger] rs[k], a, cons),
        forall|k: int, l: int| 0 <= k < rs.len() && 0 <= l < rs.len() && order[k] == a && order[l] == a ==> k == l,
{
    assert(in_recs(ss, a));
    assert(order.contains(a));
    let k = choose|k: int| 0 <= k < order.len() && order[k] == a;
    assert(report_ok(rs[k], a, cons));
}
// ... and no finding is about anything else
proof fn theorem_every_finding_has_a_statement(rs: Seq<Report>, order: Seq<Assignment>, ss: Seq<Statement>, cons: Set<Constraint>, k: int)
    requires all_reports_ok(rs, order, ss, cons), 0 <= k < rs.len(),
    ensures exists|i: int| 0 <= i < ss.len() && is_rec(order[k], #[trigger] ss[i]) && rep_primary(rs[k]) == anchor(order[k].meta),
{
    assert(order.contains(order[k]));
    assert(in_recs(ss, order[k]));
    assert(report_ok(rs[k], order[k], cons));
}
pub closed spec fn saw_meta(w: SignalAssignmentWarning) -> Meta { w.assignment_meta }
pub closed spec fn saw_metas(w: SignalAssignmentWarning) -> Seq<Meta> { w.constraint_metas@ }
pub closed spec fn usw_meta(w: UnecessarySignalAssignmentWarning) -> Meta { w.assignment_meta }
pub closed spec fn pre_ok(rs: Seq<Report>, order: Seq<Assignment>, n: int, cons: Set<Constraint>) -> bool {
    &&& order.no_duplicates()
    &&& rs.len() == n
    &&& 0 <= n <= order.len()
    &&& forall|k: int| 0 <= k < n ==> report_ok(#[trigger] rs[k], order[k], cons)
}
pub proof fn lemma_finish(rs: Seq<Report>, ss: Seq<Statement>, cons: Set<Constraint>, set: Set<Assignment>)
    requires
        forall|a: Assignment| #![trigger set.contains(a)] set.contains(a) <==> in_recs(ss, a),
        forall|c: Constraint| #![trigger cons.contains(c)] cons.contains(c) <==> in_cons(ss, c),
    ensures
        forall|order: Seq<Assignment>| #![trigger pre_ok(rs, order, order.len() as int, cons)]
            pre_ok(rs, order, order.len() as int, cons) && order.to_set() == set ==> all_reports_ok(rs, order, ss, cons),
{
    assert forall|order: Seq<Assignment>| #![trigger pre_ok(rs, order, order.len() as int, cons)]
        pre_ok(rs, order, order.len() as int, cons) && order.to_set() == set implies all_reports_ok(rs, order, ss, cons) by {
        assert forall|a: Assignment| #![trigger order.contains(a)] order.contains(a) <==> in_recs(ss, a) by {
            assert(order.contains(a) <==> order.to_set().contains(a));
        }
    }
}

// ---- C17 at the level of this pass: the findings are a function of the CFG. Two results that both satisfy the contract
// for the same statements have the same number of reports, and the report for a given `<--` statement has the same
// code and the same anchor in both — whatever order the hash set was iterated in.
pub proof fn theorem_pass_deterministic(rs1: Seq<Report>, order1: Seq<Assignment>, cons1: Set<Constraint>, rs2: Seq<Report>, order2: Seq<Assignment>, cons2: Set<Constraint>, ss: Seq<Statement>)
    requires all_reports_ok(rs1, order1, ss, cons1), all_reports_ok(rs2, order2, ss, cons2),
    ensures
        rs1.len() == rs2.len(),
        cons1 =~= cons2,
        forall|k1: int, k2: int| 0 <= k1 < rs1.len() && 0 <= k2 < rs2.len() && order1[k1] == order2[k2] ==>
            rep_code(#[trigger] rs1[k1]) is UnnecessarySignalAssignment == rep_code(#[trigger] rs2[k2]) is UnnecessarySignalAssignment
            && rep_primary(rs1[k1]) == rep_primary(rs2[k2]) && rep_warning(rs1[k1]) == rep_warning(rs2[k2]),
        forall|k1: int| 0 <= k1 < rs1.len() ==> order2.contains(#[trigger] order1[k1]),
{
    assert(order1.to_set() =~= order2.to_set()) by {
        assert forall|a: Assignment| order1.to_set().contains(a) == order2.to_set().contains(a) by {
            assert(order1.contains(a) <==> in_recs(ss, a));
            assert(order2.contains(a) <==> in_recs(ss, a));
        }
    }
    order1.unique_seq_to_set();
    order2.unique_seq_to_set();
    assert forall|k1: int, k2: int| 0 <= k1 < rs1.len() && 0 <= k2 < rs2.len() && order1[k1] == order2[k2] implies
        rep_code(#[trigger] rs1[k1]) is UnnecessarySignalAssignment == rep_code(#[trigger] rs2[k2]) is UnnecessarySignalAssignment
        && rep_primary(rs1[k1]) == rep_primary(rs2[k2]) && rep_warning(rs1[k1]) == rep_warning(rs2[k2]) by {
        assert(report_ok(rs1[k1], order1[k1], cons1));
        assert(report_ok(rs2[k2], order2[k2], cons2));
    }
    assert forall|k1: int| 0 <= k1 < rs1.len() implies order2.contains(#[trigger] order1[k1]) by {
        assert(order1.contains(order1[k1]));
        assert(in_recs(ss, order1[k1]));
        assert(order2.contains(order1[k1]));
    }
}
