// ---- specification of unit `strip`: the reference lexer of the C05 statement over s: Seq<char>.
//  "Line comments end at the next newline and block comments at the first following `*/`, whatever characters they
//   contain; [comments are replaced] by blanks of the same length; a block comment that is never closed is an error."
pub enum Mode { Code, Line, Block(int) }            // Block(o): inside the block comment whose opener `/*` starts at index o
pub enum SRes { Done(Seq<char>), Unterminated(int) }  // Unterminated(o): the comment opened at index o is never closed

pub open spec fn clen(c: char) -> nat { c.len_utf8() as nat }
pub open spec fn blanks(n: nat) -> Seq<char> decreases n { if n == 0 { Seq::<char>::empty() } else { blanks((n - 1) as nat).push(' ') } }
pub open spec fn cat(p: Seq<char>, r: SRes) -> SRes {
    match r { SRes::Done(t) => SRes::Done(p + t), SRes::Unterminated(o) => SRes::Unterminated(o) }
}

pub open spec fn strip_from(s: Seq<char>, i: int, m: Mode) -> SRes
    decreases s.len() - i
{
    if i < 0 || i >= s.len() {
        match m { Mode::Block(o) => SRes::Unterminated(o), _ => SRes::Done(Seq::<char>::empty()) }
    } else {
        match m {
            Mode::Code =>
                if s[i] == '/' && i + 1 < s.len() && s[i + 1] == '/' { cat(seq![' ', ' '], strip_from(s, i + 2, Mode::Line)) }
                else if s[i] == '/' && i + 1 < s.len() && s[i + 1] == '*' { cat(seq![' ', ' '], strip_from(s, i + 2, Mode::Block(i))) }
                else { cat(seq![s[i]], strip_from(s, i + 1, Mode::Code)) },
            Mode::Line =>
                if s[i] == '\n' { cat(seq!['\n'], strip_from(s, i + 1, Mode::Code)) }
                else { cat(blanks(clen(s[i])), strip_from(s, i + 1, Mode::Line)) },
            Mode::Block(o) =>
                if s[i] == '*' && i + 1 < s.len() && s[i + 1] == '/' { cat(seq![' ', ' '], strip_from(s, i + 2, Mode::Code)) }
                else { cat(blanks(clen(s[i])), strip_from(s, i + 1, Mode::Block(o))) },
        }
    }
}
pub open spec fn strip(s: Seq<char>) -> SRes { strip_from(s, 0, Mode::Code) }

// byte offset of character index i
pub open spec fn boff(s: Seq<char>, i: int) -> int
    decreases i
{
    if i <= 0 || i > s.len() { 0 } else { boff(s, i - 1) + clen(s[i - 1]) }
}

// ---- examples from the property text, by computation
pub proof fn examples_strip()
    ensures
        strip(seq!['/', '*', '*', '*', '/', 'y']) == SRes::Done(seq![' ', ' ', ' ', ' ', ' ', 'y']),       // `/***/y`
        strip(seq!['/', '*', 'x', '*', '*', '/', 'y']) == SRes::Done(seq![' ', ' ', ' ', ' ', ' ', ' ', 'y']),  // `/*x**/y`
        strip(seq!['/', '*', '/', 'y']) == SRes::Unterminated(0),                                            // `/*/y` does not close
        strip(seq!['/', '/', '*', '\n', 'y']) == SRes::Done(seq![' ', ' ', ' ', '\n', 'y']),               // `//*`
        strip(seq!['a', '/', '*']) == SRes::Unterminated(1),
{
    reveal_with_fuel(strip_from, 7);
    reveal_with_fuel(blanks, 2);
    assert(clen('*') == 1 && clen('x') == 1 && clen('/') == 1);
    assert(blanks(1) =~= seq![' ']);
    let e = Seq::<char>::empty();
    assert(seq![' ', ' '] + (seq![' '] + (seq![' ', ' '] + (seq!['y'] + e))) =~= seq![' ', ' ', ' ', ' ', ' ', 'y']);
    assert(seq![' ', ' '] + (seq![' '] + (seq![' '] + (seq![' ', ' '] + (seq!['y'] + e)))) =~= seq![' ', ' ', ' ', ' ', ' ', ' ', 'y']);
    assert(seq![' ', ' '] + (seq![' '] + (seq!['\n'] + (seq!['y'] + e))) =~= seq![' ', ' ', ' ', '\n', 'y']);
}

// ---- the loop invariant of preprocess, per automaton state (i = number of characters consumed)
pub open spec fn inv(s: Seq<char>, i: int, state: int, pp: Seq<char>, opener: int, loc: int, block_start: int) -> bool {
    &&& 0 <= i <= s.len()
    &&& 0 <= state <= 3
    &&& loc == boff(s, i)
    &&& (state == 0 ==> strip(s) == cat(pp, strip_from(s, i, Mode::Code)))
    &&& (state == 1 ==> strip(s) == cat(pp, strip_from(s, i, Mode::Line)))
    &&& (state == 2 || state == 3 ==> 0 <= opener && opener + 2 <= i && block_start == boff(s, opener) + 2)
    &&& (state == 2 ==> strip(s) == cat(pp, strip_from(s, i, Mode::Block(opener))))
    &&& (state == 3 ==> i >= 1 && s[i - 1] == '*' && pp.len() >= 1 && pp.last() == ' '
            && strip(s) == cat(pp.drop_last(), strip_from(s, i - 1, Mode::Block(opener))))
}

pub proof fn lemma_cat_assoc(p: Seq<char>, q: Seq<char>, r: SRes)
    ensures cat(p, cat(q, r)) == cat(p + q, r)
{
    match r {
        SRes::Done(t) => { assert(p + (q + t) =~= (p + q) + t); }
        SRes::Unterminated(o) => {}
    }
}

pub proof fn lemma_boff_step(s: Seq<char>, i: int)
    requires 0 <= i < s.len()
    ensures boff(s, i + 1) == boff(s, i) + clen(s[i]), boff(s, i) >= 0
    decreases i
{
    if i > 0 { lemma_boff_step(s, i - 1); }
}

pub proof fn lemma_boff_mono(s: Seq<char>, i: int, j: int)
    requires 0 <= i <= j <= s.len()
    ensures 0 <= boff(s, i) <= boff(s, j)
    decreases j - i
{
    if i < j { lemma_boff_step(s, j - 1); lemma_boff_mono(s, i, j - 1); }
    else if i > 0 { lemma_boff_step(s, i - 1); }
}

// ---- one step of the reference lexer, phrased for each transition the automaton can take.
// P is the output so far; these are facts about the specification only (no code).
pub proof fn lemma_steps(s: Seq<char>, i: int, pp: Seq<char>, o: int)
    requires 0 <= i < s.len()
    ensures
        // state 0 (code)
        s[i] == '/' && i + 1 < s.len() && s[i + 1] == '/' ==>
            cat(pp, strip_from(s, i, Mode::Code)) == cat(pp.push(' ').push(' '), strip_from(s, i + 2, Mode::Line)),
        s[i] == '/' && i + 1 < s.len() && s[i + 1] == '*' ==>
            cat(pp, strip_from(s, i, Mode::Code)) == cat(pp.push(' ').push(' '), strip_from(s, i + 2, Mode::Block(i))),
        s[i] == '/' && i + 1 < s.len() && s[i + 1] != '/' && s[i + 1] != '*' ==>
            cat(pp, strip_from(s, i, Mode::Code)) == cat(pp.push(s[i]).push(s[i + 1]), strip_from(s, i + 2, Mode::Code)),
        s[i] == '/' && i + 1 == s.len() ==>
            cat(pp, strip_from(s, i, Mode::Code)) == cat(pp.push(s[i]), strip_from(s, i + 1, Mode::Code)),
        s[i] != '/' ==>
            cat(pp, strip_from(s, i, Mode::Code)) == cat(pp.push(s[i]), strip_from(s, i + 1, Mode::Code)),
        // state 1 (line comment)
        s[i] == '\n' ==>
            cat(pp, strip_from(s, i, Mode::Line)) == cat(pp.push('\n'), strip_from(s, i + 1, Mode::Code)),
        s[i] != '\n' ==>
            cat(pp, strip_from(s, i, Mode::Line)) == cat(pp + blanks(clen(s[i])), strip_from(s, i + 1, Mode::Line)),
        // state 2 (block comment)
        pp.push(' ').drop_last() == pp,
        pp.len() >= 1 && pp.last() == ' ' ==> pp.drop_last().push(' ') == pp,
        s[i] != '*' ==>
            cat(pp, strip_from(s, i, Mode::Block(o))) == cat(pp + blanks(clen(s[i])), strip_from(s, i + 1, Mode::Block(o))),
        // state 3 (block comment, s[i-1] is a star whose blank is already the last element of pp)
        i >= 1 && s[i - 1] == '*' && pp.len() >= 1 && s[i] == '/' ==>
            cat(pp.drop_last(), strip_from(s, i - 1, Mode::Block(o))) == cat(pp.drop_last().push(' ').push(' '), strip_from(s, i + 1, Mode::Code)),
        i >= 1 && s[i - 1] == '*' && pp.len() >= 1 && s[i] != '/' ==>
            cat(pp.drop_last(), strip_from(s, i - 1, Mode::Block(o))) == cat(pp.drop_last().push(' '), strip_from(s, i, Mode::Block(o))),
{
    reveal_with_fuel(strip_from, 3);
    reveal_with_fuel(blanks, 2);
    if pp.len() >= 1 && pp.last() == ' ' { assert(pp.drop_last().push(' ') =~= pp); }
    let two = seq![' ', ' '];
    assert(pp + two =~= pp.push(' ').push(' '));
    assert(pp.push(' ').drop_last() =~= pp);
    assert(pp + seq![s[i]] =~= pp.push(s[i]));
    assert(pp + seq!['\n'] =~= pp.push('\n'));
    if s[i] == '/' && i + 1 < s.len() && s[i + 1] == '/' {
        lemma_cat_assoc(pp, two, strip_from(s, i + 2, Mode::Line));
    }
    if s[i] == '/' && i + 1 < s.len() && s[i + 1] == '*' {
        lemma_cat_assoc(pp, two, strip_from(s, i + 2, Mode::Block(i)));
    }
    if s[i] == '/' && i + 1 < s.len() && s[i + 1] != '/' && s[i + 1] != '*' {
        lemma_cat_assoc(pp, seq![s[i]], strip_from(s, i + 1, Mode::Code));
        lemma_cat_assoc(pp.push(s[i]), seq![s[i + 1]], strip_from(s, i + 2, Mode::Code));
        assert(pp.push(s[i]) + seq![s[i + 1]] =~= pp.push(s[i]).push(s[i + 1]));
    }
    lemma_cat_assoc(pp, seq![s[i]], strip_from(s, i + 1, Mode::Code));
    lemma_cat_assoc(pp, seq!['\n'], strip_from(s, i + 1, Mode::Code));
    lemma_cat_assoc(pp, blanks(clen(s[i])), strip_from(s, i + 1, Mode::Line));
    lemma_cat_assoc(pp, blanks(clen(s[i])), strip_from(s, i + 1, Mode::Block(o)));
    if i >= 1 && s[i - 1] == '*' && pp.len() >= 1 {
        let p0 = pp.drop_last();
        assert(blanks(1) =~= seq![' ']);
        assert(clen('*') == 1);
        if s[i] == '/' {
            lemma_cat_assoc(p0, two, strip_from(s, i + 1, Mode::Code));
            assert(p0 + two =~= p0.push(' ').push(' '));
        } else {
            lemma_cat_assoc(p0, blanks(1), strip_from(s, i, Mode::Block(o)));
            assert(p0 + blanks(1) =~= p0.push(' '));
        }
    }
}

// ---- C04 layer, over the specification: stripping preserves the length in bytes, so every byte offset after a
// comment is unchanged (proved once, independent of the code).
pub open spec fn blen(t: Seq<char>) -> int { boff(t, t.len() as int) }

pub proof fn lemma_blen_push(t: Seq<char>, c: char)
    ensures blen(t.push(c)) == blen(t) + clen(c)
{
    let u = t.push(c);
    lemma_boff_prefix(u, t, t.len() as int);
    assert(u[u.len() - 1] == c);
}

// boff only looks at the first i characters
pub proof fn lemma_boff_prefix(u: Seq<char>, t: Seq<char>, i: int)
    requires 0 <= i <= t.len() <= u.len(), forall|k: int| 0 <= k < i ==> u[k] == t[k]
    ensures boff(u, i) == boff(t, i)
    decreases i
{
    if i > 0 { lemma_boff_prefix(u, t, i - 1); }
}

pub proof fn lemma_blen_concat(a: Seq<char>, b: Seq<char>)
    ensures blen(a + b) == blen(a) + blen(b)
    decreases b.len()
{
    if b.len() == 0 {
        assert(a + b =~= a);
    } else {
        let b0 = b.drop_last();
        lemma_blen_concat(a, b0);
        assert(a + b =~= (a + b0).push(b.last()));
        lemma_blen_push(a + b0, b.last());
        assert(b =~= b0.push(b.last()));
        lemma_blen_push(b0, b.last());
    }
}

pub proof fn lemma_blen_blanks(n: nat)
    ensures blen(blanks(n)) == n
    decreases n
{
    if n > 0 {
        lemma_blen_blanks((n - 1) as nat);
        lemma_blen_push(blanks((n - 1) as nat), ' ');
        assert(clen(' ') == 1);
    }
}

pub proof fn lemma_strip_preserves_byte_length(s: Seq<char>, i: int, m: Mode)
    requires 0 <= i <= s.len()
    ensures strip_from(s, i, m) is Done ==> blen(strip_from(s, i, m)->Done_0) == boff(s, s.len() as int) - boff(s, i)
    decreases s.len() - i
{
    reveal_with_fuel(strip_from, 2);
    if i < s.len() {
        lemma_boff_step(s, i);
        let two = seq![' ', ' '];
        assert(blen(two) == 2) by {
            assert(two =~= Seq::<char>::empty().push(' ').push(' '));
            lemma_blen_push(Seq::<char>::empty(), ' ');
            lemma_blen_push(Seq::<char>::empty().push(' '), ' ');
            assert(clen(' ') == 1);
        }
        assert(clen('/') == 1 && clen('*') == 1 && clen('\n') == 1);
        let one = seq![s[i]];
        assert(blen(one) == clen(s[i])) by {
            assert(one =~= Seq::<char>::empty().push(s[i]));
            lemma_blen_push(Seq::<char>::empty(), s[i]);
        }
        lemma_blen_blanks(clen(s[i]));
        if i + 1 < s.len() {
            lemma_boff_step(s, i + 1);
            lemma_strip_preserves_byte_length(s, i + 2, Mode::Line);
            lemma_strip_preserves_byte_length(s, i + 2, Mode::Code);
            lemma_strip_preserves_byte_length(s, i + 2, Mode::Block(i));
        }
        lemma_strip_preserves_byte_length(s, i + 1, Mode::Code);
        lemma_strip_preserves_byte_length(s, i + 1, Mode::Line);
        match m {
            Mode::Block(o) => { lemma_strip_preserves_byte_length(s, i + 1, Mode::Block(o)); }
            _ => {}
        }
        // cat(p, Done(t)) = Done(p + t)
        if strip_from(s, i, m) is Done {
            let t = strip_from(s, i, m)->Done_0;
            match m {
                Mode::Code => {
                    if s[i] == '/' && i + 1 < s.len() && s[i + 1] == '/' { lemma_blen_concat(two, strip_from(s, i + 2, Mode::Line)->Done_0); }
                    else if s[i] == '/' && i + 1 < s.len() && s[i + 1] == '*' { lemma_blen_concat(two, strip_from(s, i + 2, Mode::Block(i))->Done_0); }
                    else { lemma_blen_concat(one, strip_from(s, i + 1, Mode::Code)->Done_0); }
                }
                Mode::Line => {
                    if s[i] == '\n' { lemma_blen_concat(one, strip_from(s, i + 1, Mode::Code)->Done_0); }
                    else { lemma_blen_concat(blanks(clen(s[i])), strip_from(s, i + 1, Mode::Line)->Done_0); }
                }
                Mode::Block(o) => {
                    if s[i] == '*' && i + 1 < s.len() && s[i + 1] == '/' { lemma_blen_concat(two, strip_from(s, i + 2, Mode::Code)->Done_0); }
                    else { lemma_blen_concat(blanks(clen(s[i])), strip_from(s, i + 1, Mode::Block(o))->Done_0); }
                }
            }
        }
    } else {
        assert(boff(Seq::<char>::empty(), 0) == 0);
    }
}

// the statement used by C04: the stripped text has exactly as many bytes as the source
pub proof fn theorem_strip_preserves_byte_length(s: Seq<char>)
    ensures strip(s) is Done ==> blen(strip(s)->Done_0) == blen(s)
{
    lemma_strip_preserves_byte_length(s, 0, Mode::Code);
}
