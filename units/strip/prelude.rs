// ---- prelude of unit `strip`: opaque neighbours (T3) and std gaps (T2)
use vstd::std_specs::iter::IteratorSpec;
use std::ops::Range;

pub type FileID = usize;
pub type FileLocation = Range<usize>;

// program_structure::report::Report — opaque; its one observable here is the primary label
#[verifier::external_body]
pub struct Report { _opaque: Vec<u8> }
pub uninterp spec fn report_location(r: Report) -> FileLocation;
pub uninterp spec fn report_file(r: Report) -> FileID;

impl UnclosedCommentError {
    // parser/src/errors.rs: `Report::error(..)` + `add_primary(self.location, self.file_id, ..)`  (not verified: T3)
    #[verifier::external_body]
    pub fn into_report(self) -> (r: Report)
        ensures report_location(r) == self.location, report_file(r) == self.file_id
    { unimplemented!() }
}

// a &str is at most isize::MAX bytes long, so the sum of the UTF-8 lengths of its characters fits a usize (T2)
#[verifier::external_body]
pub proof fn axiom_str_byte_length(s: &str)
    ensures boff(s@, s@.len() as int) <= usize::MAX
{}
