// opaque neighbours inside module `ast` (T3): ast::Statement, ast::Access and ast::LogArgument are the real enums
pub type FileID = usize;
pub type FileLocation = std::ops::Range<usize>;
pub struct Meta { pub file_id: Option<FileID>, pub location: FileLocation, pub opaque_rest: Ghost<int> }
#[verifier::external_body] pub struct Expression { _o: Vec<u8> }
#[verifier::external_body] pub struct VariableType { _o: Vec<u8> }
#[verifier::external_body] pub struct AssignOp { _o: Vec<u8> }
impl Meta {
    // ast.rs: `pub fn file_location(&self) -> FileLocation { self.location.clone() }`
    #[verifier::external_body]
    pub fn file_location(&self) -> (r: FileLocation) ensures r == self.location { unimplemented!() }
}
