// ---- prelude of unit `uniquevars`: opaque neighbours (T3)
use std::convert::{TryFrom, TryInto};
pub use ast::{Access, Expression, Meta, Statement, LogArgument, FileID, FileLocation};
pub type ReportCollection = Vec<Report>;
#[verifier::external_body] pub struct VariableName { _o: Vec<u8> }
#[verifier::external_body] pub struct IRError { _o: Vec<u8> }

// ---- utils/environment.rs: VarEnvironment<V> = a stack of blocks, each a map from names to V (T2). Model: ve_blocks.
// `get_variable` searches the blocks from the innermost outwards (block_with_variable_symbol).
#[verifier::external_body] #[verifier::reject_recursive_types(V)] pub struct VarEnvironment<V> { _o: Vec<V> }
pub uninterp spec fn ve_blocks<V>(e: VarEnvironment<V>) -> Seq<Map<Seq<char>, V>>;
pub open spec fn lookup<V>(sc: Seq<Map<Seq<char>, V>>, n: Seq<char>) -> Option<V>
    decreases sc.len()
{
    if sc.len() == 0 { None } else if sc.last().dom().contains(n) { Some(sc.last()[n]) } else { lookup(sc.drop_last(), n) }
}
pub open spec fn bind<V>(sc: Seq<Map<Seq<char>, V>>, n: Seq<char>, v: V) -> Seq<Map<Seq<char>, V>>
    recommends sc.len() > 0
{
    sc.update(sc.len() - 1, sc.last().insert(n, v))
}
impl<V> VarEnvironment<V> {
    #[verifier::external_body]
    pub fn new() -> (r: VarEnvironment<V>) ensures ve_blocks(r) == seq![Map::<Seq<char>, V>::empty()] { unimplemented!() }
    #[verifier::external_body]
    pub fn add_variable_block(&mut self) ensures ve_blocks(*final(self)) == ve_blocks(*old(self)).push(Map::<Seq<char>, V>::empty()) { unimplemented!() }
    #[verifier::external_body]
    pub fn remove_variable_block(&mut self)
        requires ve_blocks(*old(self)).len() > 1      // the code asserts non-emptiness; the pass never pops the outermost block
        ensures ve_blocks(*final(self)) == ve_blocks(*old(self)).drop_last()
    { unimplemented!() }
    #[verifier::external_body]
    pub fn add_variable(&mut self, variable_name: &str, content: V)
        requires ve_blocks(*old(self)).len() > 0      // assert!(!self.variables.is_empty())
        ensures ve_blocks(*final(self)) == bind(ve_blocks(*old(self)), variable_name@, content)
    { unimplemented!() }
    #[verifier::external_body]
    pub fn get_variable(&self, symbol: &str) -> (r: Option<&V>)
        ensures
            r is Some <==> lookup(ve_blocks(*self), symbol@) is Some,
            r is Some ==> *r.unwrap() == lookup(ve_blocks(*self), symbol@).unwrap(),
    { unimplemented!() }
}

// `Range<usize>::clone`
#[verifier::external_body]
fn __h_clone_loc(loc: &FileLocation) -> (r: FileLocation) ensures r == *loc { unimplemented!() }

// ---- strings
// `format!("{name}.{version}")`: the renamed spelling; injective in (name, version) for names without a dot (identifiers)
pub uninterp spec fn versioned(name: Seq<char>, version: usize) -> Seq<char>;
#[verifier::external_body]
fn __h_versioned(name: &String, version: usize) -> (r: String) ensures r@ == versioned(name@, version) { unimplemented!() }
#[verifier::external_body]
fn __h_versioned_ref(name: &String, version: &usize) -> (r: String) ensures r@ == versioned(name@, *version) { unimplemented!() }
#[verifier::external_body]
fn __h_to_string(s: &str) -> (r: String) ensures r@ == s@ { unimplemented!() }
// Display of an IR VariableName is its plain name
pub uninterp spec fn vn_text(v: VariableName) -> Seq<char>;
#[verifier::external_body]
fn __h_vn_to_string(name: &VariableName) -> (r: String) ensures r@ == vn_text(*name) { unimplemented!() }

// ---- reports: what a warning produced from a CFGError says (errors.rs `impl From<CFGError> for Report`)
#[verifier::external_body] pub struct Report { _o: Vec<u8> }
pub uninterp spec fn rep_of(e: CFGError) -> Report;
impl From<CFGError> for Report {
    #[verifier::external_body]
    fn from(e: CFGError) -> (r: Report) ensures r == rep_of(e) { unimplemented!() }
}
impl vstd::std_specs::convert::FromSpecImpl<CFGError> for Report {
    open spec fn obeys_from_spec() -> bool { true }
    open spec fn from_spec(e: CFGError) -> Report { rep_of(e) }
}

// uses inside expressions are renamed by visit_expression (not under contract here): it reads the environment only
#[verifier::external_body]
fn visit_expression(expr: &mut Expression, env: &DeclarationEnvironment) { unimplemented!() }

// `param_data.try_into()` is `DeclarationEnvironment::try_from(param_data)` (std's blanket `impl TryInto<U> for T where U: TryFrom<T>`)
fn __h_try_into(param_data: &Parameters) -> (r: CFGResult<DeclarationEnvironment>)
    ensures try_from_post(*param_data, r)
{ DeclarationEnvironment::try_from(param_data) }

// vstd's specification hook for TryFrom: no functional spec is attached to this impl (its contract is the `ensures` below it)
impl<'a> vstd::std_specs::convert::TryFromSpecImpl<&'a Parameters> for DeclarationEnvironment {
    open spec fn obeys_try_from_spec() -> bool { false }
    open spec fn try_from_spec(p: &'a Parameters) -> Result<DeclarationEnvironment, CFGError> { arbitrary() }
}
