// ---- prelude of unit `uniquevars`: opaque neighbours (T3)
use std::convert::{TryFrom, TryInto};
pub use ast::{Access, Expression, Meta, Statement, LogArgument, FileID, FileLocation};
pub type ReportCollection = Vec<Report>;
#[verifier::external_body] pub struct VariableName { _o: Vec<u8> }
#[verifier::external_body] pub struct IRError { _o: Vec<u8> }

// `Range<usize>::clone`
#[verifier::external_body]
fn __h_clone_loc(loc: &FileLocation) -> (r: FileLocation) ensures r == *loc { unimplemented!() }

// ---- strings
// `format!("{name}.{version}")`: the renamed spelling; injective in (name, version) for names without a dot (identifiers)
pub uninterp spec fn versioned(name: Seq<char>, version: usize) -> Seq<char>;
#[verifier::external_body]
fn __h_versioned(name: &String, version: usize) -> (r: String) ensures r@ == versioned(name@, version) { unimplemented!() }
#[verifier::external_body]
fn __h_versioned_ref(name: &String, version: &usize) -> (r: String) ensures r@ == versioned(name@, *version) { unimplemented!() }
#[verifier::external_body]
fn __h_to_string(s: &str) -> (r: String) ensures r@ == s@ { unimplemented!() }
// Display of an IR VariableName is its plain name
pub uninterp spec fn vn_text(v: VariableName) -> Seq<char>;
#[verifier::external_body]
fn __h_vn_to_string(name: &VariableName) -> (r: String) ensures r@ == vn_text(*name) { unimplemented!() }

// ---- reports: what a warning produced from a CFGError says (errors.rs `impl From<CFGError> for Report`)
#[verifier::external_body] pub struct Report { _o: Vec<u8> }
pub uninterp spec fn rep_of(e: CFGError) -> Report;
impl From<CFGError> for Report {
    #[verifier::external_body]
    fn from(e: CFGError) -> (r: Report) ensures r == rep_of(e) { unimplemented!() }
}
impl vstd::std_specs::convert::FromSpecImpl<CFGError> for Report {
    open spec fn obeys_from_spec() -> bool { true }
    open spec fn from_spec(e: CFGError) -> Report { rep_of(e) }
}

// uses inside expressions are renamed by visit_expression (not under contract here): it reads the environment only
#[verifier::external_body]
fn visit_expression(expr: &mut Expression, env: &DeclarationEnvironment) { unimplemented!() }

// `param_data.try_into()` is `DeclarationEnvironment::try_from(param_data)` (std's blanket `impl TryInto<U> for T where U: TryFrom<T>`)
fn __h_try_into(param_data: &Parameters) -> (r: CFGResult<DeclarationEnvironment>)
    ensures try_from_post(*param_data, r)
{ DeclarationEnvironment::try_from(param_data) }

// vstd's specification hook for TryFrom: no functional spec is attached to this impl (its contract is the `ensures` below it)
impl<'a> vstd::std_specs::convert::TryFromSpecImpl<&'a Parameters> for DeclarationEnvironment {
    open spec fn obeys_try_from_spec() -> bool { false }
    open spec fn try_from_spec(p: &'a Parameters) -> Result<DeclarationEnvironment, CFGError> { arbitrary() }
}
