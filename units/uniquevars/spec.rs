// ---- specification of unit `uniquevars` (C10, the shadowing clause): "A `shadowing variable` warning is displayed for
// exactly those declarations that redeclare a name visible at that point, with the shadowed declaration as secondary
// location, and repeated parameter names are reported" — visibility is lexical: block scoping, parameters outermost.
pub struct Decl { pub file_id: Option<FileID>, pub loc: FileLocation }
pub type Scopes = Seq<Map<Seq<char>, Decl>>;
pub closed spec fn decl_view(d: Declaration) -> Decl { Decl { file_id: d.file_id, loc: d.file_location } }
// the scope stack of declarations the environment holds
pub closed spec fn env_scopes(e: DeclarationEnvironment) -> Scopes {
    Seq::new(ve_blocks(e.declarations).len(), |i: int| ve_blocks(e.declarations)[i].map_values(|d: Declaration| decl_view(d)))
}
pub closed spec fn env_depths_ok(e: DeclarationEnvironment) -> bool {
    ve_blocks(e.declarations).len() > 0 && ve_blocks(e.scoped_versions).len() == ve_blocks(e.declarations).len() && ve_blocks(e.global_versions).len() > 0
}
pub closed spec fn env_global(e: DeclarationEnvironment) -> Seq<Map<Seq<char>, Option<Version>>> { ve_blocks(e.global_versions) }

// a warning the pass owes: the declaration of `name` at `at` shadows the declaration `shadowed`
pub struct Shadow { pub name: Seq<char>, pub at_file: Option<FileID>, pub at: FileLocation, pub shadowed: Decl }
pub open spec fn shadow_error(s: Shadow, e: CFGError) -> bool {
    match e {
        CFGError::ShadowingVariableWarning { name, primary_file_id, primary_location, secondary_file_id, secondary_location } =>
            name@ == s.name && primary_file_id == s.at_file && primary_location == s.at && secondary_file_id == s.shadowed.file_id && secondary_location == s.shadowed.loc,
        _ => false,
    }
}
pub open spec fn is_shadow_report(r: Report, s: Shadow) -> bool { exists|e: CFGError| #![trigger rep_of(e)] shadow_error(s, e) && r == rep_of(e) }
pub open spec fn reports_are(rs: Seq<Report>, ss: Seq<Shadow>) -> bool {
    rs.len() == ss.len() && forall|k: int| 0 <= k < rs.len() ==> is_shadow_report(#[trigger] rs[k], ss[k])
}

// ---- lexical scoping over the statement tree: the scope stack after a statement, and the warnings it owes
pub open spec fn scope_after(s: ast::Statement, sc: Scopes) -> Scopes
    decreases s
{
    match s {
        ast::Statement::Declaration { meta, name, .. } => bind(sc, name@, Decl { file_id: meta.file_id, loc: meta.location }),
        ast::Statement::InitializationBlock { initializations, .. } => scope_list(initializations@, initializations@.len() as int, sc),
        ast::Statement::While { stmt, .. } => scope_after(*stmt, sc),
        ast::Statement::IfThenElse { if_case, else_case, .. } => match else_case {
            Some(e) => scope_after(*e, scope_after(*if_case, sc)),
            None => scope_after(*if_case, sc),
        },
        // what a block declares goes out of scope with the block
        ast::Statement::Block { .. } => sc,
        _ => sc,
    }
}
pub open spec fn scope_list(l: Seq<ast::Statement>, n: int, sc: Scopes) -> Scopes
    decreases l, n
{
    if n <= 0 || n > l.len() { sc } else { scope_after(l[n - 1], scope_list(l, n - 1, sc)) }
}
pub open spec fn shadows_of(s: ast::Statement, sc: Scopes) -> Seq<Shadow>
    decreases s
{
    match s {
        ast::Statement::Declaration { meta, name, .. } => match lookup(sc, name@) {
            Some(d) => seq![Shadow { name: name@, at_file: meta.file_id, at: meta.location, shadowed: d }],
            None => Seq::empty(),
        },
        ast::Statement::InitializationBlock { initializations, .. } => shadows_list(initializations@, initializations@.len() as int, sc),
        ast::Statement::While { stmt, .. } => shadows_of(*stmt, sc),
        ast::Statement::IfThenElse { if_case, else_case, .. } => match else_case {
            Some(e) => shadows_of(*if_case, sc) + shadows_of(*e, scope_after(*if_case, sc)),
            None => shadows_of(*if_case, sc),
        },
        ast::Statement::Block { stmts, .. } => shadows_list(stmts@, stmts@.len() as int, sc.push(Map::empty())),
        _ => Seq::empty(),
    }
}
pub open spec fn shadows_list(l: Seq<ast::Statement>, n: int, sc: Scopes) -> Seq<Shadow>
    decreases l, n
{
    if n <= 0 || n > l.len() { Seq::empty() } else { shadows_list(l, n - 1, sc) + shadows_of(l[n - 1], scope_list(l, n - 1, sc)) }
}

// a statement only touches the innermost scope
pub proof fn lemma_scope_frame(s: ast::Statement, sc: Scopes)
    requires sc.len() > 0
    ensures scope_after(s, sc).len() == sc.len(), scope_after(s, sc).drop_last() == sc.drop_last()
    decreases s
{
    match s {
        ast::Statement::Declaration { meta, name, .. } => {
            assert(bind(sc, name@, Decl { file_id: meta.file_id, loc: meta.location }).drop_last() =~= sc.drop_last());
        }
        ast::Statement::InitializationBlock { initializations, .. } => { lemma_scope_list_frame(initializations@, initializations@.len() as int, sc); }
        ast::Statement::While { stmt, .. } => { lemma_scope_frame(*stmt, sc); }
        ast::Statement::IfThenElse { if_case, else_case, .. } => {
            lemma_scope_frame(*if_case, sc);
            match else_case { Some(e) => { lemma_scope_frame(*e, scope_after(*if_case, sc)); } None => {} }
        }
        _ => {}
    }
}
pub proof fn lemma_scope_list_frame(l: Seq<ast::Statement>, n: int, sc: Scopes)
    requires sc.len() > 0
    ensures scope_list(l, n, sc).len() == sc.len(), scope_list(l, n, sc).drop_last() == sc.drop_last()
    decreases l, n
{
    if !(n <= 0 || n > l.len()) {
        lemma_scope_list_frame(l, n - 1, sc);
        lemma_scope_frame(l[n - 1], scope_list(l, n - 1, sc));
    }
}

// ---- parameters: `TryFrom<&Parameters>` fails exactly when two parameters have the same name
pub closed spec fn param_texts(p: Parameters) -> Seq<Seq<char>> { Seq::new(p.param_names@.len(), |i: int| vn_text(p.param_names@[i])) }
pub closed spec fn param_decl(p: Parameters) -> Decl { Decl { file_id: p.file_id, loc: p.file_location } }
pub open spec fn try_from_post(p: Parameters, r: CFGResult<DeclarationEnvironment>) -> bool {
    match r {
        Ok(env) => param_texts(p).no_duplicates() && env_depths_ok(env) && env_scopes(env).len() == 1
            && (forall|n: Seq<char>| #![trigger env_scopes(env)[0].dom().contains(n)] env_scopes(env)[0].dom().contains(n) <==> param_texts(p).contains(n))
            && (forall|n: Seq<char>| #![trigger env_scopes(env)[0][n]] param_texts(p).contains(n) ==> env_scopes(env)[0][n] == param_decl(p))
            && (forall|n: Seq<char>| #![trigger lookup(env_global(env), n)] !(lookup(env_global(env), n) matches Some(Some(_)))),
        Err(e) => !param_texts(p).no_duplicates() && e is ParameterNameCollisionError,
    }
}

// ---- bookkeeping lemmas
pub open spec fn added(old_rs: Seq<Report>, new_rs: Seq<Report>, ss: Seq<Shadow>) -> bool {
    &&& new_rs.len() == old_rs.len() + ss.len()
    &&& forall|k: int| 0 <= k < old_rs.len() ==> #[trigger] new_rs[k] == old_rs[k]
    &&& forall|k: int| 0 <= k < ss.len() ==> is_shadow_report(new_rs[old_rs.len() + k], #[trigger] ss[k])
}
pub proof fn lemma_added_trans(a: Seq<Report>, b: Seq<Report>, c: Seq<Report>, x: Seq<Shadow>, y: Seq<Shadow>)
    requires added(a, b, x), added(b, c, y)
    ensures added(a, c, x + y)
{
    assert forall|k: int| 0 <= k < a.len() implies #[trigger] c[k] == a[k] by { assert(c[k] == b[k]); }
    assert forall|k: int| 0 <= k < (x + y).len() implies is_shadow_report(c[a.len() + k], #[trigger] (x + y)[k]) by {
        if k < x.len() { assert(c[a.len() + k] == b[a.len() + k]); assert(is_shadow_report(b[a.len() + k], x[k])); }
        else { assert(is_shadow_report(c[b.len() + (k - x.len())], y[k - x.len()])); }
    }
}
pub proof fn lemma_added_refl(a: Seq<Report>)
    ensures added(a, a, Seq::<Shadow>::empty())
{}
// looking a name up in the mapped stack is mapping the looked-up entry
pub proof fn lemma_lookup_view(blocks: Seq<Map<Seq<char>, Declaration>>, n: Seq<char>)
    ensures
        lookup(Seq::new(blocks.len(), |i: int| blocks[i].map_values(|d: Declaration| decl_view(d))), n)
            == (match lookup(blocks, n) { Some(d) => Some(decl_view(d)), None => None::<Decl> }),
    decreases blocks.len()
{
    let f = |d: Declaration| decl_view(d);
    let mapped = Seq::new(blocks.len(), |i: int| blocks[i].map_values(f));
    if blocks.len() > 0 {
        lemma_lookup_view(blocks.drop_last(), n);
        let dl = blocks.drop_last();
        assert(mapped.drop_last() =~= Seq::new(dl.len(), |i: int| dl[i].map_values(f)));
        assert(mapped.last() == blocks.last().map_values(f));
        assert(mapped.last().dom().contains(n) == blocks.last().dom().contains(n));
    }
}

// ---- resource bound: version numbers stay below usize::MAX (each declaration raises one name's version by one)
pub open spec fn versions_room(g: Seq<Map<Seq<char>, Option<Version>>>, k: int) -> bool {
    k < usize::MAX && forall|n: Seq<char>| #![trigger lookup(g, n)] lookup(g, n) matches Some(Some(v)) ==> v + k < usize::MAX
}
pub open spec fn decl_count(s: ast::Statement) -> nat
    decreases s
{
    match s {
        ast::Statement::Declaration { .. } => 1,
        ast::Statement::InitializationBlock { initializations, .. } => decl_count_list(initializations@, initializations@.len() as int),
        ast::Statement::While { stmt, .. } => decl_count(*stmt),
        ast::Statement::IfThenElse { if_case, else_case, .. } => match else_case { Some(e) => decl_count(*if_case) + decl_count(*e), None => decl_count(*if_case) },
        ast::Statement::Block { stmts, .. } => decl_count_list(stmts@, stmts@.len() as int),
        _ => 0,
    }
}
pub open spec fn decl_count_list(l: Seq<ast::Statement>, n: int) -> nat
    decreases l, n
{
    if n <= 0 || n > l.len() { 0 } else { decl_count_list(l, n - 1) + decl_count(l[n - 1]) }
}
// what `room` a statement leaves: if k + decl_count(s) fitted before, k fits afterwards
pub open spec fn room_step(g0: Seq<Map<Seq<char>, Option<Version>>>, g1: Seq<Map<Seq<char>, Option<Version>>>, c: nat) -> bool {
    forall|k: int| #![trigger versions_room(g1, k)] k >= 0 && versions_room(g0, k + c) ==> versions_room(g1, k)
}
pub proof fn lemma_room_trans(g0: Seq<Map<Seq<char>, Option<Version>>>, g1: Seq<Map<Seq<char>, Option<Version>>>, g2: Seq<Map<Seq<char>, Option<Version>>>, c1: nat, c2: nat)
    requires room_step(g0, g1, c1), room_step(g1, g2, c2)
    ensures room_step(g0, g2, c1 + c2)
{
    assert forall|k: int| #![trigger versions_room(g2, k)] k >= 0 && versions_room(g0, k + (c1 + c2)) implies versions_room(g2, k) by {
        assert(versions_room(g1, k + c2));
    }
}
pub proof fn lemma_room_refl(g: Seq<Map<Seq<char>, Option<Version>>>)
    ensures room_step(g, g, 0)
{}
pub proof fn lemma_room_weaken(g: Seq<Map<Seq<char>, Option<Version>>>, k: int, j: int)
    requires versions_room(g, k), 0 <= j <= k
    ensures versions_room(g, j)
{
    assert forall|n: Seq<char>| #![trigger lookup(g, n)] (lookup(g, n) matches Some(Some(v)) ==> v + j < usize::MAX) by {}
}
pub proof fn lemma_count_mono(l: Seq<ast::Statement>, i: int, n: int)
    requires 0 <= i <= n <= l.len()
    ensures decl_count_list(l, i) <= decl_count_list(l, n)
    decreases n - i
{
    if i < n { lemma_count_mono(l, i, n - 1); }
}
// one more element of a statement list: what the list owes and leaves
pub proof fn lemma_list_step(l: Seq<ast::Statement>, k: int, sc: Scopes)
    requires 0 <= k < l.len()
    ensures
        scope_list(l, k + 1, sc) == scope_after(l[k], scope_list(l, k, sc)),
        shadows_list(l, k + 1, sc) == shadows_list(l, k, sc) + shadows_of(l[k], scope_list(l, k, sc)),
        decl_count_list(l, k + 1) == decl_count_list(l, k) + decl_count(l[k]),
{}

// the outermost scope: exactly the parameters, all declared at the parameter list
pub open spec fn params_scope(p: Parameters, sc: Scopes) -> bool {
    &&& sc.len() == 1
    &&& forall|n: Seq<char>| #![trigger sc[0].dom().contains(n)] sc[0].dom().contains(n) <==> param_texts(p).contains(n)
    &&& forall|n: Seq<char>| #![trigger sc[0][n]] param_texts(p).contains(n) ==> sc[0][n] == param_decl(p)
}

// ---- C17 at the level of this pass: the warnings are a function of the parameter list and the body. The outermost
// scope is determined by the parameters, hence so is the list of owed warnings; two runs append reports for the same
// warnings, in the same order.
pub proof fn theorem_pass_deterministic(p: Parameters, body: ast::Statement, r0: Seq<Report>, ra: Seq<Report>, rb: Seq<Report>, sca: Scopes, scb: Scopes)
    requires params_scope(p, sca), params_scope(p, scb), added(r0, ra, shadows_of(body, sca)), added(r0, rb, shadows_of(body, scb)),
    ensures
        sca == scb,
        ra.len() == rb.len(),
        forall|k: int| 0 <= k < shadows_of(body, sca).len() ==> is_shadow_report(ra[r0.len() + k], #[trigger] shadows_of(body, sca)[k]) && is_shadow_report(rb[r0.len() + k], shadows_of(body, sca)[k]),
{
    assert(sca[0] =~= scb[0]) by {
        assert forall|n: Seq<char>| sca[0].dom().contains(n) == scb[0].dom().contains(n) by {}
        assert forall|n: Seq<char>| sca[0].dom().contains(n) implies sca[0][n] == scb[0][n] by {}
    }
    assert(sca =~= scb);
}
