// ---- prelude of unit `filters`
use std::cmp::Ordering;
use std::collections::HashSet;
use vstd::std_specs::cmp::{PartialEqSpecImpl, PartialOrdSpecImpl, OrdSpecImpl};
broadcast use vstd::std_specs::hash::group_hash_axioms;

pub type FileID = usize;

// program_structure::report::Report — opaque (T3); the three observables the filters read
#[verifier::external_body]
pub struct Report { _opaque: Vec<u8> }
pub uninterp spec fn report_category(r: Report) -> MessageCategory;
pub uninterp spec fn report_id(r: Report) -> Seq<char>;
pub uninterp spec fn report_primary_files(r: Report) -> Seq<FileID>;
impl Report {
    #[verifier::external_body]
    pub fn category(&self) -> (r: &MessageCategory) ensures *r == report_category(*self) { unimplemented!() }
    #[verifier::external_body]
    pub fn id(&self) -> (r: String) ensures r@ == report_id(*self) { unimplemented!() }
    #[verifier::external_body]
    pub fn primary_file_ids(&self) -> (r: &Vec<FileID>) ensures r@ == report_primary_files(*self) { unimplemented!() }
}

// R5 helper: the original expression `file_ids.iter().any(|file_id| user_inputs.contains(file_id))`, verbatim;
// assumed: Iterator::any over a slice iterator is the existential over its elements, HashSet::contains is membership
#[verifier::external_body]
fn __h_any_user_input(file_ids: &Vec<FileID>, user_inputs: &HashSet<FileID>) -> (r: bool)
    ensures r == (exists|i: int| 0 <= i < file_ids@.len() && user_inputs@.contains(#[trigger] file_ids@[i]))
{
    file_ids.iter().any(|file_id| user_inputs.contains(file_id))
}

// `[T]::contains(&x)`: "Returns true if the slice contains an element with the given value" (by PartialEq) (T2)
pub assume_specification<T: PartialEq>[ <[T]>::contains ](s: &[T], x: &T) -> (r: bool)
    ensures r == (exists|i: int| 0 <= i < s@.len() && vstd::std_specs::cmp::PartialEqSpec::eq_spec(#[trigger] &s@[i], x));

// String equality (`==`, PartialEq) is equality of the character sequences (T2)
#[verifier::external_body]
pub proof fn axiom_string_eq_is_view_eq()
    ensures forall|a: String, b: String| (#[trigger] vstd::std_specs::cmp::PartialEqSpec::eq_spec(&a, &b)) == (a@ == b@)
{}
