// ---- specification of unit `filters` (C03): "Info < Warning < Error"; "a finding is displayed iff its level is at
// least --level, its id is not in --allow and it is not located solely in a file that was only included"
pub open spec fn lvl(c: MessageCategory) -> int {
    match c { MessageCategory::Info => 0, MessageCategory::Warning => 1, MessageCategory::Error => 2 }
}
pub open spec fn cat_cmp(a: MessageCategory, b: MessageCategory) -> Ordering {
    if lvl(a) < lvl(b) { Ordering::Less } else if lvl(a) == lvl(b) { Ordering::Equal } else { Ordering::Greater }
}
impl PartialOrdSpecImpl for MessageCategory {
    open spec fn obeys_partial_cmp_spec() -> bool { true }
    open spec fn partial_cmp_spec(&self, other: &MessageCategory) -> Option<Ordering> { Some(cat_cmp(*self, *other)) }
}
impl OrdSpecImpl for MessageCategory {
    open spec fn obeys_cmp_spec() -> bool { true }
    open spec fn cmp_spec(&self, other: &MessageCategory) -> Ordering { cat_cmp(*self, *other) }
}

// located solely in files that were only included: it has a primary location and none is in a user-specified file
pub open spec fn solely_included(files: Seq<FileID>, user: Set<FileID>) -> bool {
    files.len() > 0 && forall|i: int| 0 <= i < files.len() ==> !user.contains(#[trigger] files[i])
}
pub open spec fn id_allowed(id: Seq<char>, allow: Seq<String>) -> bool {
    exists|i: int| 0 <= i < allow.len() && (#[trigger] allow[i])@ == id
}
