// ---- specification of unit `degree` (C07). Written from the property statement and polynomial algebra,
// not from the code: rank 0/1/2 = polynomial of total degree <= 0/1/2 in the signals, rank 3 = no bound claimed.

pub open spec fn rank(d: Degree) -> int {
    match d { Degree::Constant => 0, Degree::Linear => 1, Degree::Quadratic => 2, Degree::NonQuadratic => 3 }
}

pub open spec fn imax(a: int, b: int) -> int { if a >= b { a } else { b } }
pub open spec fn imin(a: int, b: int) -> int { if a <= b { a } else { b } }

// The least sound upper bound for each operator, given sound upper bounds a, b of the operands.
//   deg(f + g), deg(f - g) <= max(deg f, deg g);   deg(f * g) <= deg f + deg g;   deg(-f) = deg f;
//   f / c for a constant c is f * c^-1, so deg <= deg f; a quotient by a non-constant is not a polynomial.
//   Every other Circom operator (**, \, %, <<, >>, <, >, <=, >=, ==, !=, |, &, ^, ||, &&, ~, !) is not a
//   polynomial map of its operands: the result is a constant when all operands are constants and has
//   no polynomial bound otherwise.
pub open spec fn ls_addsub(a: int, b: int) -> int { imax(a, b) }
pub open spec fn ls_mul(a: int, b: int) -> int { imin(3, a + b) }
pub open spec fn ls_div(a: int, b: int) -> int { if b == 0 { a } else { 3 } }
pub open spec fn ls_other(a: int, b: int) -> int { if a == 0 && b == 0 { 0 } else { 3 } }
pub open spec fn ls_neg(a: int) -> int { a }
pub open spec fn ls_other1(a: int) -> int { if a == 0 { 0 } else { 3 } }

pub enum InfixClass { AddSub, Mul, Div, Other }

pub open spec fn infix_class(op: ExpressionInfixOpcode) -> InfixClass {
    match op {
        ExpressionInfixOpcode::Add => InfixClass::AddSub,
        ExpressionInfixOpcode::Sub => InfixClass::AddSub,
        ExpressionInfixOpcode::Mul => InfixClass::Mul,
        ExpressionInfixOpcode::Div => InfixClass::Div,
        _ => InfixClass::Other,
    }
}

pub open spec fn ls_infix(op: ExpressionInfixOpcode, a: int, b: int) -> int {
    match infix_class(op) {
        InfixClass::AddSub => ls_addsub(a, b),
        InfixClass::Mul => ls_mul(a, b),
        InfixClass::Div => ls_div(a, b),
        InfixClass::Other => ls_other(a, b),
    }
}

pub open spec fn ls_prefix(op: ExpressionPrefixOpcode, a: int) -> int {
    match op {
        ExpressionPrefixOpcode::Sub => ls_neg(a),
        _ => ls_other1(a),
    }
}

// monotonicity of the oracle: sound bounds of operands give a sound bound of the result
pub proof fn lemma_ls_monotone(op: ExpressionInfixOpcode, a: int, b: int, a2: int, b2: int)
    requires 0 <= a <= a2 <= 3, 0 <= b <= b2 <= 3
    ensures ls_infix(op, a, b) <= ls_infix(op, a2, b2), 0 <= ls_infix(op, a, b) <= 3
{}

pub proof fn lemma_ls_prefix_monotone(op: ExpressionPrefixOpcode, a: int, a2: int)
    requires 0 <= a <= a2 <= 3
    ensures ls_prefix(op, a) <= ls_prefix(op, a2), 0 <= ls_prefix(op, a) <= 3
{}

// examples from the property text: `~x` and `!x` of a signal have no polynomial bound; x*x is quadratic; x*x*x is not
pub proof fn examples_degree()
    ensures
        ls_prefix(ExpressionPrefixOpcode::Complement, 1) == 3,
        ls_prefix(ExpressionPrefixOpcode::BoolNot, 1) == 3,
        ls_infix(ExpressionInfixOpcode::Mul, 1, 1) == 2,
        ls_infix(ExpressionInfixOpcode::Mul, 2, 1) == 3,
        ls_infix(ExpressionInfixOpcode::Div, 1, 0) == 1,
        ls_infix(ExpressionInfixOpcode::Div, 0, 1) == 3,
        ls_infix(ExpressionInfixOpcode::ShiftL, 1, 0) == 3,
        ls_infix(ExpressionInfixOpcode::Lesser, 0, 0) == 0,
{}

// ---- order on Degree (C07: "Degree lattice"): contract of the Ord / PartialOrd impls
pub open spec fn deg_cmp(a: Degree, b: Degree) -> Ordering {
    if rank(a) < rank(b) { Ordering::Less } else if rank(a) == rank(b) { Ordering::Equal } else { Ordering::Greater }
}

impl PartialOrdSpecImpl for Degree {
    open spec fn obeys_partial_cmp_spec() -> bool { true }
    open spec fn partial_cmp_spec(&self, other: &Degree) -> Option<Ordering> { Some(deg_cmp(*self, *other)) }
}

impl OrdSpecImpl for Degree {
    open spec fn obeys_cmp_spec() -> bool { true }
    open spec fn cmp_spec(&self, other: &Degree) -> Ordering { deg_cmp(*self, *other) }
}

// views of the two tuple fields of DegreeRange (lower end, upper end)
// (closed because the fields are private in /repo; inside this single-module file the bodies are visible)
pub closed spec fn dr_start(r: DegreeRange) -> Degree { r.0 }
pub closed spec fn dr_end(r: DegreeRange) -> Degree { r.1 }
pub closed spec fn dr_make(a: Degree, b: Degree) -> DegreeRange { DegreeRange(a, b) }
pub open spec fn lo(r: DegreeRange) -> int { rank(dr_start(r)) }
pub open spec fn hi(r: DegreeRange) -> int { rank(dr_end(r)) }
pub closed spec fn dk_range(k: DegreeKnowledge) -> Option<DegreeRange> { k.degree_range }
pub open spec fn dk_hi_le(k: DegreeKnowledge, n: int) -> bool { dk_range(k).is_some() && hi(dk_range(k).unwrap()) <= n }

// contract of `impl From<Degree> for DegreeRange` ("a range containing a single element")
impl vstd::std_specs::convert::FromSpecImpl<Degree> for DegreeRange {
    open spec fn obeys_from_spec() -> bool { true }
    open spec fn from_spec(degree: Degree) -> DegreeRange { dr_make(degree, degree) }
}
