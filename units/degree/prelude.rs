// ---- prelude of unit `degree`: trusted specifications of the std items the extracted code uses (T2)
use std::cmp::{Ordering, min, max};
use vstd::std_specs::cmp::{PartialEqSpecImpl, PartialOrdSpecImpl, OrdSpecImpl};

// std::cmp::max(a, b): "Returns the second argument if the comparison determines them to be equal."
pub assume_specification<T: Ord>[ std::cmp::max ](a: T, b: T) -> (r: T)
    ensures r == (if vstd::std_specs::cmp::OrdSpec::cmp_spec(&a, &b) == Ordering::Greater { a } else { b });

// std::cmp::min(a, b): "Returns the first argument if the comparison determines them to be equal."
pub assume_specification<T: Ord>[ std::cmp::min ](a: T, b: T) -> (r: T)
    ensures r == (if vstd::std_specs::cmp::OrdSpec::cmp_spec(&a, &b) == Ordering::Greater { b } else { a });
