// ---- shared stub: the scoped map of utils/environment.rs (the same clauses are PROVED of the real code in unit `environment`)
// ---- utils/environment.rs: VarEnvironment<V> = a stack of blocks, each a map from names to V (T2). Model: ve_blocks.
// `get_variable` searches the blocks from the innermost outwards (block_with_variable_symbol).
#[verifier::external_body] #[verifier::reject_recursive_types(V)] pub struct VarEnvironment<V> { _o: Vec<V> }
pub uninterp spec fn ve_blocks<V>(e: VarEnvironment<V>) -> Seq<Map<Seq<char>, V>>;
pub open spec fn lookup<V>(sc: Seq<Map<Seq<char>, V>>, n: Seq<char>) -> Option<V>
    decreases sc.len()
{
    if sc.len() == 0 { None } else if sc.last().dom().contains(n) { Some(sc.last()[n]) } else { lookup(sc.drop_last(), n) }
}
pub open spec fn bind<V>(sc: Seq<Map<Seq<char>, V>>, n: Seq<char>, v: V) -> Seq<Map<Seq<char>, V>>
    recommends sc.len() > 0
{
    sc.update(sc.len() - 1, sc.last().insert(n, v))
}
impl<V> VarEnvironment<V> {
    #[verifier::external_body]
    pub fn new() -> (r: VarEnvironment<V>) ensures ve_blocks(r) == seq![Map::<Seq<char>, V>::empty()] { unimplemented!() }
    #[verifier::external_body]
    pub fn add_variable_block(&mut self) ensures ve_blocks(*final(self)) == ve_blocks(*old(self)).push(Map::<Seq<char>, V>::empty()) { unimplemented!() }
    #[verifier::external_body]
    pub fn remove_variable_block(&mut self)
        requires ve_blocks(*old(self)).len() > 1      // the code asserts non-emptiness; the pass never pops the outermost block
        ensures ve_blocks(*final(self)) == ve_blocks(*old(self)).drop_last()
    { unimplemented!() }
    #[verifier::external_body]
    pub fn add_variable(&mut self, variable_name: &str, content: V)
        requires ve_blocks(*old(self)).len() > 0      // assert!(!self.variables.is_empty())
        ensures ve_blocks(*final(self)) == bind(ve_blocks(*old(self)), variable_name@, content)
    { unimplemented!() }
    #[verifier::external_body]
    pub fn get_variable(&self, symbol: &str) -> (r: Option<&V>)
        ensures
            r is Some <==> lookup(ve_blocks(*self), symbol@) is Some,
            r is Some ==> *r.unwrap() == lookup(ve_blocks(*self), symbol@).unwrap(),
    { unimplemented!() }
}


pub proof fn lemma_lookup_bind<V>(sc: Seq<Map<Seq<char>, V>>, n: Seq<char>, v: V, m: Seq<char>)
    requires sc.len() > 0
    ensures lookup(bind(sc, n, v), m) == (if m == n { Some(v) } else { lookup(sc, m) })
{
    let b = bind(sc, n, v);
    assert(b.drop_last() =~= sc.drop_last());
    assert(b.last() == sc.last().insert(n, v));
}
