// ---- prelude of unit `curves`
// `BigInt::parse_bytes(s.as_bytes(), 10).expect(..)` on a string of decimal digits is the number those digits denote (T1).
// dec_ok / dec_value are uninterpreted; the engine emits, for every all-digit string literal of the extracted source, the
// axiom `dec_ok("<digits>") && dec_value("<digits>") == <digits>` (lemma_dec_literals, generated on every run from /repo's text).
pub uninterp spec fn dec_value(s: &str) -> int;
pub uninterp spec fn dec_ok(s: &str) -> bool;
#[verifier::external_body]
fn __h_parse_dec(s: &str) -> (r: BigInt)
    requires dec_ok(s)
    ensures r@ == dec_value(s)
{ unimplemented!() }
// num-bigint: number of bits of the magnitude (T1)
impl BigInt {
    #[verifier::external_body]
    pub fn bits(&self) -> (r: usize)
        requires self@ >= 0
        ensures r == bitlen(self@)
    { unimplemented!() }
}
// derived `Clone` of the field-less enum Curve
#[verifier::external_body]
fn __h_clone_curve(c: &Curve) -> (r: Curve)
    ensures r == *c
{ c.clone() }
