// ---- specification of unit `curves` (C11): the primes as in the Circom documentation
// (literals above 2^128 are written in base 2^64: rustc parses integer literals as u128)
pub open spec fn curve_prime(c: Curve) -> int {
    match c {
        // 21888242871839275222246405745257275088548364400416034343698204186575808495617
        Curve::Bn254 => (((3486998266802970665int * 18446744073709551616int + 13281191951274694749int) * 18446744073709551616int + 2896914383306846353int) * 18446744073709551616int + 4891460686036598785int),
        // 52435875175126190479447740508185965837690552500527637822603658699938581184513
        Curve::Bls12_381 => (((8353516859464449352int * 18446744073709551616int + 3691218898639771653int) * 18446744073709551616int + 6034159408538082302int) * 18446744073709551616int + 18446744069414584321int),
        Curve::Goldilocks => 18446744069414584321int,
    }
}
pub open spec fn curve_bits(c: Curve) -> nat {
    match c { Curve::Bn254 => 254, Curve::Bls12_381 => 255, Curve::Goldilocks => 64 }
}
pub closed spec fn uc_curve(u: UsefulConstants) -> Curve { u.curve }
pub closed spec fn uc_prime(u: UsefulConstants) -> int { u.prime@ }
pub open spec fn uc_wf(u: UsefulConstants) -> bool { uc_prime(u) == curve_prime(uc_curve(u)) }

// 2^(b-1) <= p < 2^b
pub proof fn lemma_prime_window(c: Curve)
    ensures ipow2((curve_bits(c) - 1) as nat) <= curve_prime(c) < ipow2(curve_bits(c)),
        ipow2((curve_bits(c) - 2) as nat) - 1 <= curve_prime(c) / 2 < ipow2((curve_bits(c) - 1) as nat) - 1,
{
    match c {
        Curve::Bn254 => {
            assert(ipow2(253) <= curve_prime(Curve::Bn254) && curve_prime(Curve::Bn254) < ipow2(254)
                && ipow2(252) - 1 <= curve_prime(Curve::Bn254) / 2 && curve_prime(Curve::Bn254) / 2 < ipow2(253) - 1) by (compute);
        }
        Curve::Bls12_381 => {
            assert(ipow2(254) <= curve_prime(Curve::Bls12_381) && curve_prime(Curve::Bls12_381) < ipow2(255)
                && ipow2(253) - 1 <= curve_prime(Curve::Bls12_381) / 2 && curve_prime(Curve::Bls12_381) / 2 < ipow2(254) - 1) by (compute);
        }
        Curve::Goldilocks => {
            assert(ipow2(63) <= curve_prime(Curve::Goldilocks) && curve_prime(Curve::Goldilocks) < ipow2(64)
                && ipow2(62) - 1 <= curve_prime(Curve::Goldilocks) / 2 && curve_prime(Curve::Goldilocks) / 2 < ipow2(63) - 1) by (compute);
        }
    }
}
// bitlen(n) >= k when n >= 2^(k-1)
pub proof fn lemma_bitlen_lower(n: int, k: nat)
    requires k >= 1, n >= ipow2((k - 1) as nat)
    ensures nat_bits(n).len() >= k
    decreases k
{
    lemma_ipow2_mono(0, (k - 1) as nat);
    assert(ipow2(0) == 1);
    assert(n >= 1);
    assert(nat_bits(n).len() == 1 + nat_bits(n / 2).len());
    if k > 1 {
        assert(ipow2((k - 1) as nat) == 2 * ipow2((k - 2) as nat));
        lemma_bitlen_lower(n / 2, (k - 1) as nat);
    }
}
pub proof fn lemma_prime_bits(c: Curve)
    ensures bitlen(curve_prime(c)) == curve_bits(c)
{
    lemma_prime_window(c);
    lemma_bitlen_bound(curve_prime(c), curve_bits(c));
    lemma_bitlen_lower(curve_prime(c), curve_bits(c));
}
// "every k-bit value is non-negative in that curve's field (2^k - 1 <= p/2)" is exactly `k < prime_size - 1`
pub proof fn theorem_threshold(c: Curve, k: nat)
    ensures (ipow2(k) - 1 <= curve_prime(c) / 2) <==> (k < curve_bits(c) - 1)
{
    lemma_prime_window(c);
    let b = curve_bits(c);
    if k < b - 1 {
        lemma_ipow2_mono(k, (b - 2) as nat);
    } else {
        lemma_ipow2_mono((b - 1) as nat, k);
    }
}
