// ---- specification of unit `failreports` (C02): "an error-level report saying so is displayed" — the level and the
// code of the report each failure value turns into. (That the report reaches the display is C03's business.)
// the compiler version `have` supports a file that asks for `want`: same major version, not newer
pub open spec fn version_supported(want: Version, have: Version) -> bool {
    want.0 == have.0 && (want.1 < have.1 || (want.1 == have.1 && want.2 <= have.2))
}
