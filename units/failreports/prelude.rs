// ---- prelude of unit `failreports`: opaque neighbours (T3)
// std::path::Path: only displayed in messages (opaque)
#[verifier::external_body] pub struct Path { _o: Vec<u8> }
pub type FileID = usize;
pub type FileLocation = std::ops::Range<usize>;
pub type Version = (usize, usize, usize);
pub type ReportCollection = Vec<Report>;
// message texts are not part of any claim (R15)
#[verifier::external_body]
fn __vx_format() -> String { unimplemented!() }
#[verifier::external_body]
fn __h_primary_or_default(primary: Option<String>) -> String { unimplemented!() }
// ast::Meta as far as the error types use it
#[verifier::external_body] pub struct Meta { _o: Vec<u8> }
impl Meta {
    #[verifier::external_body] pub fn file_location(&self) -> FileLocation { unimplemented!() }
    #[verifier::external_body] pub fn get_file_id(&self) -> FileID { unimplemented!() }
}
// `Range<usize>::clone`
#[verifier::external_body]
fn __h_clone_loc(loc: &FileLocation) -> (r: FileLocation) ensures r == *loc { unimplemented!() }

// ---- program_structure::report::Report: level, code and number of labels of a report (T2)
#[verifier::external_body] pub struct Report { _o: Vec<u8> }
pub enum Level { Error, Warning, Info }
pub uninterp spec fn rep_level(r: Report) -> Level;
pub uninterp spec fn rep_code(r: Report) -> ReportCode;
impl Report {
    #[verifier::external_body]
    pub fn error(message: String, code: ReportCode) -> (r: Report) ensures rep_level(r) is Error, rep_code(r) == code { unimplemented!() }
    #[verifier::external_body]
    pub fn warning(message: String, code: ReportCode) -> (r: Report) ensures rep_level(r) is Warning, rep_code(r) == code { unimplemented!() }
    #[verifier::external_body]
    pub fn add_primary(&mut self, location: FileLocation, file_id: FileID, message: String)
        ensures rep_level(*final(self)) == rep_level(*old(self)), rep_code(*final(self)) == rep_code(*old(self))
    { unimplemented!() }
    #[verifier::external_body]
    pub fn add_secondary(&mut self, location: FileLocation, file_id: FileID, message: Option<String>)
        ensures rep_level(*final(self)) == rep_level(*old(self)), rep_code(*final(self)) == rep_code(*old(self))
    { unimplemented!() }
    #[verifier::external_body]
    pub fn add_note(&mut self, note: String)
        ensures rep_level(*final(self)) == rep_level(*old(self)), rep_code(*final(self)) == rep_code(*old(self))
    { unimplemented!() }
}
fn __h_no_reports() -> (r: Vec<Report>) ensures r@.len() == 0 { Vec::new() }
fn __h_one_report(report: Report) -> (r: Vec<Report>) ensures r@ == seq![report] { let mut v = Vec::new(); v.push(report); v }
