// ---- specification of unit `timebox` (C20)
pub closed spec fn bb_stmts(b: BasicBlock) -> Seq<Statement> { b.stmts@ }
pub open spec fn seq_sound_d(s: Seq<Statement>, t: int) -> bool { forall|k: int| 0 <= k < s.len() ==> stmt_sound_d(#[trigger] s[k], t) }
pub open spec fn seq_sound_v(s: Seq<Statement>, t: int) -> bool { forall|k: int| 0 <= k < s.len() ==> stmt_sound_v(#[trigger] s[k], t) }
pub open spec fn block_sound_d(b: BasicBlock, t: int) -> bool { seq_sound_d(bb_stmts(b), t) }
pub open spec fn block_sound_v(b: BasicBlock, t: int) -> bool { seq_sound_v(bb_stmts(b), t) }
pub closed spec fn cfg_blocks(c: Cfg) -> Seq<BasicBlock> { c.basic_blocks@ }
pub closed spec fn cfg_params(c: Cfg) -> Seq<VariableName> { c.parameters.param_names@ }
pub closed spec fn cfg_parameters(c: Cfg) -> Parameters { c.parameters }
pub closed spec fn cfg_deftype(c: Cfg) -> DefinitionType { c.definition_type }
pub closed spec fn cfg_is_function(c: Cfg) -> bool { c.definition_type is Function }
pub open spec fn all_sound_d(bs: Seq<BasicBlock>, t: int) -> bool { forall|k: int| 0 <= k < bs.len() ==> block_sound_d(#[trigger] bs[k], t) }
pub open spec fn all_sound_v(bs: Seq<BasicBlock>, t: int) -> bool { forall|k: int| 0 <= k < bs.len() ==> block_sound_v(#[trigger] bs[k], t) }
// the seeding of the environment is sound for t: a function parameter has degree at most linear, a template parameter is constant
pub open spec fn params_ok(c: Cfg, t: int) -> bool {
    forall|k: int| 0 <= k < cfg_params(c).len() ==> claim_ok(#[trigger] cfg_params(c)[k],
        if cfg_is_function(c) { dr_make(Degree::Constant, Degree::Linear) } else { dr_make(Degree::Constant, Degree::Constant) }, t)
}
