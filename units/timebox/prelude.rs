// ---- prelude of unit `timebox`: opaque neighbours (T3)
use std::collections::HashSet;
use vstd::std_specs::iter::IteratorSpec;

pub type Index = usize;
pub type IndexSet = HashSet<Index>;

#[verifier::external_body] pub struct Meta { _o: Vec<u8> }
#[verifier::external_body] pub struct VariableName { _o: Vec<u8> }
#[verifier::external_body] pub struct UsefulConstants { _o: Vec<u8> }
#[verifier::external_body] pub struct Declarations { _o: Vec<u8> }
#[verifier::external_body] #[verifier::reject_recursive_types(T)] pub struct DominatorTree<T> { _o: Vec<T> }
pub struct Parameters { pub param_names: Vec<VariableName> }   // the one field the extracted code reads (after R7)
pub enum VariableType { Local, Component, AnonymousComponent, Signal }

// the wall clock: arbitrary results, so `start.elapsed() > MAX_ANALYSIS_DURATION` may be true at any iteration
#[verifier::external_body] pub struct Instant { _o: Vec<u8> }
pub struct Duration { pub secs: u64 }   // model: only constructed by from_secs and by the arbitrary clock
impl Instant {
    #[verifier::external_body] pub fn now() -> Instant { unimplemented!() }
    #[verifier::external_body] pub fn elapsed(&self) -> Duration { unimplemented!() }
}
impl Duration {
    pub const fn from_secs(secs: u64) -> Duration { Duration { secs } }
}
impl PartialEq for Duration {
    #[verifier::external_body] fn eq(&self, other: &Duration) -> bool { unimplemented!() }
}
impl PartialOrd for Duration {
    #[verifier::external_body] fn partial_cmp(&self, other: &Duration) -> Option<std::cmp::Ordering> { unimplemented!() }
}

// ---- abstract soundness: t ranges over "truth" valuations (the real degree / value of every variable)
pub uninterp spec fn claim_ok(v: VariableName, r: DegreeRange, t: int) -> bool;     // truth t gives v a degree <= the upper end of r
pub uninterp spec fn stmt_sound_d(s: Statement, t: int) -> bool;                    // every degree annotation inside s is sound for t
pub uninterp spec fn stmt_sound_v(s: Statement, t: int) -> bool;                    // every constant annotation inside s is sound for t
pub uninterp spec fn venv_sound(e: ValueEnvironment, t: int) -> bool;

// degree environment: a map from names to ranges (model of the HashMap in degree_meta.rs)
#[verifier::external_body] pub struct DegreeEnvironment { _o: Vec<u8> }
pub uninterp spec fn denv_map(e: DegreeEnvironment) -> Map<VariableName, DegreeRange>;
pub open spec fn denv_sound(e: DegreeEnvironment, t: int) -> bool {
    forall|v: VariableName| denv_map(e).dom().contains(v) ==> claim_ok(v, #[trigger] denv_map(e)[v], t)
}
impl DegreeEnvironment {
    #[verifier::external_body]
    pub fn new() -> (r: DegreeEnvironment) ensures denv_map(r) == Map::<VariableName, DegreeRange>::empty() { unimplemented!() }
    #[verifier::external_body]
    pub fn set_degree(&mut self, var: &VariableName, range: &DegreeRange) -> (r: bool)
        ensures denv_map(*final(self)) == denv_map(*old(self)).insert(*var, *range)
    { unimplemented!() }
    #[verifier::external_body]
    pub fn set_type(&mut self, var: &VariableName, var_type: &VariableType)
        ensures denv_map(*final(self)) == denv_map(*old(self))
    { unimplemented!() }
}

#[verifier::external_body] pub struct ValueEnvironment { _o: Vec<u8> }
impl ValueEnvironment {
    // an empty environment claims nothing
    #[verifier::external_body]
    pub fn new(constants: &UsefulConstants) -> (r: ValueEnvironment) ensures forall|t: int| venv_sound(r, t) { unimplemented!() }
}

// ---- the per-statement soundness contracts: ASSUMED here (open cross-unit assumption; C06/C07 stage 2 would discharge them)
#[verifier::external_body] pub struct Statement { _o: Vec<u8> }
impl Statement {
    #[verifier::external_body]
    pub fn propagate_degrees(&mut self, env: &mut DegreeEnvironment) -> (r: bool)
        ensures forall|t: int| denv_sound(*old(env), t) && stmt_sound_d(*old(self), t) ==> denv_sound(*final(env), t) && stmt_sound_d(*final(self), t)
    { unimplemented!() }
    #[verifier::external_body]
    pub fn propagate_values(&mut self, env: &mut ValueEnvironment) -> (r: bool)
        ensures forall|t: int| venv_sound(*old(env), t) && stmt_sound_v(*old(self), t) ==> venv_sound(*final(env), t) && stmt_sound_v(*final(self), t)
    { unimplemented!() }
}

// ---- Cfg::unassigned_locals (iterator adapters over the declaration map and the statements): the local variables that are
// declared and never assigned. TRUSTED semantic contract: such a variable holds the initial value zero in every execution, so
// the claim `constant` is sound for it in every valuation in which the definition's unassigned locals are zero (`unassigned_ok`).
pub uninterp spec fn unassigned_ok(c: Cfg, t: int) -> bool;
impl Cfg {
    #[verifier::external_body]
    fn unassigned_locals(&self) -> (r: Vec<VariableName>)
        ensures forall|t: int, k: int| #![trigger claim_ok(r@[k], dr_make(Degree::Constant, Degree::Constant), t)]
            unassigned_ok(*self, t) && 0 <= k < r@.len() ==> claim_ok(r@[k], dr_make(Degree::Constant, Degree::Constant), t)
    { unimplemented!() }
}
