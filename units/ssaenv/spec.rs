// ---- specification of unit `ssaenv` (C14, the version bookkeeping): "every versioned local has at most one defining
// statement ... each read names the version that was most recently assigned ... Signals and components are left
// unversioned" — at the level of the environment and of one statement.
pub type VMap = Seq<Map<Seq<char>, Version>>;
pub closed spec fn scoped(e: Environment) -> VMap { ve_blocks(e.scoped_versions) }
pub closed spec fn global(e: Environment) -> VMap { ve_blocks(e.global_versions) }
pub closed spec fn env_decls(e: Environment) -> Declarations { e.declarations }
pub open spec fn env_ok(e: Environment) -> bool { scoped(e).len() > 0 && global(e).len() > 0 && locals_only(e) }
// only local variables are ever given versions (parameters are locals)
pub open spec fn locals_only(e: Environment) -> bool {
    forall|n: VariableName| #![trigger current(e, n)] current(e, n) is Some ==> is_local_var(e, vn_base(n))
}
pub open spec fn is_local_var(e: Environment, n: VariableName) -> bool { decl_type(env_decls(e), n) == Some(VariableType::Local) }
pub open spec fn kof(n: VariableName) -> Seq<char> { key_of(vn_base(n)) }
// the current (scoped) and the highest (global) version of a variable
pub open spec fn current(e: Environment, n: VariableName) -> Option<Version> { lookup(scoped(e), kof(n)) }
pub open spec fn highest(e: Environment, n: VariableName) -> Option<Version> { lookup(global(e), kof(n)) }
// every current version has been handed out: it is at most the highest one
pub open spec fn versions_consistent(e: Environment) -> bool {
    forall|k: Seq<char>| #![trigger lookup(scoped(e), k)] lookup(scoped(e), k) matches Some(c) ==> (lookup(global(e), k) matches Some(h) && c <= h)
}
// what handing out a version for `n` does: the new version exceeds every version handed out for it before, becomes the
// highest and the current one; no other variable is affected
pub open spec fn bumped(e0: Environment, e1: Environment, n: VariableName, v: Version) -> bool {
    &&& v == (match highest(e0, n) { Some(h) => (h + 1) as usize, None => 0usize })
    &&& current(e1, n) == Some(v) && highest(e1, n) == Some(v)
    &&& forall|k: Seq<char>| #![trigger lookup(scoped(e1), k)] k != kof(n) ==> lookup(scoped(e1), k) == lookup(scoped(e0), k)
    &&& forall|k: Seq<char>| #![trigger lookup(global(e1), k)] k != kof(n) ==> lookup(global(e1), k) == lookup(global(e0), k)
    &&& scoped(e1).len() == scoped(e0).len() && global(e1).len() == global(e0).len() && env_decls(e1) == env_decls(e0)
}
// resource bound: versions stay below usize::MAX
pub open spec fn room(e: Environment, k: int) -> bool {
    k < usize::MAX && forall|x: Seq<char>| #![trigger lookup(global(e), x)] lookup(global(e), x) matches Some(h) ==> h + k < usize::MAX
}

// ---- statements
pub open spec fn is_phi_s(s: Statement) -> bool { s matches Statement::Substitution { rhe, .. } && rhe is Phi }
pub open spec fn written_var(s: Statement) -> Option<VariableName> { match s { Statement::Substitution { var, .. } => Some(var), _ => None } }
pub open spec fn phi_args_s(s: Statement) -> Seq<VariableName> {
    match s { Statement::Substitution { rhe, .. } => match rhe { Expression::Phi { args, .. } => args@, _ => Seq::empty() }, _ => Seq::empty() }
}
// the metadata passes leave names, versions and the phi structure alone
pub open spec fn same_names(a: Statement, b: Statement) -> bool {
    &&& written_var(a) == written_var(b) && is_phi_s(a) == is_phi_s(b) && phi_args_s(a) == phi_args_s(b)
    &&& (a is Substitution) == (b is Substitution)
    &&& forall|e: Environment| #![trigger rhe_current(b, e)] rhe_current(a, e) == rhe_current(b, e)
}
pub open spec fn rhe_current(s: Statement, e: Environment) -> bool {
    match s { Statement::Substitution { rhe, .. } => reads_current(rhe, e), _ => true }
}
pub closed spec fn bb_stmts(b: BasicBlock) -> Seq<Statement> { b.stmts@ }

// ---- expressions: which version a read names
pub open spec fn name_ok(n: VariableName, e: Environment) -> bool {
    if is_local_var(e, vn_base(n)) { vn_version(n) is Some && vn_version(n) == current(e, n) } else { vn_version(n) is None }
}
pub open spec fn reads_current(x: Expression, e: Environment) -> bool
    decreases x
{
    match x {
        Expression::Variable { name, .. } => name_ok(name, e),
        Expression::Access { var, access, .. } => name_ok(var, e) && all_access_current(access@, access@.len() as int, e),
        Expression::Update { var, access, rhe, .. } => name_ok(var, e) && all_access_current(access@, access@.len() as int, e) && reads_current(*rhe, e),
        Expression::PrefixOp { rhe, .. } => reads_current(*rhe, e),
        Expression::InfixOp { lhe, rhe, .. } => reads_current(*lhe, e) && reads_current(*rhe, e),
        Expression::SwitchOp { cond, if_true, if_false, .. } => reads_current(*cond, e) && reads_current(*if_true, e) && reads_current(*if_false, e),
        Expression::Call { args, .. } => all_current(args@, args@.len() as int, e),
        Expression::InlineArray { values, .. } => all_current(values@, values@.len() as int, e),
        _ => true,
    }
}
pub open spec fn all_current(s: Seq<Expression>, n: int, e: Environment) -> bool
    decreases s, n
{
    if n <= 0 || n > s.len() { true } else { all_current(s, n - 1, e) && reads_current(s[n - 1], e) }
}
pub open spec fn all_access_current(s: Seq<AccessType>, n: int, e: Environment) -> bool
    decreases s, n
{
    if n <= 0 || n > s.len() { true } else {
        all_access_current(s, n - 1, e) && (match s[n - 1] { AccessType::ArrayAccess(i) => reads_current(*i, e), _ => true })
    }
}
// no name carries a version yet (phi arguments are filled in by a later pass)
pub open spec fn unversioned(x: Expression) -> bool
    decreases x
{
    match x {
        Expression::Variable { name, .. } => vn_version(name) is None,
        Expression::Access { var, access, .. } => vn_version(var) is None && all_access_unversioned(access@, access@.len() as int),
        Expression::Update { var, access, rhe, .. } => vn_version(var) is None && all_access_unversioned(access@, access@.len() as int) && unversioned(*rhe),
        Expression::PrefixOp { rhe, .. } => unversioned(*rhe),
        Expression::InfixOp { lhe, rhe, .. } => unversioned(*lhe) && unversioned(*rhe),
        Expression::SwitchOp { cond, if_true, if_false, .. } => unversioned(*cond) && unversioned(*if_true) && unversioned(*if_false),
        Expression::Call { args, .. } => all_unversioned(args@, args@.len() as int),
        Expression::InlineArray { values, .. } => all_unversioned(values@, values@.len() as int),
        _ => true,
    }
}
pub open spec fn all_unversioned(s: Seq<Expression>, n: int) -> bool
    decreases s, n
{
    if n <= 0 || n > s.len() { true } else { all_unversioned(s, n - 1) && unversioned(s[n - 1]) }
}
pub open spec fn all_access_unversioned(s: Seq<AccessType>, n: int) -> bool
    decreases s, n
{
    if n <= 0 || n > s.len() { true } else { all_access_unversioned(s, n - 1) && (match s[n - 1] { AccessType::ArrayAccess(i) => unversioned(*i), _ => true }) }
}
// how the environment may move while an expression is renamed: current versions that exist stay; nothing is forgotten
pub open spec fn env_step(e0: Environment, e1: Environment) -> bool {
    &&& forall|k: Seq<char>| #![trigger lookup(scoped(e1), k)] lookup(scoped(e0), k) is Some ==> lookup(scoped(e1), k) == lookup(scoped(e0), k)
    // a variable that has a current version is not handed a new one while an expression is renamed
    &&& forall|k: Seq<char>| #![trigger lookup(global(e1), k)] lookup(scoped(e0), k) is Some ==> lookup(global(e1), k) == lookup(global(e0), k)
    &&& scoped(e1).len() == scoped(e0).len() && global(e1).len() == global(e0).len() && env_decls(e1) == env_decls(e0)
}
// statement-level verdict: every read names the version current BEFORE the statement's own write; the written local
// gets a version that exceeds all versions handed out for it before
pub open spec fn subst_ok(s0: Statement, s1: Statement, e0: Environment, e1: Environment) -> bool {
    match (s0, s1) {
        (Statement::Substitution { var: v0, rhe: r0, .. }, Statement::Substitution { var: v1, rhe: r1, .. }) =>
            exists|em: Environment| #![trigger env_step(e0, em)] env_step(e0, em) && reads_current(r1, em) && vn_base(v1) == vn_base(v0)
                && (if is_local_var(e0, v0) { vn_version(v1) is Some && bumped(em, e1, v0, vn_version(v1).unwrap()) } else { v1 == v0 && e1 == em }),
        _ => false,
    }
}
pub open spec fn log_unversioned(s: Seq<LogArgument>, n: int) -> bool
    decreases s, n
{
    if n <= 0 || n > s.len() { true } else { log_unversioned(s, n - 1) && (match s[n - 1] { LogArgument::Expr(x) => unversioned(*x), _ => true }) }
}
pub open spec fn stmt_unversioned(s: Statement) -> bool {
    match s {
        Statement::Declaration { dimensions, .. } => all_unversioned(dimensions@, dimensions@.len() as int),
        Statement::Substitution { var, rhe, .. } => vn_version(var) is None && unversioned(rhe),
        Statement::ConstraintEquality { lhe, rhe, .. } => unversioned(lhe) && unversioned(rhe),
        Statement::LogCall { args, .. } => log_unversioned(args@, args@.len() as int),
        Statement::IfThenElse { cond, .. } => unversioned(cond),
        Statement::Return { value, .. } => unversioned(value),
        Statement::Assert { arg, .. } => unversioned(arg),
    }
}
// number of Update nodes: each may hand out one version (the first write of an array)
pub open spec fn upd_count(x: Expression) -> nat
    decreases x
{
    match x {
        Expression::Access { access, .. } => upd_access(access@, access@.len() as int),
        Expression::Update { access, rhe, .. } => 1 + upd_access(access@, access@.len() as int) + upd_count(*rhe),
        Expression::PrefixOp { rhe, .. } => upd_count(*rhe),
        Expression::InfixOp { lhe, rhe, .. } => upd_count(*lhe) + upd_count(*rhe),
        Expression::SwitchOp { cond, if_true, if_false, .. } => upd_count(*cond) + upd_count(*if_true) + upd_count(*if_false),
        Expression::Call { args, .. } => upd_list(args@, args@.len() as int),
        Expression::InlineArray { values, .. } => upd_list(values@, values@.len() as int),
        _ => 0,
    }
}
pub open spec fn upd_list(s: Seq<Expression>, n: int) -> nat
    decreases s, n
{
    if n <= 0 || n > s.len() { 0 } else { upd_list(s, n - 1) + upd_count(s[n - 1]) }
}
pub open spec fn upd_access(s: Seq<AccessType>, n: int) -> nat
    decreases s, n
{
    if n <= 0 || n > s.len() { 0 } else { upd_access(s, n - 1) + (match s[n - 1] { AccessType::ArrayAccess(i) => upd_count(*i), _ => 0 }) }
}
pub open spec fn room_step(e0: Environment, e1: Environment, c: nat) -> bool {
    forall|k: int| #![trigger room(e1, k)] k >= 0 && room(e0, k + c) ==> room(e1, k)
}
pub proof fn lemma_all_unversioned_elem(s: Seq<Expression>, n: int, k: int)
    requires all_unversioned(s, n), 0 <= k < n <= s.len()
    ensures unversioned(s[k])
    decreases n
{
    if k < n - 1 { lemma_all_unversioned_elem(s, n - 1, k); }
}
pub proof fn lemma_log_unversioned_elem(s: Seq<LogArgument>, n: int, k: int)
    requires log_unversioned(s, n), 0 <= k < n <= s.len()
    ensures s[k] matches LogArgument::Expr(x) ==> unversioned(*x)
    decreases n
{
    if k < n - 1 { lemma_log_unversioned_elem(s, n - 1, k); }
}

// ---- lemmas for visit_expression
pub proof fn lemma_env_step_trans(e0: Environment, e1: Environment, e2: Environment)
    requires env_step(e0, e1), env_step(e1, e2)
    ensures env_step(e0, e2)
{
    assert forall|k: Seq<char>| #![trigger lookup(scoped(e2), k)] lookup(scoped(e0), k) is Some implies lookup(scoped(e2), k) == lookup(scoped(e0), k) by {
        assert(lookup(scoped(e1), k) == lookup(scoped(e0), k));
    }
    assert forall|k: Seq<char>| #![trigger lookup(global(e2), k)] lookup(scoped(e0), k) is Some implies lookup(global(e2), k) == lookup(global(e0), k) by {
        assert(lookup(scoped(e1), k) == lookup(scoped(e0), k));
        assert(lookup(global(e1), k) == lookup(global(e0), k));
    }
}
pub proof fn lemma_env_step_refl(e: Environment)
    ensures env_step(e, e), room_step(e, e, 0)
{}
pub proof fn lemma_room_trans(e0: Environment, e1: Environment, e2: Environment, c1: nat, c2: nat)
    requires room_step(e0, e1, c1), room_step(e1, e2, c2)
    ensures room_step(e0, e2, c1 + c2)
{
    assert forall|k: int| #![trigger room(e2, k)] k >= 0 && room(e0, k + (c1 + c2)) implies room(e2, k) by { assert(room(e1, k + c2)); }
}
pub proof fn lemma_room_weaken(e: Environment, k: int, j: int)
    requires room(e, k), 0 <= j <= k
    ensures room(e, j)
{
    assert forall|x: Seq<char>| #![trigger lookup(global(e), x)] (lookup(global(e), x) matches Some(h) ==> h + j < usize::MAX) by {}
}
pub proof fn lemma_room_more(e0: Environment, e1: Environment, c: nat, d: nat)
    requires room_step(e0, e1, c), c <= d
    ensures room_step(e0, e1, d)
{
    assert forall|k: int| #![trigger room(e1, k)] k >= 0 && room(e0, k + d) implies room(e1, k) by { lemma_room_weaken(e0, k + d, k + c); }
}
// a name that is current stays current when the environment moves on
pub proof fn lemma_reads_mono(x: Expression, e0: Environment, e1: Environment)
    requires reads_current(x, e0), env_step(e0, e1)
    ensures reads_current(x, e1)
    decreases x
{
    match x {
        Expression::Access { access, .. } => { lemma_access_mono(access@, access@.len() as int, e0, e1); }
        Expression::Update { access, rhe, .. } => { lemma_access_mono(access@, access@.len() as int, e0, e1); lemma_reads_mono(*rhe, e0, e1); }
        Expression::PrefixOp { rhe, .. } => { lemma_reads_mono(*rhe, e0, e1); }
        Expression::InfixOp { lhe, rhe, .. } => { lemma_reads_mono(*lhe, e0, e1); lemma_reads_mono(*rhe, e0, e1); }
        Expression::SwitchOp { cond, if_true, if_false, .. } => { lemma_reads_mono(*cond, e0, e1); lemma_reads_mono(*if_true, e0, e1); lemma_reads_mono(*if_false, e0, e1); }
        Expression::Call { args, .. } => { lemma_list_mono(args@, args@.len() as int, e0, e1); }
        Expression::InlineArray { values, .. } => { lemma_list_mono(values@, values@.len() as int, e0, e1); }
        _ => {}
    }
}
pub proof fn lemma_list_mono(s: Seq<Expression>, n: int, e0: Environment, e1: Environment)
    requires all_current(s, n, e0), env_step(e0, e1)
    ensures all_current(s, n, e1)
    decreases s, n
{
    if !(n <= 0 || n > s.len()) { lemma_list_mono(s, n - 1, e0, e1); lemma_reads_mono(s[n - 1], e0, e1); }
}
pub proof fn lemma_access_mono(s: Seq<AccessType>, n: int, e0: Environment, e1: Environment)
    requires all_access_current(s, n, e0), env_step(e0, e1)
    ensures all_access_current(s, n, e1)
    decreases s, n
{
    if !(n <= 0 || n > s.len()) {
        lemma_access_mono(s, n - 1, e0, e1);
        match s[n - 1] { AccessType::ArrayAccess(i) => { lemma_reads_mono(*i, e0, e1); } _ => {} }
    }
}
pub proof fn lemma_access_unversioned_elem(s: Seq<AccessType>, n: int, k: int)
    requires all_access_unversioned(s, n), 0 <= k < n <= s.len()
    ensures s[k] matches AccessType::ArrayAccess(i) ==> unversioned(*i)
    decreases n
{
    if k < n - 1 { lemma_access_unversioned_elem(s, n - 1, k); }
}
pub proof fn lemma_upd_list_mono(s: Seq<Expression>, i: int, n: int)
    requires 0 <= i <= n <= s.len()
    ensures upd_list(s, i) <= upd_list(s, n)
    decreases n - i
{ if i < n { lemma_upd_list_mono(s, i, n - 1); } }
pub proof fn lemma_upd_access_mono(s: Seq<AccessType>, i: int, n: int)
    requires 0 <= i <= n <= s.len()
    ensures upd_access(s, i) <= upd_access(s, n)
    decreases n - i
{ if i < n { lemma_upd_access_mono(s, i, n - 1); } }
// an unversioned name is its own base
pub proof fn lemma_unversioned_is_base(n: VariableName)
    requires vn_version(n) is None
    ensures vn_base(n) == n
{
    axiom_vn(n); axiom_vn(vn_base(n));
}
pub open spec fn access_ok(a: AccessType, e: Environment) -> bool { match a { AccessType::ArrayAccess(i) => reads_current(*i, e), _ => true } }
pub proof fn lemma_access_ok_mono(a: AccessType, e0: Environment, e1: Environment)
    requires access_ok(a, e0), env_step(e0, e1)
    ensures access_ok(a, e1)
{
    match a { AccessType::ArrayAccess(i) => { lemma_reads_mono(*i, e0, e1); } _ => {} }
}
pub proof fn lemma_access_all(s: Seq<AccessType>, n: int, e: Environment)
    requires 0 <= n <= s.len(), forall|k: int| 0 <= k < n ==> access_ok(#[trigger] s[k], e)
    ensures all_access_current(s, n, e)
    decreases n
{
    if n > 0 { lemma_access_all(s, n - 1, e); }
}
pub proof fn lemma_list_all(s: Seq<Expression>, n: int, e: Environment)
    requires 0 <= n <= s.len(), forall|k: int| 0 <= k < n ==> reads_current(#[trigger] s[k], e)
    ensures all_current(s, n, e)
    decreases n
{
    if n > 0 { lemma_list_all(s, n - 1, e); }
}
// handing out the first version of a variable that has no current version moves the environment on
pub proof fn lemma_bump_locals(e0: Environment, e1: Environment, n: VariableName, v: Version)
    requires bumped(e0, e1, n, v), env_ok(e0), is_local_var(e0, vn_base(n))
    ensures env_ok(e1)
{
    assert forall|m: VariableName| #![trigger current(e1, m)] current(e1, m) is Some implies is_local_var(e1, vn_base(m)) by {
        if kof(m) == kof(n) { axiom_key_injective(m, n); } else { assert(current(e1, m) == current(e0, m)); }
    }
}
pub proof fn lemma_bump_step(e0: Environment, e1: Environment, n: VariableName, v: Version)
    requires bumped(e0, e1, n, v), current(e0, n) is None, env_ok(e0), is_local_var(e0, vn_base(n))
    ensures env_step(e0, e1), room_step(e0, e1, 1), env_ok(e1)
{
    lemma_bump_locals(e0, e1, n, v);
    assert forall|k: int| #![trigger room(e1, k)] k >= 0 && room(e0, k + 1) implies room(e1, k) by {
        assert forall|x: Seq<char>| #![trigger lookup(global(e1), x)] (lookup(global(e1), x) matches Some(h) ==> h + k < usize::MAX) by {
            if x == kof(n) { let _y = lookup(global(e0), x); } else { assert(lookup(global(e1), x) == lookup(global(e0), x)); }
        }
    }
}
// composition, stated for every later environment (for arms whose last call is in tail position)
pub proof fn lemma_compose(x: Expression, e0: Environment, e1: Environment, c1: nat)
    requires env_step(e0, e1), room_step(e0, e1, c1), reads_current(x, e1)
    ensures
        forall|e2: Environment| #![trigger env_step(e1, e2)] env_step(e1, e2) ==> env_step(e0, e2) && reads_current(x, e2),
        forall|e2: Environment, c2: nat| #![trigger room_step(e1, e2, c2)] room_step(e1, e2, c2) ==> room_step(e0, e2, c1 + c2),
{
    assert forall|e2: Environment| #![trigger env_step(e1, e2)] env_step(e1, e2) implies env_step(e0, e2) && reads_current(x, e2) by {
        lemma_env_step_trans(e0, e1, e2); lemma_reads_mono(x, e1, e2);
    }
    assert forall|e2: Environment, c2: nat| #![trigger room_step(e1, e2, c2)] room_step(e1, e2, c2) implies room_step(e0, e2, c1 + c2) by {
        lemma_room_trans(e0, e1, e2, c1, c2);
    }
}
pub open spec fn upd_log(s: Seq<LogArgument>, n: int) -> nat
    decreases s, n
{
    if n <= 0 || n > s.len() { 0 } else { upd_log(s, n - 1) + (match s[n - 1] { LogArgument::Expr(x) => upd_count(*x), _ => 0 }) }
}
pub open spec fn stmt_upd(s: Statement) -> nat {
    match s {
        Statement::Declaration { dimensions, .. } => upd_list(dimensions@, dimensions@.len() as int),
        Statement::Substitution { rhe, .. } => upd_count(rhe) + 1,
        Statement::ConstraintEquality { lhe, rhe, .. } => upd_count(lhe) + upd_count(rhe),
        Statement::LogCall { args, .. } => upd_log(args@, args@.len() as int),
        Statement::IfThenElse { cond, .. } => upd_count(cond),
        Statement::Return { value, .. } => upd_count(value),
        Statement::Assert { arg, .. } => upd_count(arg),
    }
}
pub proof fn lemma_upd_log_mono(s: Seq<LogArgument>, i: int, n: int)
    requires 0 <= i <= n <= s.len()
    ensures upd_log(s, i) <= upd_log(s, n)
    decreases n - i
{ if i < n { lemma_upd_log_mono(s, i, n - 1); } }
