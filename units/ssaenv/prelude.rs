// ---- prelude of unit `ssaenv`: opaque neighbours (T3)
use std::collections::HashSet;
use std::ops::Range;
pub type FileID = usize;
pub type FileLocation = std::ops::Range<usize>;
pub type Index = usize;
pub type IndexSet = HashSet<Index>;
pub type TagList = Vec<String>;
#[verifier::external_body] pub struct BigInt { _o: Vec<u8> }
#[verifier::external_body] pub struct Meta { _o: Vec<u8> }
#[verifier::external_body] pub struct Declarations { _o: Vec<u8> }
#[verifier::external_body] #[verifier::accept_recursive_types(T)] pub struct NonEmptyVec<T> { _o: Vec<T> }
pub struct Config {}

// ---- ir::VariableName: (name, suffix) identify the variable, the version its SSA incarnation (T2)
#[verifier::external_body] pub struct VariableName { _o: Vec<u8> }
pub uninterp spec fn vn_base(v: VariableName) -> VariableName;          // the same name and suffix, no version
pub uninterp spec fn vn_version(v: VariableName) -> Option<usize>;
pub uninterp spec fn vn_make(base: VariableName, version: Option<usize>) -> VariableName;
// a name is its base plus its version
#[verifier::external_body]
pub proof fn axiom_vn(v: VariableName)
    ensures v == vn_make(vn_base(v), vn_version(v)), vn_version(vn_base(v)) is None, vn_base(vn_base(v)) == vn_base(v)
{}
#[verifier::external_body]
pub proof fn axiom_vn_make(b: VariableName, ver: Option<usize>)
    ensures vn_base(vn_make(b, ver)) == vn_base(b), vn_version(vn_make(b, ver)) == ver
{}
impl VariableName {
    #[verifier::external_body]
    pub fn version(&self) -> (r: &Option<usize>) ensures *r == vn_version(*self) { unimplemented!() }
    #[verifier::external_body]
    pub fn with_version(&self, version: usize) -> (r: VariableName)
        ensures r == vn_make(vn_base(*self), Some(version)), vn_base(r) == vn_base(*self), vn_version(r) == Some(version)
    { unimplemented!() }
    #[verifier::external_body]
    pub fn without_version(&self) -> (r: VariableName) ensures r == vn_base(*self), vn_version(r) is None, vn_base(r) == vn_base(*self) { unimplemented!() }
    #[verifier::external_body]
    pub fn to_string(&self) -> String { unimplemented!() }
}
impl PartialEq for VariableName {
    #[verifier::external_body]
    fn eq(&self, other: &VariableName) -> (r: bool) ensures r == (*self == *other) { unimplemented!() }
}
impl Clone for VariableName { #[verifier::external_body] fn clone(&self) -> (r: VariableName) ensures r == *self { unimplemented!() } }

// `version_key`: name and suffix joined by a dot — one key per (name, suffix), whatever the version (the body is
// `match name.suffix() { Some(s) => format!("{}.{}", name.name(), s), None => name.name().clone() }`)
pub uninterp spec fn key_of(base: VariableName) -> Seq<char>;
#[verifier::external_body]
pub proof fn axiom_key_injective(a: VariableName, b: VariableName)
    requires key_of(vn_base(a)) == key_of(vn_base(b))
    ensures vn_base(a) == vn_base(b)
{}

// ---- Meta, Declarations
impl Meta {
    #[verifier::external_body] pub fn default() -> Meta { unimplemented!() }
    #[verifier::external_body] pub fn file_id(&self) -> Option<FileID> { unimplemented!() }
    #[verifier::external_body] pub fn file_location(&self) -> FileLocation { unimplemented!() }
}
pub uninterp spec fn decl_type(d: Declarations, v: VariableName) -> Option<VariableType>;
impl Declarations {
    #[verifier::external_body]
    pub fn get_type(&self, name: &VariableName) -> (r: Option<&VariableType>)
        ensures r is Some <==> decl_type(*self, *name) is Some, r is Some ==> *r.unwrap() == decl_type(*self, *name).unwrap()
    { unimplemented!() }
}

// ---- the traits of static_single_assignment/traits.rs, restricted to the methods under contract here
pub trait SSAEnvironment {
    spec fn scope_pre(&self) -> bool;
    fn add_variable_scope(&mut self);
    fn remove_variable_scope(&mut self) requires old(self).scope_pre();
}
pub trait SSAStatement<Cfg>: Sized {
    spec fn ssa_pre(&self, env: &Environment) -> bool;
    spec fn phi_pre(&self, env: &Environment) -> bool;
    fn new_phi_statement(name: &VariableName, env: &Environment) -> Self;
    fn is_phi_statement(&self) -> bool;
    fn is_phi_statement_for(&self, var: &VariableName) -> bool;
    fn ensure_phi_argument(&mut self, env: &Environment) requires old(self).phi_pre(env);
    fn insert_ssa_variables(&mut self, env: &mut Environment) -> SSAResult<()> requires old(self).ssa_pre(&*old(env));
}

// ---- metadata passes run after each change of a statement (type propagation, variable-use caches): names, versions
// and structure are left alone (T3)
impl Statement {
    #[verifier::external_body]
    pub fn propagate_types(&mut self, vars: &Declarations)
        ensures same_names(*old(self), *final(self))
    { unimplemented!() }
    #[verifier::external_body]
    pub fn cache_variable_use(&mut self)
        ensures same_names(*old(self), *final(self))
    { unimplemented!() }
}

#[verifier::external_body]
fn __h_version_key(name: &VariableName) -> (r: String) ensures r@ == key_of(vn_base(*name)) { unimplemented!() }

// `args.iter().any(|arg| matches!(arg.version(), &Some(v) if v == env_version))`
#[verifier::external_body]
fn __h_has_version(args: &Vec<VariableName>, version: usize) -> (r: bool)
    ensures r == exists|k: int| 0 <= k < args@.len() && vn_version(#[trigger] args@[k]) == Some(version)
{ unimplemented!() }

#[verifier::external_body]
fn __h_vn_eq(a: &VariableName, b: &VariableName) -> (r: bool) ensures r == (*a == *b) { unimplemented!() }
