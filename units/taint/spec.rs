// ---- specification of unit `taint` (C09, the closure the dead-value claims stand on)
pub closed spec fn step(t: TaintAnalysis, s: VariableName) -> Set<VariableName> { sinks_of(tm(t.taint_map), s) }
// `r` contains `source` and everything it taints in one step, and so on: no taint path leaves r
pub open spec fn closed_from(t: TaintAnalysis, source: VariableName, r: Set<VariableName>) -> bool {
    r.contains(source) && forall|x: VariableName, y: VariableName| #![trigger r.contains(x), step(t, x).contains(y)] r.contains(x) && step(t, x).contains(y) ==> r.contains(y)
}
// y is reachable from x by n single taint steps
pub open spec fn reach(t: TaintAnalysis, x: VariableName, y: VariableName, n: nat) -> bool
    decreases n
{
    if n == 0 { x == y } else { exists|z: VariableName| reach(t, x, z, (n - 1) as nat) && #[trigger] step(t, z).contains(y) }
}
// a set closed from the source contains everything reachable from it — whatever the path length
pub proof fn theorem_closure_contains_reachable(t: TaintAnalysis, source: VariableName, r: Set<VariableName>, y: VariableName, n: nat)
    requires closed_from(t, source, r), reach(t, source, y, n)
    ensures r.contains(y)
    decreases n
{
    if n > 0 {
        let z = choose|z: VariableName| reach(t, source, z, (n - 1) as nat) && #[trigger] step(t, z).contains(y);
        theorem_closure_contains_reachable(t, source, r, z, (n - 1) as nat);
    }
}
