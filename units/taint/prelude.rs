// ---- prelude of unit `taint`: opaque neighbours (T3)
use std::collections::{HashMap, HashSet};
broadcast use vstd::std_specs::hash::group_hash_axioms;
#[verifier::external_body] pub struct VariableName { _o: Vec<u8> }
#[verifier::external_body] pub struct VariableUse { _o: Vec<u8> }
impl PartialEq for VariableName { #[verifier::external_body] fn eq(&self, other: &VariableName) -> bool { unimplemented!() } }
impl Eq for VariableName {}
impl std::hash::Hash for VariableName { #[verifier::external_body] fn hash<H: std::hash::Hasher>(&self, state: &mut H) { unimplemented!() } }
impl Clone for VariableName { #[verifier::external_body] fn clone(&self) -> (r: VariableName) ensures r == *self { unimplemented!() } }
#[verifier::external_body]
pub proof fn axiom_name_key_model()
    ensures vstd::std_specs::hash::obeys_key_model::<VariableName>()
{}
#[verifier::external_body]
fn __h_clone_name(n: &VariableName) -> (r: VariableName) ensures r == *n { unimplemented!() }

// the taint map: HashMap<VariableName, HashSet<VariableName>> read as "the set of direct sinks of each source" (T2)
pub uninterp spec fn tm(m: HashMap<VariableName, HashSet<VariableName>>) -> Map<VariableName, Set<VariableName>>;
pub open spec fn sinks_of(m: Map<VariableName, Set<VariableName>>, s: VariableName) -> Set<VariableName> {
    if m.dom().contains(s) { m[s] } else { Set::empty() }
}
// `self.taint_map.entry(source.clone()).or_default()`: the (possibly new, empty) entry of `source`
#[verifier::external_body]
fn __h_entry_or_default<'a>(m: &'a mut HashMap<VariableName, HashSet<VariableName>>, source: &VariableName) -> (r: &'a mut HashSet<VariableName>)
    ensures
        r@ == sinks_of(tm(*old(m)), *source),
        tm(*final(m)) == tm(*old(m)).insert(*source, final(r)@),
{ unimplemented!() }
// `self.taint_map.get(source).cloned().unwrap_or_default()`
#[verifier::external_body]
fn __h_get_or_empty(m: &HashMap<VariableName, HashSet<VariableName>>, source: &VariableName) -> (r: HashSet<VariableName>)
    ensures r@ == sinks_of(tm(*m), *source)
{ unimplemented!() }
// `HashSet::from([source.clone()])`
#[verifier::external_body]
fn __h_singleton(source: &VariableName) -> (r: HashSet<VariableName>) ensures r@ == set![*source] { unimplemented!() }
#[verifier::external_body]
fn __h_is_subset(a: &HashSet<VariableName>, b: &HashSet<VariableName>) -> (r: bool) ensures r == a@.subset_of(b@) { unimplemented!() }
// `result.extend(update.iter().cloned())`
#[verifier::external_body]
fn __h_extend(result: &mut HashSet<VariableName>, update: &HashSet<VariableName>) ensures final(result)@ == old(result)@.union(update@) { unimplemented!() }
// `update.iter().flat_map(|source| self.single_step_taint(source)).collect()`: the union of the direct sinks of the members
#[verifier::external_body]
fn __h_successors(t: &TaintAnalysis, update: &HashSet<VariableName>) -> (r: HashSet<VariableName>)
    ensures forall|y: VariableName| #![trigger r@.contains(y)] r@.contains(y) <==> exists|x: VariableName| update@.contains(x) && #[trigger] step(*t, x).contains(y)
{ unimplemented!() }
// `closure.iter().any(|sink| sinks.contains(sink))`
#[verifier::external_body]
fn __h_meets(closure: HashSet<VariableName>, sinks: &HashSet<VariableName>) -> (r: bool)
    ensures r == exists|x: VariableName| #[trigger] closure@.contains(x) && sinks@.contains(x)
{ unimplemented!() }
