//! vx — mechanical extractor: pulls named items out of /repo source files with `syn`,
//! applies a closed set of logged rewrite rules (DESIGN.md §2.2), inserts splice markers,
//! and pretty-prints with `prettyplease`. It never invents code: every output token is
//! either a token of the source item, the result of a logged rule, or a `__vx_*` marker
//! that the driver replaces by ghost text (contracts) before Verus sees the file.
//!
//! stdin: JSON config   { "sources": [ { "file": "...", "select": ["fn foo", "impl T", ...],
//!                                       "rules": ["R1","R2","R3","R4"], "derive_keep": [...],
//!                                       "hoist": [ {...} ], "inline": [ {...} ] } ] }
//! stdout: JSON { "items": [...], "log": [...] }

use proc_macro2::{Span, TokenStream};
use quote::{quote, ToTokens};
use serde_json::{json, Value};
use std::collections::BTreeSet;
use std::io::Read;
use syn::visit_mut::{self, VisitMut};
use syn::{parse_quote, Attribute, Expr, ImplItem, Item, Pat, ReturnType, Stmt, Type};

fn norm(ts: &TokenStream) -> String {
    ts.to_string().chars().filter(|c| !c.is_whitespace()).collect()
}

fn die(msg: &str) -> ! {
    eprintln!("vx: {}", msg);
    std::process::exit(2);
}

fn type_last_ident(ty: &Type) -> String {
    match ty {
        Type::Path(p) => p.path.segments.last().map(|s| s.ident.to_string()).unwrap_or_default(),
        Type::Reference(r) => type_last_ident(&r.elem),
        Type::Paren(p) => type_last_ident(&p.elem),
        _ => norm(&ty.to_token_stream()),
    }
}

fn path_last_ident(p: &syn::Path) -> String {
    p.segments.last().map(|s| s.ident.to_string()).unwrap_or_default()
}

#[derive(Clone, Debug)]
struct Selector {
    raw: String,
    kind: String,          // fn enum struct const static type trait impl use
    name: String,          // item name, or type name for impl
    trait_name: Option<String>,
    only: Option<BTreeSet<String>>,
    except: BTreeSet<String>,
}

fn parse_selector(raw: &str) -> Selector {
    // forms:  "fn name" | "enum N" | ... | "impl T" | "impl Tr for T" | with suffix "::{a,b}" or " -{a,b}"
    let mut s = raw.trim().to_string();
    let mut only = None;
    let mut except = BTreeSet::new();
    if let Some(i) = s.find("::{") {
        let inner = s[i + 3..].trim_end_matches('}').to_string();
        only = Some(inner.split(',').map(|x| x.trim().to_string()).filter(|x| !x.is_empty()).collect());
        s = s[..i].trim().to_string();
    } else if let Some(i) = s.find(" -{") {
        let inner = s[i + 3..].trim_end_matches('}').to_string();
        except = inner.split(',').map(|x| x.trim().to_string()).filter(|x| !x.is_empty()).collect();
        s = s[..i].trim().to_string();
    }
    let parts: Vec<&str> = s.split_whitespace().collect();
    if parts.len() < 2 {
        die(&format!("bad selector `{}`", raw));
    }
    let kind = parts[0].to_string();
    if kind == "impl" && parts.len() == 4 && parts[2] == "for" {
        Selector { raw: raw.to_string(), kind, name: parts[3].to_string(), trait_name: Some(parts[1].to_string()), only, except }
    } else {
        Selector { raw: raw.to_string(), kind, name: parts[1].to_string(), trait_name: None, only, except }
    }
}

fn item_matches(item: &Item, sel: &Selector) -> bool {
    match (sel.kind.as_str(), item) {
        ("fn", Item::Fn(f)) => f.sig.ident == sel.name,
        ("enum", Item::Enum(e)) => e.ident == sel.name,
        ("struct", Item::Struct(e)) => e.ident == sel.name,
        ("const", Item::Const(e)) => e.ident == sel.name,
        ("static", Item::Static(e)) => e.ident == sel.name,
        ("type", Item::Type(e)) => e.ident == sel.name,
        ("trait", Item::Trait(e)) => e.ident == sel.name,
        ("impl", Item::Impl(i)) => {
            let ty = type_last_ident(&i.self_ty);
            let tr = i.trait_.as_ref().map(|(_, p, _)| path_last_ident(p));
            // the selector may name the trait with its generic arguments (`impl From<NonEmptyVec<T>> for Vec`)
            let tr_full = i.trait_.as_ref().map(|(_, p, _)| {
                let seg = p.segments.last().unwrap();
                match &seg.arguments {
                    syn::PathArguments::None => seg.ident.to_string(),
                    a => format!("{}{}", seg.ident, norm(&a.to_token_stream())),
                }
            });
            let want = sel.trait_name.as_ref().map(|t| t.replace(' ', ""));
            ty == sel.name && (tr == sel.trait_name || (want.is_some() && want.as_ref().map(|w| w.contains('<')).unwrap_or(false) && tr_full.map(|t| t.replace(' ', "")) == want))
        }
        _ => false,
    }
}

// ---------------------------------------------------------------------------------------------
// attribute handling (R2 + dropped attributes)

struct AttrStrip<'a> {
    derive_keep: &'a BTreeSet<String>,
    log: &'a mut Vec<Value>,
    file: &'a str,
    apply_r2: bool,
}

impl<'a> AttrStrip<'a> {
    fn filter(&mut self, attrs: &mut Vec<Attribute>, on_type: bool) {
        let mut out = Vec::new();
        for a in attrs.iter() {
            if on_type && a.path().is_ident("derive") {
                let mut kept: Vec<syn::Path> = Vec::new();
                let mut dropped: Vec<String> = Vec::new();
                let _ = a.parse_nested_meta(|m| {
                    let id = path_last_ident(&m.path);
                    if !self.apply_r2 || self.derive_keep.contains(&id) {
                        kept.push(m.path.clone());
                    } else {
                        dropped.push(id);
                    }
                    Ok(())
                });
                if !dropped.is_empty() {
                    self.log.push(json!({"rule":"R2","file":self.file,"line":a.pound_token.span.start().line,
                        "what": format!("derive list: dropped {}", dropped.join(", "))}));
                }
                // derive(PartialEq, Eq) generates structural equality; Verus learns this from the ghost marker
                // trait `Structural` (it checks that every field type is Structural as well).
                let has = |n: &str| kept.iter().any(|p| path_last_ident(p) == n);
                if self.apply_r2 && has("PartialEq") && has("Eq") {
                    kept.push(parse_quote!(Structural));
                    self.log.push(json!({"rule":"R2","file":self.file,"line":a.pound_token.span.start().line,
                        "what": "derive(PartialEq, Eq): ghost marker `Structural` added (== is structural equality)"}));
                }
                if !kept.is_empty() {
                    let na: Attribute = parse_quote!(#[derive(#(#kept),*)]);
                    out.push(na);
                }
            }
            // every other attribute (doc comments, must_use, allow, inline, ...) is dropped: none changes semantics
        }
        *attrs = out;
    }
}

impl<'a> VisitMut for AttrStrip<'a> {
    fn visit_item_enum_mut(&mut self, i: &mut syn::ItemEnum) {
        self.filter(&mut i.attrs, true);
        visit_mut::visit_item_enum_mut(self, i);
    }
    fn visit_item_struct_mut(&mut self, i: &mut syn::ItemStruct) {
        self.filter(&mut i.attrs, true);
        visit_mut::visit_item_struct_mut(self, i);
    }
    fn visit_item_fn_mut(&mut self, i: &mut syn::ItemFn) {
        self.filter(&mut i.attrs, false);
        visit_mut::visit_item_fn_mut(self, i);
    }
    fn visit_item_impl_mut(&mut self, i: &mut syn::ItemImpl) {
        self.filter(&mut i.attrs, false);
        visit_mut::visit_item_impl_mut(self, i);
    }
    fn visit_item_trait_mut(&mut self, i: &mut syn::ItemTrait) {
        self.filter(&mut i.attrs, false);
        visit_mut::visit_item_trait_mut(self, i);
    }
    fn visit_item_const_mut(&mut self, i: &mut syn::ItemConst) {
        self.filter(&mut i.attrs, false);
        visit_mut::visit_item_const_mut(self, i);
    }
    fn visit_item_type_mut(&mut self, i: &mut syn::ItemType) {
        self.filter(&mut i.attrs, false);
        visit_mut::visit_item_type_mut(self, i);
    }
    fn visit_impl_item_fn_mut(&mut self, i: &mut syn::ImplItemFn) {
        self.filter(&mut i.attrs, false);
        visit_mut::visit_impl_item_fn_mut(self, i);
    }
    fn visit_trait_item_fn_mut(&mut self, i: &mut syn::TraitItemFn) {
        self.filter(&mut i.attrs, false);
        visit_mut::visit_trait_item_fn_mut(self, i);
    }
    fn visit_variant_mut(&mut self, i: &mut syn::Variant) {
        self.filter(&mut i.attrs, false);
        visit_mut::visit_variant_mut(self, i);
    }
    fn visit_field_mut(&mut self, i: &mut syn::Field) {
        self.filter(&mut i.attrs, false);
        visit_mut::visit_field_mut(self, i);
    }
    fn visit_local_mut(&mut self, i: &mut syn::Local) {
        self.filter(&mut i.attrs, false);
        visit_mut::visit_local_mut(self, i);
    }
    fn visit_block_mut(&mut self, b: &mut syn::Block) {
        // R0: a statement under `#[cfg(feature = "verif")]` (a verification hook of /verif, see MANIFEST.hooks) does not
        // exist when the guard is off: the verified text is the guard-off code
        let is_hook = |attrs: &Vec<syn::Attribute>| attrs.iter().any(|a| {
            a.path().is_ident("cfg") && norm(&a.meta.to_token_stream()).contains("feature=\"verif\"")
        });
        let before = b.stmts.len();
        b.stmts.retain(|st| match st {
            syn::Stmt::Expr(Expr::If(i), _) => !is_hook(&i.attrs),
            syn::Stmt::Expr(Expr::Block(i), _) => !is_hook(&i.attrs),
            syn::Stmt::Expr(Expr::Call(i), _) => !is_hook(&i.attrs),
            syn::Stmt::Expr(Expr::MethodCall(i), _) => !is_hook(&i.attrs),
            syn::Stmt::Local(l) => !is_hook(&l.attrs),
            _ => true,
        });
        if b.stmts.len() != before {
            self.log.push(json!({"rule":"R0","file":self.file,"line":0,
                "what":format!("{} statement(s) under #[cfg(feature = \"verif\")] dropped (guard-off text)", before - b.stmts.len())}));
        }
        visit_mut::visit_block_mut(self, b);
    }
    fn visit_expr_mut(&mut self, e: &mut Expr) {
        // attributes on expressions (e.g. #[allow(..)]) are dropped
        match e {
            Expr::Match(m) => m.attrs.clear(),
            Expr::If(m) => m.attrs.clear(),
            Expr::Block(m) => m.attrs.clear(),
            Expr::MethodCall(m) => m.attrs.clear(),
            Expr::Call(m) => m.attrs.clear(),
            _ => {}
        }
        visit_mut::visit_expr_mut(self, e);
    }
}

// ---------------------------------------------------------------------------------------------
// rewrite rules R1, R3, R4, hoist (R5), inline (R7)

struct Rules<'a> {
    r1: bool,
    r3: bool,
    r4: bool,
    r9: bool,
    r10: bool,
    r11: bool,
    r12: bool,
    r14: bool,
    r15: bool,
    hoists: &'a [Value],
    inlines: &'a [Value],
    for_iters: &'a [Value],
    log: &'a mut Vec<Value>,
    file: &'a str,
    cur_fn: String,
    hoist_hits: Vec<usize>,
}

const LOG_MACROS: [&str; 5] = ["trace", "debug", "info", "warn", "error"];

fn is_log_macro(path: &syn::Path) -> bool {
    let id = path_last_ident(path);
    LOG_MACROS.contains(&id.as_str()) && (path.segments.len() == 1 || path.segments[0].ident == "log")
}

impl<'a> Rules<'a> {
    fn line(span: Span) -> usize {
        span.start().line
    }
}

// R14: `break V` of a `loop` that is the tail expression of a function body is `return V` (the value of the loop is the
// value of the function). Nested loops and closures are not entered.
struct BreakToReturn { n: usize }
impl VisitMut for BreakToReturn {
    fn visit_expr_mut(&mut self, e: &mut Expr) {
        match e {
            Expr::Loop(_) | Expr::While(_) | Expr::ForLoop(_) | Expr::Closure(_) => {}
            Expr::Break(b) if b.label.is_none() && b.expr.is_some() => {
                let v = b.expr.take().unwrap();
                *e = parse_quote!(return #v);
                self.n += 1;
            }
            _ => visit_mut::visit_expr_mut(self, e),
        }
    }
}
fn tail_loop_breaks_to_returns(block: &mut syn::Block) -> usize {
    if let Some(syn::Stmt::Expr(Expr::Loop(l), None)) = block.stmts.last_mut() {
        if l.label.is_none() {
            let mut v = BreakToReturn { n: 0 };
            v.visit_block_mut(&mut l.body);
            return v.n;
        }
    }
    0
}

impl<'a> VisitMut for Rules<'a> {
    fn visit_item_fn_mut(&mut self, i: &mut syn::ItemFn) {
        let old = std::mem::replace(&mut self.cur_fn, i.sig.ident.to_string());
        if self.r14 {
            let n = tail_loop_breaks_to_returns(&mut i.block);
            if n > 0 { self.log.push(json!({"rule":"R14","file":self.file,"line":0,"what":format!("in {}: {} `break <value>` of the tail `loop` written as `return <value>`", self.cur_fn, n)})); }
        }
        visit_mut::visit_item_fn_mut(self, i);
        self.cur_fn = old;
    }
    fn visit_impl_item_fn_mut(&mut self, i: &mut syn::ImplItemFn) {
        let old = std::mem::replace(&mut self.cur_fn, i.sig.ident.to_string());
        if self.r14 {
            let n = tail_loop_breaks_to_returns(&mut i.block);
            if n > 0 { self.log.push(json!({"rule":"R14","file":self.file,"line":0,"what":format!("in {}: {} `break <value>` of the tail `loop` written as `return <value>`", self.cur_fn, n)})); }
        }
        visit_mut::visit_impl_item_fn_mut(self, i);
        self.cur_fn = old;
    }
    fn visit_signature_mut(&mut self, sig: &mut syn::Signature) {
        // R13: an unnamed parameter `_: T` gets a name (Verus needs an identifier; the parameter is unused by definition)
        let mut k = 0;
        for a in sig.inputs.iter_mut() {
            if let syn::FnArg::Typed(t) = a {
                if let Pat::Wild(_) = &*t.pat {
                    let id = syn::Ident::new(&format!("__vx_unused{}", k), Span::call_site());
                    *t.pat = parse_quote!(#id);
                    k += 1;
                    self.log.push(json!({"rule":"R13","file":self.file,"line":0,
                        "what":format!("in {}: unnamed parameter `_` named `{}`", sig.ident, id)}));
                }
            }
        }
        visit_mut::visit_signature_mut(self, sig);
    }
    fn visit_block_mut(&mut self, b: &mut syn::Block) {
        if self.r1 {
            let mut kept = Vec::new();
            for s in b.stmts.drain(..) {
                let drop = match &s {
                    Stmt::Macro(m) => is_log_macro(&m.mac.path),
                    Stmt::Expr(Expr::Macro(m), _) => is_log_macro(&m.mac.path),
                    _ => false,
                };
                if drop {
                    let (line, name) = match &s {
                        Stmt::Macro(m) => (Self::line(m.mac.path.segments[0].ident.span()), path_last_ident(&m.mac.path)),
                        Stmt::Expr(Expr::Macro(m), _) => (Self::line(m.mac.path.segments[0].ident.span()), path_last_ident(&m.mac.path)),
                        _ => (0, String::new()),
                    };
                    self.log.push(json!({"rule":"R1","file":self.file,"line":line,"what":format!("dropped {}!(..) statement in {}", name, self.cur_fn)}));
                } else {
                    kept.push(s);
                }
            }
            b.stmts = kept;
        }
        visit_mut::visit_block_mut(self, b);
        // a hoisted loop / block expression in statement position has become a call: it needs its `;`
        let n = b.stmts.len();
        for (k, st) in b.stmts.iter_mut().enumerate() {
            if k + 1 < n {
                if let Stmt::Expr(Expr::Call(_), semi @ None) = st {
                    *semi = Some(Default::default());
                }
            }
        }
    }
    fn visit_expr_mut(&mut self, e: &mut Expr) {
        // R12: a statement-position `match S { P1 if G1 => B1, .., Pk if Gk => Bk, Q1 => C1, .. }` (all guarded arms first, every
        // body a block of type ()) ↦ `{ let mut done = false; if !done { match S { P1 => { if G1 { done = true; B1 } } _ => {} } } ..
        // if !done { match S { Q1 => C1, .. } } }`.  The first arm whose pattern matches and whose guard holds runs, as in
        // the original; S is evaluated once per tried arm instead of once, so the rule REQUIRES a side-effect-free scrutinee
        // (stated per unit; logged). Verus loses the final value of a `&mut` binding that a guarded arm mutates.
        if self.r12 {
            if let Expr::Match(m) = e {
                let n_guard = m.arms.iter().filter(|a| a.guard.is_some()).count();
                let na = m.arms.len();
                let two_arm = na >= 2 && n_guard == 1 && m.arms[na - 2].guard.is_some() && m.arms[na - 1].guard.is_none() && matches!(m.arms[na - 1].pat, Pat::Wild(_));
                if two_arm {
                    // R12 (two-arm form): `match S { P if G => B, _ => D }` ↦ `match S { P => { if G { B } else { D } } _ => D }`
                    // (the catch-all body D is duplicated verbatim; S is evaluated once)
                    // (earlier unguarded arms are kept as they are)
                    let scrut = m.expr.clone();
                    let line = Self::line(m.match_token.span);
                    let pat = m.arms[na - 2].pat.clone();
                    let g = m.arms[na - 2].guard.as_ref().unwrap().1.clone();
                    let b = m.arms[na - 2].body.clone();
                    let d = m.arms[na - 1].body.clone();
                    let head: Vec<syn::Arm> = m.arms.iter().take(na - 2).cloned().collect();
                    self.log.push(json!({"rule":"R12","file":self.file,"line":line,
                        "what":format!("in {}: `match S {{ .., P if G => B, _ => D }}` written as `match S {{ .., P => {{ if G {{ B }} else {{ D }} }} _ => D }}` (catch-all body duplicated)", self.cur_fn)}));
                    *e = parse_quote!(match #scrut { #(#head)* #pat => { if #g { #b } else { #d } } _ => #d });
                } else if n_guard > 0 {
                    let first_unguarded = m.arms.iter().position(|a| a.guard.is_none()).unwrap_or(m.arms.len());
                    let ok_shape = m.arms.iter().skip(first_unguarded).all(|a| a.guard.is_none())
                        && m.arms.iter().all(|a| matches!(&*a.body, Expr::Block(_)));
                    if !ok_shape {
                        die(&format!("R12: match with guards in {} has a shape the rule does not cover (guarded arms must come first, bodies must be blocks)", self.cur_fn));
                    }
                    let scrut = m.expr.clone();
                    let line = Self::line(m.match_token.span);
                    let mut steps: Vec<syn::Stmt> = Vec::new();
                    for a in m.arms.iter().take(first_unguarded) {
                        let pat = &a.pat;
                        let g = &a.guard.as_ref().unwrap().1;
                        let body = &a.body;
                        steps.push(parse_quote!(if !__vx_done { match #scrut { #pat => { if #g { __vx_done = true; #body } } _ => {} } }));
                    }
                    let rest: Vec<&syn::Arm> = m.arms.iter().skip(first_unguarded).collect();
                    if !rest.is_empty() {
                        steps.push(parse_quote!(if !__vx_done { match #scrut { #(#rest)* } }));
                    }
                    self.log.push(json!({"rule":"R12","file":self.file,"line":line,
                        "what":format!("in {}: match with {} guarded arm(s) written as a sequence of guard-free matches under a `done` flag; the scrutinee `{}` is evaluated once per tried arm (requires a side-effect-free scrutinee)", self.cur_fn, n_guard, norm(&scrut.to_token_stream()))}));
                    *e = parse_quote!({ let mut __vx_done = false; #(#steps)* });
                }
            }
        }
        // R15: `format!(..)` ↦ `__vx_format()`: an opaque String (message texts are not part of any claim; formatting the
        // Display arguments has no side effect on the program state)
        if self.r15 {
            if let Expr::Macro(m) = e {
                if path_last_ident(&m.mac.path) == "format" {
                    self.log.push(json!({"rule":"R15","file":self.file,"line":0,
                        "what":format!("in {}: `format!(..)` replaced by the opaque string __vx_format() (message text is not part of any claim)", self.cur_fn)}));
                    *e = parse_quote!(__vx_format());
                    return;
                }
            }
        }
        // R5 hoist: match before descending (outermost match wins)
        for (k, h) in self.hoists.iter().enumerate() {
            let in_fn = h["fn"].as_str().unwrap_or("");
            if !in_fn.is_empty() && in_fn != self.cur_fn {
                continue;
            }
            let pat = h["expr"].as_str().unwrap_or("");
            let pat_norm: String = pat.chars().filter(|c| !c.is_whitespace()).collect();
            if norm(&e.to_token_stream()) == pat_norm {
                let name = syn::Ident::new(h["name"].as_str().unwrap(), Span::call_site());
                let args: Vec<Expr> = h["args"].as_array().unwrap().iter()
                    .map(|a| syn::parse_str::<Expr>(a.as_str().unwrap()).unwrap()).collect();
                let line = match e { Expr::MethodCall(m) => Self::line(m.method.span()), Expr::Binary(b) => Self::line(syn::spanned::Spanned::span(&b.op)), _ => 0 };
                self.log.push(json!({"rule":"R5","file":self.file,"line":line,
                    "what":format!("in {}: expression `{}` moved verbatim into trusted helper {}", self.cur_fn, pat, name)}));
                if h["try"].as_bool().unwrap_or(false) {
                    // the hoisted expression contains `?`: the helper returns the Result and the `?` stays at the call site
                    *e = parse_quote!(#name(#(#args),*)?);
                } else {
                    *e = parse_quote!(#name(#(#args),*));
                }
                self.hoist_hits[k] += 1;
                return;
            }
        }
        // R7 inline accessor: recv.method() ↦ recv.<replacement>
        if let Expr::MethodCall(m) = e {
            for inl in self.inlines.iter() {
                let in_fn = inl["fn"].as_str().unwrap_or("");
                if !in_fn.is_empty() && in_fn != self.cur_fn {
                    continue;
                }
                if m.method == inl["method"].as_str().unwrap() && m.args.is_empty()
                    && norm(&m.receiver.to_token_stream()) == inl["receiver"].as_str().unwrap().chars().filter(|c| !c.is_whitespace()).collect::<String>()
                {
                    let recv = &m.receiver;
                    let tail: TokenStream = inl["replacement"].as_str().unwrap().parse().unwrap();
                    self.log.push(json!({"rule":"R7","file":self.file,"line":Self::line(m.method.span()),
                        "what":format!("in {}: accessor call .{}() inlined as .{}", self.cur_fn, m.method, inl["replacement"].as_str().unwrap())}));
                    let ne: Expr = syn::parse2(quote!(#recv . #tail)).unwrap_or_else(|er| die(&format!("R7 replacement does not parse: {}", er)));
                    *e = ne;
                    break;
                }
            }
        }
        visit_mut::visit_expr_mut(self, e);
        // R11: non-short-circuit `a | b` on booleans ↦ `{ let l = a; let r = b; l || r }` (both operands are evaluated, in
        // order, exactly as `|` does; if an operand is not a bool the result does not type-check and the run is undecided)
        if self.r11 {
            if let Expr::Binary(b) = e {
                if let syn::BinOp::BitOr(_) = b.op {
                    let l = &b.left;
                    let r = &b.right;
                    let line = Self::line(syn::spanned::Spanned::span(&b.op));
                    self.log.push(json!({"rule":"R11","file":self.file,"line":line,
                        "what":format!("in {}: strict boolean `|` written as `{{ let l = ..; let r = ..; l || r }}`", self.cur_fn)}));
                    *e = parse_quote!({ let __vx_l = #l; let __vx_r = #r; __vx_l || __vx_r });
                }
            }
        }
        if self.r3 {
            if let Expr::Binary(b) = e {
                let tr = match b.op {
                    syn::BinOp::Add(_) => Some(("Add", "add")),
                    syn::BinOp::Sub(_) => Some(("Sub", "sub")),
                    syn::BinOp::Mul(_) => Some(("Mul", "mul")),
                    syn::BinOp::Div(_) => Some(("Div", "div")),
                    syn::BinOp::Rem(_) => Some(("Rem", "rem")),
                    syn::BinOp::BitAnd(_) => Some(("BitAnd", "bitand")),
                    syn::BinOp::BitOr(_) => Some(("BitOr", "bitor")),
                    syn::BinOp::BitXor(_) => Some(("BitXor", "bitxor")),
                    syn::BinOp::Shl(_) => Some(("Shl", "shl")),
                    syn::BinOp::Shr(_) => Some(("Shr", "shr")),
                    _ => None,
                };
                if let Some((t, m)) = tr {
                    let ti = syn::Ident::new(t, Span::call_site());
                    let mi = syn::Ident::new(m, Span::call_site());
                    let l = &b.left;
                    let r = &b.right;
                    let line = Self::line(syn::spanned::Spanned::span(&b.op));
                    self.log.push(json!({"rule":"R3","file":self.file,"line":line,
                        "what":format!("in {}: operator `{}` written as ::core::ops::{}::{}", self.cur_fn, b.op.to_token_stream(), t, m)}));
                    *e = parse_quote!(::core::ops::#ti::#mi(#l, #r));
                }
            }
        }
    }
    fn visit_expr_if_mut(&mut self, ei: &mut syn::ExprIf) {
        // R4 for `if let`: `if let Some(&x) = E { B }` ↦ `if let Some(x_ref) = E { let x = *x_ref; B }`
        if self.r4 {
            if let Expr::Let(l) = &mut *ei.cond {
                if let Pat::TupleStruct(ts) = &mut *l.pat {
                    if ts.elems.len() == 1 {
                        let mut repl: Option<(syn::Ident, syn::Ident, Option<syn::token::Mut>)> = None;
                        if let Some(Pat::Reference(pr)) = ts.elems.first() {
                            if let Pat::Ident(pi) = &*pr.pat {
                                let x = pi.ident.clone();
                                let xr = syn::Ident::new(&format!("{}_ref", x), Span::call_site());
                                repl = Some((x, xr, pi.mutability));
                            }
                        }
                        if let Some((x, xr, mutability)) = repl {
                            self.log.push(json!({"rule":"R4","file":self.file,"line":Self::line(x.span()),
                                "what":format!("in {}: `if let ..(&{}) = ..` written as `if let ..({}) = .. {{ let {} = *{}; ..}}`", self.cur_fn, x, xr, x, xr)}));
                            let np: Pat = parse_quote!(#xr);
                            *ts.elems.first_mut().unwrap() = np;
                            let st: Stmt = parse_quote!(let #mutability #x = *#xr;);
                            ei.then_branch.stmts.insert(0, st);
                        }
                    }
                }
            }
        }
        visit_mut::visit_expr_if_mut(self, ei);
    }
    fn visit_expr_for_loop_mut(&mut self, f: &mut syn::ExprForLoop) {
        // R9 (configured form): `for x in E` where E has a reference-to-collection type is `for x in E.iter()`
        // (std: `impl IntoIterator for &HashSet<T>` / `&Vec<T>` is `self.iter()`)
        for fi in self.for_iters.iter() {
            let in_fn = fi["fn"].as_str().unwrap_or("");
            if !in_fn.is_empty() && in_fn != self.cur_fn { continue; }
            let pat: String = fi["expr"].as_str().unwrap().chars().filter(|c| !c.is_whitespace()).collect();
            if norm(&f.expr.to_token_stream()) == pat {
                let m = syn::Ident::new(fi["method"].as_str().unwrap_or("iter"), Span::call_site());
                let inner = &f.expr;
                self.log.push(json!({"rule":"R9","file":self.file,"line":Self::line(f.for_token.span),
                    "what":format!("in {}: `for .. in {}` written as `for .. in {}.{}()` (std's IntoIterator impl for references to collections)", self.cur_fn, pat, pat, m)}));
                f.expr = Box::new(parse_quote!(#inner.#m()));
                // consuming iteration over a collection of Copy elements: iterate by reference and copy each element
                if fi["copy"].as_bool().unwrap_or(false) {
                    if let Pat::Ident(pi) = &*f.pat {
                        let x = pi.ident.clone();
                        let xr = syn::Ident::new(&format!("{}_ref", x), Span::call_site());
                        self.log.push(json!({"rule":"R9","file":self.file,"line":Self::line(x.span()),
                            "what":format!("in {}: consuming `for {} in {}` over Copy elements written as `for {} in {}.iter() {{ let {} = *{}; .. }}`", self.cur_fn, x, pat, xr, pat, x, xr)}));
                        f.pat = Box::new(parse_quote!(#xr));
                        let st: Stmt = parse_quote!(let #x = *#xr;);
                        f.body.stmts.insert(0, st);
                    }
                }
                break;
            }
        }
        // R10: `for .. { A; if C { continue; } B }` ↦ `for .. { A; if C { } else { B } }` (definition of `continue`:
        // skip the rest of the body) — Verus does not support `continue` in for-loops
        if self.r10 {
            let stmts = &mut f.body.stmts;
            let mut at: Option<usize> = None;
            for (k, st) in stmts.iter().enumerate() {
                if let Stmt::Expr(Expr::If(ei), _) = st {
                    if ei.else_branch.is_none() && ei.then_branch.stmts.len() == 1 {
                        if let Stmt::Expr(Expr::Continue(c), _) = &ei.then_branch.stmts[0] {
                            if c.label.is_none() { at = Some(k); break; }
                        }
                    }
                }
            }
            if let Some(k) = at {
                let rest: Vec<Stmt> = stmts.drain(k + 1..).collect();
                if let Stmt::Expr(Expr::If(ei), _) = &mut stmts[k] {
                    self.log.push(json!({"rule":"R10","file":self.file,"line":Self::line(ei.if_token.span),
                        "what":format!("in {}: `if .. {{ continue; }} REST` in a for-loop body written as `if .. {{ }} else {{ REST }}`", self.cur_fn)}));
                    ei.then_branch.stmts.clear();
                    let eb: syn::Block = parse_quote!({ #(#rest)* });
                    ei.else_branch = Some((Default::default(), Box::new(Expr::Block(syn::ExprBlock { attrs: vec![], label: None, block: eb }))));
                }
            }
        }
        if self.r9 {
            // `impl IntoIterator for &mut Vec<T>` is `self.iter_mut()`, for `&Vec<T>` it is `self.iter()` (std definition)
            if let Expr::Reference(r) = &*f.expr {
                if matches!(&*r.expr, Expr::Path(_) | Expr::Field(_)) {
                    let inner = &r.expr;
                    let (m, ne): (&str, Expr) = if r.mutability.is_some() {
                        ("iter_mut", parse_quote!(#inner.iter_mut()))
                    } else {
                        ("iter", parse_quote!(#inner.iter()))
                    };
                    self.log.push(json!({"rule":"R9","file":self.file,"line":Self::line(r.and_token.span),
                        "what":format!("in {}: `for .. in {}` written as `for .. in {}.{}()` (std's IntoIterator impl for references to Vec)",
                            self.cur_fn, norm(&f.expr.to_token_stream()), norm(&inner.to_token_stream()), m)}));
                    f.expr = Box::new(ne);
                }
            }
        }
        if self.r4 {
            if let Pat::Reference(pr) = &*f.pat {
                if let Pat::Ident(pi) = &*pr.pat {
                    let x = pi.ident.clone();
                    let xr = syn::Ident::new(&format!("{}_ref", x), Span::call_site());
                    let mutability = pi.mutability;
                    self.log.push(json!({"rule":"R4","file":self.file,"line":Self::line(x.span()),
                        "what":format!("in {}: `for &{} in ..` written as `for {} in .. {{ let {} = *{}; ..}}`", self.cur_fn, x, xr, x, xr)}));
                    f.pat = Box::new(parse_quote!(#xr));
                    let st: Stmt = parse_quote!(let #mutability #x = *#xr;);
                    f.body.stmts.insert(0, st);
                }
            }
        }
        visit_mut::visit_expr_for_loop_mut(self, f);
    }
}

// ---------------------------------------------------------------------------------------------
// markers

struct FnInfo {
    name: String,
    line: usize,
    loops: Vec<String>,
    has_ret: bool,
    ret_name: String,
    trait_impl: bool,
    has_body: bool,
    params: String,
    generics: String,
    where_clause: String,
    has_mut_ref: bool,
    closures: usize,
}

/// counts the closure expressions of a body (a closure without a specification is opaque to the verifier)
struct ClosureCounter {
    n: usize,
}

impl VisitMut for ClosureCounter {
    fn visit_expr_closure_mut(&mut self, c: &mut syn::ExprClosure) {
        self.n += 1;
        visit_mut::visit_expr_closure_mut(self, c);
    }
    fn visit_item_fn_mut(&mut self, _i: &mut syn::ItemFn) {}
}

struct LoopMarker {
    qual: String,
    loops: Vec<String>,
}

impl VisitMut for LoopMarker {
    fn visit_expr_while_mut(&mut self, w: &mut syn::ExprWhile) {
        let idx = self.loops.len();
        let cond = &w.cond;
        let head = format!("while {}", norm(&cond.to_token_stream()));
        self.loops.push(head.clone());
        let q = &self.qual;
        let st: Stmt = parse_quote!(__vx_loop!(#q, #idx, #head););
        visit_mut::visit_expr_while_mut(self, w);
        w.body.stmts.insert(0, st);
    }
    fn visit_expr_for_loop_mut(&mut self, f: &mut syn::ExprForLoop) {
        let idx = self.loops.len();
        let head = format!("for {} in {}", norm(&f.pat.to_token_stream()), norm(&f.expr.to_token_stream()));
        self.loops.push(head.clone());
        let q = &self.qual;
        let st: Stmt = parse_quote!(__vx_loop!(#q, #idx, #head););
        visit_mut::visit_expr_for_loop_mut(self, f);
        f.body.stmts.insert(0, st);
    }
    fn visit_expr_loop_mut(&mut self, l: &mut syn::ExprLoop) {
        let idx = self.loops.len();
        let head = "loop".to_string();
        self.loops.push(head.clone());
        let q = &self.qual;
        let st: Stmt = parse_quote!(__vx_loop!(#q, #idx, #head););
        visit_mut::visit_expr_loop_mut(self, l);
        l.body.stmts.insert(0, st);
    }
    fn visit_item_fn_mut(&mut self, _i: &mut syn::ItemFn) {
        // nested fn items are not descended into
    }
}

fn param_names(sig: &syn::Signature) -> BTreeSet<String> {
    let mut s = BTreeSet::new();
    for a in sig.inputs.iter() {
        if let syn::FnArg::Typed(t) = a {
            if let Pat::Ident(p) = &*t.pat {
                s.insert(p.ident.to_string());
            }
        }
    }
    s
}

fn mark_fn(qual: &str, sig: &mut syn::Signature, block: Option<&mut syn::Block>, trait_impl: bool, name_ret: bool, infos: &mut Vec<FnInfo>) {
    let line = sig.ident.span().start().line;
    let has_mut_ref = sig.inputs.iter().any(|a| match a {
        syn::FnArg::Receiver(r) => r.mutability.is_some() && r.reference.is_some(),
        syn::FnArg::Typed(t) => matches!(&*t.ty, Type::Reference(r) if r.mutability.is_some()),
    });
    let mut info = FnInfo { name: qual.to_string(), line, loops: vec![], has_ret: false, ret_name: String::new(), trait_impl, has_body: block.is_some(),
        params: sig.inputs.to_token_stream().to_string(), generics: sig.generics.to_token_stream().to_string(),
        where_clause: sig.generics.where_clause.as_ref().map(|w| w.to_token_stream().to_string()).unwrap_or_default(), has_mut_ref, closures: 0 };
    if let ReturnType::Type(..) = &sig.output {
        info.has_ret = true;
    }
    if info.has_ret && name_ret {
        let names = param_names(sig);
        let rn = if names.contains("r") { "r_" } else { "r" };
        info.ret_name = rn.to_string();
        if let ReturnType::Type(_, ty) = &mut sig.output {
            let inner = (**ty).clone();
            let marker = syn::Ident::new(&format!("__vx_ret_{}", rn), Span::call_site());
            **ty = parse_quote!((#marker, #inner));
        }
    }
    if let Some(b) = block {
        let mut cc = ClosureCounter { n: 0 };
        cc.visit_block_mut(b);
        info.closures = cc.n;
        let mut lm = LoopMarker { qual: qual.to_string(), loops: vec![] };
        lm.visit_block_mut(b);
        info.loops = lm.loops;
        let st: Stmt = parse_quote!(__vx_body!(#qual););
        b.stmts.insert(0, st);
    }
    infos.push(info);
}

fn mark_item(item: &mut Item, infos: &mut Vec<FnInfo>) {
    match item {
        Item::Fn(f) => {
            let q = f.sig.ident.to_string();
            mark_fn(&q, &mut f.sig, Some(&mut f.block), false, true, infos);
        }
        Item::Impl(i) => {
            let ty = type_last_ident(&i.self_ty);
            // trait name with its generic arguments (distinguishes `Index<usize>` from `Index<&usize>`)
            let tr = i.trait_.as_ref().map(|(_, p, _)| {
                let seg = p.segments.last().unwrap();
                match &seg.arguments {
                    syn::PathArguments::None => seg.ident.to_string(),
                    a => format!("{}{}", seg.ident, norm(&a.to_token_stream())),
                }
            });
            for it in i.items.iter_mut() {
                if let ImplItem::Fn(f) = it {
                    let q = match &tr {
                        Some(t) => format!("{}.{}::{}", ty, t, f.sig.ident),
                        None => format!("{}::{}", ty, f.sig.ident),
                    };
                    mark_fn(&q, &mut f.sig, Some(&mut f.block), tr.is_some(), true, infos);
                }
            }
        }
        Item::Trait(t) => {
            let tn = t.ident.to_string();
            for it in t.items.iter_mut() {
                if let syn::TraitItem::Fn(f) = it {
                    let q = format!("{}::{}", tn, f.sig.ident);
                    // trait method declarations: a `__vx_decl` marker cannot be placed in a body-less fn;
                    // the driver locates them by signature text instead. Return values are named.
                    mark_fn(&q, &mut f.sig, f.default.as_mut(), false, true, infos);
                }
            }
        }
        _ => {}
    }
}

fn unparse(item: &Item) -> String {
    let f = syn::File { shebang: None, attrs: vec![], items: vec![item.clone()] };
    prettyplease::unparse(&f)
}

fn item_kind_name(item: &Item) -> (String, String, usize) {
    match item {
        Item::Fn(f) => ("fn".into(), f.sig.ident.to_string(), f.sig.ident.span().start().line),
        Item::Enum(e) => ("enum".into(), e.ident.to_string(), e.ident.span().start().line),
        Item::Struct(e) => ("struct".into(), e.ident.to_string(), e.ident.span().start().line),
        Item::Const(e) => ("const".into(), e.ident.to_string(), e.ident.span().start().line),
        Item::Static(e) => ("static".into(), e.ident.to_string(), e.ident.span().start().line),
        Item::Type(e) => ("type".into(), e.ident.to_string(), e.ident.span().start().line),
        Item::Trait(e) => ("trait".into(), e.ident.to_string(), e.ident.span().start().line),
        Item::Impl(i) => {
            let ty = type_last_ident(&i.self_ty);
            let tr = i.trait_.as_ref().map(|(_, p, _)| path_last_ident(p));
            let n = match tr { Some(t) => format!("{} for {}", t, ty), None => ty };
            ("impl".into(), n, i.impl_token.span.start().line)
        }
        _ => ("other".into(), String::new(), 0),
    }
}

fn collect_items<'a>(items: &'a [Item], out: &mut Vec<&'a Item>) {
    for it in items {
        match it {
            Item::Mod(m) => {
                // inline modules other than #[cfg(test)] ones are searched too
                let is_test = m.attrs.iter().any(|a| a.path().is_ident("cfg") && norm(&a.to_token_stream()).contains("test"));
                if !is_test {
                    if let Some((_, inner)) = &m.content {
                        collect_items(inner, out);
                    }
                }
            }
            _ => out.push(it),
        }
    }
}

fn main() {
    let mut inp = String::new();
    std::io::stdin().read_to_string(&mut inp).unwrap();
    let cfg: Value = serde_json::from_str(&inp).unwrap_or_else(|e| die(&format!("config: {}", e)));
    let mut out_items: Vec<Value> = Vec::new();
    let mut log: Vec<Value> = Vec::new();
    for src in cfg["sources"].as_array().unwrap_or_else(|| die("no sources")) {
        let file = src["file"].as_str().unwrap();
        let text = std::fs::read_to_string(file).unwrap_or_else(|e| die(&format!("cannot read {}: {}", file, e)));
        let ast = syn::parse_file(&text).unwrap_or_else(|e| die(&format!("cannot parse {}: {}", file, e)));
        let rules: BTreeSet<String> = src["rules"].as_array().map(|a| a.iter().map(|x| x.as_str().unwrap().to_string()).collect()).unwrap_or_default();
        let derive_keep: BTreeSet<String> = src["derive_keep"].as_array()
            .map(|a| a.iter().map(|x| x.as_str().unwrap().to_string()).collect())
            .unwrap_or_else(|| ["Copy", "Clone", "PartialEq", "Eq"].iter().map(|s| s.to_string()).collect());
        let empty = vec![];
        let hoists = src["hoist"].as_array().unwrap_or(&empty);
        let inlines = src["inline"].as_array().unwrap_or(&empty);
        let for_iters = src["for_iter"].as_array().unwrap_or(&empty);
        let mut hoist_hits_total = vec![0usize; hoists.len()];
        // R7 legitimacy: every inlined accessor must still be exactly the recorded one-line body in /repo
        for inl in inlines.iter() {
            if let Some(chk) = inl.get("check") {
                let cfile = chk["file"].as_str().unwrap();
                let root = std::path::Path::new(file).ancestors().find(|p| p.join("Cargo.lock").exists()).map(|p| p.to_path_buf());
                let cpath = match (&root, cfile.starts_with('/')) { (_, true) => std::path::PathBuf::from(cfile), (Some(r), false) => r.join(cfile), (None, false) => std::path::PathBuf::from(cfile) };
                let ctext = std::fs::read_to_string(&cpath).unwrap_or_else(|e| die(&format!("cannot read {}: {}", cpath.display(), e)));
                let cast = syn::parse_file(&ctext).unwrap_or_else(|e| die(&format!("cannot parse {}: {}", cpath.display(), e)));
                let mut call: Vec<&Item> = Vec::new();
                collect_items(&cast.items, &mut call);
                let want_ty = chk["impl"].as_str().unwrap();
                let want_fn = chk["fn"].as_str().unwrap();
                let want_body: String = chk["body"].as_str().unwrap().chars().filter(|c| !c.is_whitespace()).collect();
                let mut ok = false;
                for it in call {
                    if let Item::Impl(im) = it {
                        let trait_ok = match (&im.trait_, chk.get("trait").and_then(|t| t.as_str())) {
                            (None, None) => true,
                            (Some((_, p, _)), Some(t)) => path_last_ident(p) == t,
                            _ => false,
                        };
                        if trait_ok && type_last_ident(&im.self_ty) == want_ty {
                            for ii in im.items.iter() {
                                if let ImplItem::Fn(f) = ii {
                                    if f.sig.ident == want_fn {
                                        let stmts = &f.block.stmts;
                                        if stmts.len() == 1 && norm(&stmts[0].to_token_stream()) == want_body { ok = true; }
                                    }
                                }
                            }
                        }
                    }
                }
                if !ok {
                    eprintln!("vx: LOST-ANCHOR accessor {}::{} in {} is no longer `{}` (R7 inlining refused)", want_ty, want_fn, cpath.display(), chk["body"].as_str().unwrap());
                    std::process::exit(3);
                }
            }
        }
        let mut all: Vec<&Item> = Vec::new();
        collect_items(&ast.items, &mut all);
        for sraw in src["select"].as_array().unwrap_or_else(|| die("no select")) {
            let sel = parse_selector(sraw.as_str().unwrap());
            let found: Vec<&&Item> = all.iter().filter(|it| item_matches(it, &sel)).collect();
            if found.is_empty() {
                eprintln!("vx: LOST-ANCHOR selector `{}` matches nothing in {}", sel.raw, file);
                std::process::exit(3);
            }
            if found.len() > 1 && sel.kind != "impl" {
                eprintln!("vx: LOST-ANCHOR selector `{}` matches {} items in {}", sel.raw, found.len(), file);
                std::process::exit(3);
            }
            // requested methods must exist in at least one of the matching impl blocks
            if sel.kind == "impl" {
                if let Some(o) = &sel.only {
                    let mut present_all = BTreeSet::new();
                    for it in found.iter() {
                        if let Item::Impl(im) = **it {
                            for x in im.items.iter() { if let ImplItem::Fn(f) = x { present_all.insert(f.sig.ident.to_string()); } }
                        }
                    }
                    for n in o {
                        if !present_all.contains(n) {
                            eprintln!("vx: LOST-ANCHOR method `{}` of selector `{}` not found in {}", n, sel.raw, file);
                            std::process::exit(3);
                        }
                    }
                }
            }
            for it in found {
                let mut item: Item = (*it).clone();
                // method selection inside impl blocks
                if let Item::Impl(im) = &mut item {
                    let mut present = BTreeSet::new();
                    im.items.retain(|x| match x {
                        ImplItem::Fn(f) => {
                            let n = f.sig.ident.to_string();
                            present.insert(n.clone());
                            let keep = sel.only.as_ref().map(|o| o.contains(&n)).unwrap_or(true) && !sel.except.contains(&n);
                            keep
                        }
                        _ => true,
                    });
                    if im.items.iter().all(|x| !matches!(x, ImplItem::Fn(_))) && sel.only.is_some() {
                        continue; // this impl block has none of the requested methods
                    }
                }
                // 1. attributes dropped (always) — "orig" keeps derives untouched
                let mut orig = item.clone();
                let mut dummy_log = Vec::new();
                AttrStrip { derive_keep: &derive_keep, log: &mut dummy_log, file, apply_r2: false }.visit_item_mut(&mut orig);
                let orig_text = unparse(&orig);
                // 2. rules
                AttrStrip { derive_keep: &derive_keep, log: &mut log, file, apply_r2: rules.contains("R2") }.visit_item_mut(&mut item);
                let mut r = Rules {
                    r1: rules.contains("R1"), r3: rules.contains("R3"), r4: rules.contains("R4"), r9: rules.contains("R9"), r10: rules.contains("R10"), r11: rules.contains("R11"), r12: rules.contains("R12"), r14: rules.contains("R14"), r15: rules.contains("R15"),
                    hoists, inlines, for_iters, log: &mut log, file, cur_fn: String::new(), hoist_hits: vec![0; hoists.len()],
                };
                r.visit_item_mut(&mut item);
                for (k, h) in r.hoist_hits.iter().enumerate() {
                    hoist_hits_total[k] += h;
                }
                let extracted_text = unparse(&item);
                // 3. markers
                let mut infos = Vec::new();
                mark_item(&mut item, &mut infos);
                let marked_text = unparse(&item);
                let (kind, name, line) = item_kind_name(&item);
                out_items.push(json!({
                    "selector": sel.raw, "file": file, "line": line, "kind": kind, "name": name,
                    "orig": orig_text, "extracted": extracted_text, "text": marked_text,
                    "fns": infos.iter().map(|f| json!({"name": f.name, "line": f.line, "loops": f.loops, "has_ret": f.has_ret,
                        "ret_name": f.ret_name, "trait_impl": f.trait_impl, "has_body": f.has_body,
                        "params": f.params, "generics": f.generics, "where_clause": f.where_clause, "has_mut_ref": f.has_mut_ref, "closures": f.closures})).collect::<Vec<_>>(),
                }));
            }
        }
        for (k, h) in hoists.iter().enumerate() {
            let want = h["count"].as_u64().unwrap_or(1) as usize;
            if hoist_hits_total[k] != want {
                eprintln!("vx: LOST-ANCHOR hoist `{}` matched {} times (expected {}) in {}", h["name"].as_str().unwrap_or("?"), hoist_hits_total[k], want, file);
                std::process::exit(3);
            }
        }
    }
    println!("{}", serde_json::to_string(&json!({"items": out_items, "log": log})).unwrap());
}


