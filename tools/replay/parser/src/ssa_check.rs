//! bounded-ssa — C14 (BOUNDED): the real parse_definition + into_cfg + into_ssa on enumerated small definitions, checked
//! against the clauses of C14 by an independent examination of the resulting graph.
use program_structure::cfg::{Cfg, IntoCfg};
use program_structure::constants::Curve;
use program_structure::ir::variable_meta::VariableMeta;
use program_structure::ir::{Expression, Statement, VariableName};
use program_structure::report::ReportCollection;
use std::collections::{BTreeMap, BTreeSet};
use std::panic::{catch_unwind, AssertUnwindSafe};

use crate::{jstr, lists, S};

fn key(n: &VariableName) -> String { format!("{}|{:?}", n.name(), n.suffix()) }
fn full(n: &VariableName) -> String { format!("{}|{:?}|{:?}", n.name(), n.suffix(), n.version()) }

/// source text: simple statements cycle through assignment forms over the variables y, z and the array a
fn render(l: &[S], ctr: &mut usize, out: &mut String) {
    for s in l {
        match s {
            S::Simple => {
                let forms = ["y = y + 1;", "z = y;", "y = z + 2;", "a[0] = y;", "z = a[1];", "var w = y; z = w;", "y += z;", "a[1] = a[0] + z;"];
                out.push_str(forms[*ctr % forms.len()]); out.push('\n'); *ctr += 1;
            }
            S::If(b) => { out.push_str(if *ctr % 2 == 0 { "if (x < y) {\n" } else { "if (z < 3) {\n" }); *ctr += 1; render(b, ctr, out); out.push_str("}\n"); }
            S::IfElse(a, b) => { out.push_str(if *ctr % 2 == 0 { "if (x < y) {\n" } else { "if (z < 3) {\n" }); *ctr += 1; render(a, ctr, out); out.push_str("} else {\n"); render(b, ctr, out); out.push_str("}\n"); }
            S::While(b) => { out.push_str(if *ctr % 2 == 0 { "while (y < x) {\n" } else { "while (z < 5) {\n" }); *ctr += 1; render(b, ctr, out); out.push_str("}\n"); }
            S::IfBare(x) => { out.push_str("if (x < z)\n"); render(std::slice::from_ref(&**x), ctr, out); }
            S::WhileBare(x) => { out.push_str("while (y < 7)\n"); render(std::slice::from_ref(&**x), ctr, out); }
        }
    }
}

/// `a.k = update(a.j, ..)`: the element-wise write of an array reads the previous version of the whole array; for the
/// first write that previous version has no defining statement (the array is only declared) — by design, see DESIGN.md
fn is_update_of(st: &Statement, read: &VariableName) -> bool {
    matches!(st, Statement::Substitution { rhe: Expression::Update { var, .. }, .. } if var == read)
}

fn is_phi(st: &Statement) -> bool { matches!(st, Statement::Substitution { rhe: Expression::Phi { .. }, .. }) }

/// None = all clauses hold; Some((clause, what))
fn check(cfg: &Cfg, is_template: bool, max_decisions: usize) -> Option<(String, String)> {
    let blocks: Vec<_> = cfg.iter().collect();
    let n = blocks.len();
    // ---- (a) every versioned local has at most one defining statement; (e) every written version is declared
    let mut def_at: BTreeMap<String, (usize, usize)> = BTreeMap::new();
    let mut declared: BTreeSet<String> = BTreeSet::new();
    let params: BTreeSet<String> = cfg.parameters().iter().map(full).collect();
    for (bi, b) in blocks.iter().enumerate() {
        let mut seen_non_phi = false;
        for (si, st) in b.iter().enumerate() {
            if let Statement::Declaration { names, .. } = st { for nm in names.iter() { declared.insert(full(nm)); } }
            // ---- (c) phi statements stand only at the head of blocks
            if is_phi(st) { if seen_non_phi { return Some(("phi-at-head".into(), format!("block {}: the phi statement `{}` follows a statement that is not a phi", bi, st))); } }
            else if !matches!(st, Statement::Declaration { .. }) { seen_non_phi = true; }
            for w in st.locals_written() {
                if w.name().version().is_none() { return Some(("unversioned-local".into(), format!("block {}: `{}` writes the local `{:?}` without a version", bi, st, w.name()))); }
                if let Some(prev) = def_at.insert(full(w.name()), (bi, si)) {
                    return Some(("single-definition".into(), format!("`{:?}` is defined in block {} (statement {}) and again in block {} (statement {})", w.name(), prev.0, prev.1, bi, si)));
                }
            }
            if is_template {
                for u in st.signals_read().iter().chain(st.signals_written().iter()).chain(st.components_read().iter()).chain(st.components_written().iter()) {
                    if u.name().version().is_some() { return Some(("signals-unversioned".into(), format!("block {}: the signal or component `{:?}` carries a version in `{}`", bi, u.name(), st))); }
                }
            }
        }
    }
    for k in def_at.keys() { if !declared.contains(k) && !params.contains(k) { return Some(("declared".into(), format!("the version `{}` is written but no declaration statement lists it", k))); } }
    // ---- (b) every read is dominated by its definition (a phi argument: by a definition that reaches the incoming edge)
    let mut dom: Vec<BTreeSet<usize>> = vec![(0..n).collect(); n];
    dom[0] = [0].into_iter().collect();
    let mut changed = true;
    while changed {
        changed = false;
        for i in 1..n {
            let mut acc: Option<BTreeSet<usize>> = None;
            for &p in blocks[i].predecessors() { acc = Some(match acc { None => dom[p].clone(), Some(a) => a.intersection(&dom[p]).cloned().collect() }); }
            let mut nd = acc.unwrap_or_default(); nd.insert(i);
            if nd != dom[i] { dom[i] = nd; changed = true; }
        }
    }
    for (bi, b) in blocks.iter().enumerate() {
        for (si, st) in b.iter().enumerate() {
            for r in st.locals_read() {
                let k = full(r.name());
                if params.contains(&k) { continue; }
                match def_at.get(&k) {
                    None if is_update_of(st, r.name()) => {}
                    None => return Some(("read-has-definition".into(), format!("block {}: `{}` reads `{}`, which no statement defines", bi, st, k))),
                    Some(&(db, ds)) => {
                        let ok = if is_phi(st) {
                            // the definition must reach the end of some predecessor of this block
                            blocks[bi].predecessors().iter().any(|&p| dom[p].contains(&db))
                        } else if db == bi { ds < si } else { dom[bi].contains(&db) };
                        if !ok { return Some(("dominance".into(), format!("block {}: `{}` reads `{}`, defined in block {} (statement {}), which does not dominate the read", bi, st, k, db, ds))); }
                    }
                }
            }
        }
    }
    // ---- (d) along every path each read names the version most recently assigned on that path
    // paths: every sequence of at most `max_decisions` branch decisions from the entry block
    let total = 1usize << max_decisions;
    for bits in 0..total {
        let mut env: BTreeMap<String, String> = BTreeMap::new();
        for p in cfg.parameters().iter() { env.insert(key(p), full(p)); }
        let mut cur = 0usize; let mut used = 0usize; let mut steps = 0usize;
        'walk: loop {
            steps += 1; if steps > 200 { break; }
            let b = blocks[cur];
            let mut next: Option<usize> = None;
            for st in b.iter() {
                if let Statement::Substitution { var, rhe: Expression::Phi { args, .. }, .. } = st {
                    if let Some(curv) = env.get(&key(var)) {
                        if !args.iter().any(|a| &full(a) == curv) {
                            return Some(("path-phi".into(), format!("on the path with decisions {:0w$b} block {} is entered with `{}` current, but `{}` does not list it", bits, cur, curv, st, w = max_decisions)));
                        }
                    }
                    env.insert(key(var), full(var));
                    continue;
                }
                for r in st.locals_read() {
                    match env.get(&key(r.name())) {
                        Some(curv) if curv == &full(r.name()) => {}
                        None if is_update_of(st, r.name()) => {}
                        other => return Some(("path-reaching-definition".into(), format!("on the path with decisions {:0w$b} the statement `{}` in block {} reads `{}` while the most recent assignment on that path is `{:?}`", bits, st, cur, full(r.name()), other, w = max_decisions))),
                    }
                }
                for w in st.locals_written() { env.insert(key(w.name()), full(w.name())); }
                if let Statement::IfThenElse { true_index, false_index, .. } = st {
                    if used >= max_decisions { break 'walk; }
                    let take = (bits >> used) & 1 == 1; used += 1;
                    next = if take { Some(*true_index) } else { *false_index };
                    if next.is_none() { break 'walk; }
                }
            }
            match next {
                Some(t) => cur = t,
                None => { let succ: Vec<_> = b.successors().iter().cloned().collect(); if succ.len() == 1 { cur = succ[0]; } else { break; } }
            }
        }
    }
    None
}

pub fn ssa_bounded(tier: &str) {
    let maxsize = if tier == "thorough" { 5 } else { 4 };
    let max_decisions = if tier == "thorough" { 7 } else { 5 };
    let mut memo = std::collections::HashMap::new();
    let mut evals = 0u64; let mut nontrivial = 0u64; let mut skipped = 0u64;
    let mut viol: Vec<String> = vec![]; let mut seen_ob: BTreeSet<String> = Default::default();
    let mut samples: Vec<String> = vec![];
    let started = std::time::Instant::now();
    let budget = std::time::Duration::from_secs(if tier == "thorough" { 3600 } else { 150 });
    let mut cut_short = false;
    'outer: for n in 0..=maxsize {
        for l in lists(n, &mut memo) {
            if started.elapsed() > budget { cut_short = true; break 'outer; }
            for offset in 0..(if tier == "thorough" { 4 } else { 2 }) {
              for frame in 0..2 {
                let mut body = String::new();
                let mut ctr = offset * 3;
                render(&l, &mut ctr, &mut body);
                let src = if frame == 0 {
                    format!("function f(x) {{\nvar y = 0;\nvar z = x;\nvar a[2];\na[0] = 1;\na[1] = 2;\n{}return y + z + a[0];\n}}\n", body)
                } else {
                    format!("template T(x) {{\nsignal input s;\nsignal output o;\ncomponent c = Sub();\nvar y = 0;\nvar z = x;\nvar a[2];\na[0] = 1;\na[1] = 2;\n{}c.p <== s + y;\no <== c.q + z + a[0];\n}}\n", body)
                };
                evals += 1;
                if body.contains("while") || body.contains("if") { nontrivial += 1; }
                if evals % 977 == 1 && samples.len() < 6 { samples.push(jstr(&src)); }
                let r = catch_unwind(AssertUnwindSafe(|| {
                    let def = match parser::parse_definition(&src) { Some(d) => d, None => return Err(0) };
                    let mut reports = ReportCollection::new();
                    let cfg = def.into_cfg(&Curve::default(), &mut reports).map_err(|_| 1)?;
                    cfg.into_ssa().map_err(|_| 2)
                }));
                let verdict = match r {
                    Err(_) => Some(("safety".to_string(), "parse -> CFG -> SSA panicked".to_string())),
                    Ok(Err(0)) => { evals -= 1; skipped += 1; if body.contains("while") || body.contains("if") { nontrivial -= 1; } None }
                    Ok(Err(1)) => Some(("lift".to_string(), "a definition accepted by the parser did not lift to a CFG".to_string())),
                    Ok(Err(_)) => Some(("conversion".to_string(), "SSA conversion failed on a definition in which every variable is initialised".to_string())),
                    Ok(Ok(cfg)) => check(&cfg, frame == 1, max_decisions),
                };
                if let Some((cl, what)) = verdict {
                    let ob = format!("ssa|into_ssa|bounded|{}", cl);
                    if seen_ob.insert(ob.clone()) {
                        viol.push(format!("{{\"unit\":\"ssa\",\"fn\":\"Cfg::into_ssa\",\"obligation\":{},\"input\":{},\"what\":{},\"replay\":\"replay_parser bounded-ssa\"}}", jstr(&ob), jstr(&src), jstr(&format!("{} — for\n{}", what, src))));
                    }
                }
              }
            }
        }
    }
    println!("{{\"unit\":\"ssa\",\"evaluations\":{},\"distinct_nontrivial\":{},\"exhaustive\":{},\"rule\":{},\"bound\":{},\"samples\":[{}],\"violations\":[{}]}}",
        evals, nontrivial, if cut_short { "false" } else { "true" },
        jstr("every body built from simple statements (eight assignment forms over two variables, an array and a block-local variable), if, if-else, while, braced and bare bodies, once inside a function and once inside a template with signals and a component, through the real parse_definition + into_cfg + into_ssa; checked on the resulting graph: each versioned local is written by at most one statement and is listed by a declaration; phi statements stand only at the head of blocks; signals and components carry no version; every read of a local names a version that some statement defines and whose definition dominates the read (for a phi argument: reaches an incoming edge); and along every path of at most the stated number of branch decisions every read names the version most recently assigned on that path, every phi lists the version that is current when its block is entered"),
        jstr(&format!("all statement lists with at most {} statement nodes x {} rotations of the assignment forms x {{function, template}}; paths of at most {} branch decisions; {} shapes rejected by the Circom grammar skipped{}", maxsize, if tier == "thorough" { 4 } else { 2 }, max_decisions, skipped, if cut_short { "; ENUMERATION CUT SHORT by the engine's time budget" } else { "" })),
        samples.join(","), viol.join(","));
}
