//! replay_parser — bounded engine and witness replay for unit `strip` (C05, C04): the REAL compiled
//! parser_logic::preprocess (through the `verif` feature hook) against an executable mirror of the reference
//! lexer of units/strip/spec.rs.
use parser::verif_hooks::preprocess;
use std::panic::{catch_unwind, AssertUnwindSafe};

#[derive(Clone, Copy, PartialEq)]
enum Mode { Code, Line, Block(usize) }

/// reference lexer (mirror of spec fn strip_from): Ok(blanked text) or Err(char index of the unterminated opener)
fn strip(s: &[char]) -> Result<String, usize> {
    let mut out = String::new();
    let mut m = Mode::Code;
    let mut i = 0;
    while i < s.len() {
        match m {
            Mode::Code => {
                if s[i] == '/' && i + 1 < s.len() && s[i + 1] == '/' { out.push_str("  "); m = Mode::Line; i += 2; }
                else if s[i] == '/' && i + 1 < s.len() && s[i + 1] == '*' { out.push_str("  "); m = Mode::Block(i); i += 2; }
                else { out.push(s[i]); i += 1; }
            }
            Mode::Line => {
                if s[i] == '\n' { out.push('\n'); m = Mode::Code; } else { for _ in 0..s[i].len_utf8() { out.push(' '); } }
                i += 1;
            }
            Mode::Block(_) => {
                if s[i] == '*' && i + 1 < s.len() && s[i + 1] == '/' { out.push_str("  "); m = Mode::Code; i += 2; }
                else { for _ in 0..s[i].len_utf8() { out.push(' '); } i += 1; }
            }
        }
    }
    match m { Mode::Block(o) => Err(o), _ => Ok(out) }
}

fn boff(s: &[char], i: usize) -> usize { s[..i].iter().map(|c| c.len_utf8()).sum() }

#[derive(Debug)]
enum Got { Ok(String), Err(Option<(usize, usize)>), Panic }

fn run(text: &str) -> Got {
    match catch_unwind(AssertUnwindSafe(|| preprocess(text, 0))) {
        Err(_) => Got::Panic,
        Ok(Ok(pp)) => Got::Ok(pp),
        Ok(Err(rep)) => Got::Err(rep.primary().first().map(|l| (l.range.start, l.range.end))),
    }
}

/// None = agrees with the contract; Some((obligation, what))
fn judge(text: &str) -> Option<(String, String)> {
    let s: Vec<char> = text.chars().collect();
    let want = strip(&s);
    match (run(text), want) {
        (Got::Panic, _) => Some(("strip|preprocess|safety|0".into(), "preprocess panicked".into())),
        (Got::Ok(pp), Ok(w)) => {
            if pp == w { None } else { Some(("strip|preprocess|ensures|0".into(), format!("output {:?}, reference lexer gives {:?}", pp, w))) }
        }
        (Got::Ok(pp), Err(o)) => Some(("strip|preprocess|ensures|0".into(), format!("accepted (output {:?}) although the block comment opened at char {} is never closed", pp, o))),
        (Got::Err(_), Ok(w)) => Some(("strip|preprocess|ensures|1".into(), format!("reported an unterminated comment although every comment is closed (reference output {:?})", w))),
        (Got::Err(loc), Err(o)) => {
            let lo = boff(&s, o);
            match loc {
                Some((a, b)) if a == b && lo <= a && a <= lo + 2 => None,
                other => Some(("strip|preprocess|ensures|2".into(), format!("unterminated-comment label {:?} is not the byte position of the opener ({}..={})", other, lo, lo + 2))),
            }
        }
    }
}

fn hex(s: &str) -> String { s.bytes().map(|b| format!("{:02x}", b)).collect() }
fn unhex(h: &str) -> String {
    let b: Vec<u8> = (0..h.len() / 2).map(|i| u8::from_str_radix(&h[2 * i..2 * i + 2], 16).unwrap()).collect();
    String::from_utf8(b).unwrap()
}
fn jstr(s: &str) -> String {
    let mut o = String::from("\"");
    for c in s.chars() {
        match c { '"' => o.push_str("\\\""), '\\' => o.push_str("\\\\"), '\n' => o.push_str("\\n"), c if (c as u32) < 0x20 => o.push_str(&format!("\\u{:04x}", c as u32)), c => o.push(c) }
    }
    o.push('"');
    o
}

fn main() {
    std::panic::set_hook(Box::new(|_| {}));
    let args: Vec<String> = std::env::args().collect();
    match args.get(1).map(|s| s.as_str()) {
        Some("bounded") => {
            let tier = args.get(2).map(|s| s.as_str()).unwrap_or("quick");
            let seed: u64 = args.get(3).and_then(|s| s.parse().ok()).unwrap_or(0);
            let alpha = ['/', '*', 'a', '\n', 'é'];
            let maxlen = if tier == "thorough" { 9 } else { 7 };
            let mut evals = 0u64;
            let mut nontrivial = 0u64;
            let mut viol: Vec<String> = vec![];
            let mut samples: Vec<String> = vec![];
            for len in 0..=maxlen {
                let total = (alpha.len() as u64).pow(len as u32);
                for n in 0..total {
                    let mut k = n;
                    let mut t = String::new();
                    for _ in 0..len { t.push(alpha[(k % 5) as usize]); k /= 5; }
                    evals += 1;
                    // non-trivial: the string contains a comment opener (each enumerated string is distinct)
                    if t.contains("//") || t.contains("/*") { nontrivial += 1; }
                    if evals % 40009 == 7 && samples.len() < 8 { samples.push(format!("{{\"input\":{},\"hex\":\"{}\"}}", jstr(&t), hex(&t))); }
                    if let Some((ob, what)) = judge(&t) {
                        if viol.len() < 20 {
                            viol.push(format!("{{\"unit\":\"strip\",\"fn\":\"preprocess\",\"obligation\":{},\"input\":{},\"hex\":\"{}\",\"what\":{},\"replay\":\"replay_parser replay {}\"}}",
                                jstr(&ob), jstr(&t), hex(&t), jstr(&format!("preprocess({}): {}", jstr(&t), what)), hex(&t)));
                        }
                    }
                }
            }
            // seeded random longer strings over a wider alphabet
            let wide: Vec<char> = "/*a \n\r\"'é€😀\\".chars().collect();
            let mut x = 0x9E3779B97F4A7C15u64 ^ seed.wrapping_mul(0xD1B54A32D192ED03) | 1;
            let nrand = if tier == "thorough" { 400000 } else { 20000 };
            for _ in 0..nrand {
                x ^= x << 13; x ^= x >> 7; x ^= x << 17;
                let len = 8 + (x % 40) as usize;
                let mut t = String::new();
                let mut y = x;
                for _ in 0..len { y ^= y << 13; y ^= y >> 7; y ^= y << 17; let r = (y % 16) as usize; t.push(if r < 5 { '/' } else if r < 10 { '*' } else { wide[(y / 16 % wide.len() as u64) as usize] }); }
                evals += 1;
                if t.contains("//") || t.contains("/*") { nontrivial += 1; }
                if let Some((ob, what)) = judge(&t) {
                    if viol.len() < 20 {
                        viol.push(format!("{{\"unit\":\"strip\",\"fn\":\"preprocess\",\"obligation\":{},\"input\":{},\"hex\":\"{}\",\"what\":{},\"replay\":\"replay_parser replay {}\"}}",
                            jstr(&ob), jstr(&t), hex(&t), jstr(&format!("preprocess({}): {}", jstr(&t), what)), hex(&t)));
                    }
                }
            }
            println!("{{\"unit\":\"strip\",\"evaluations\":{},\"distinct_nontrivial\":{},\"exhaustive\":true,\"rule\":{},\"bound\":{},\"samples\":[{}],\"violations\":[{}]}}",
                evals, nontrivial,
                jstr("the real compiled preprocess vs the reference lexer on every string; non-trivial = contains a comment opener; enumerated strings are pairwise distinct"),
                jstr(&format!("all strings of length <= {} over {{'/','*','a','\\n','é'}} (exhaustive), plus {} seeded random strings of length 8..48 over a wider alphabet (quotes, CR, 3- and 4-byte characters)", maxlen, nrand)),
                samples.join(","), viol.join(","));
        }
        Some("replay") => {
            let t = unhex(&args[2]);
            let s: Vec<char> = t.chars().collect();
            println!("input {:?}\n real preprocess -> {:?}\n reference lexer -> {:?}", t, run(&t), strip(&s));
            match judge(&t) { Some((ob, what)) => { println!(" VIOLATES {}: {}", ob, what); std::process::exit(1) } None => println!(" agrees with the contract") }
        }
        _ => { eprintln!("usage: replay_parser bounded <tier> <seed> | replay <hex>"); std::process::exit(2) }
    }
}
