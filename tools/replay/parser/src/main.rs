//! replay_parser — bounded engine and witness replay for unit `strip` (C05, C04): the REAL compiled
//! parser_logic::preprocess (through the `verif` feature hook) against an executable mirror of the reference
//! lexer of units/strip/spec.rs.
use parser::verif_hooks::preprocess;
mod ssa_check;
mod paths_check;
use std::panic::{catch_unwind, AssertUnwindSafe};

#[derive(Clone, Copy, PartialEq)]
enum Mode { Code, Line, Block(usize) }

/// reference lexer (mirror of spec fn strip_from): Ok(blanked text) or Err(char index of the unterminated opener)
fn strip(s: &[char]) -> Result<String, usize> {
    let mut out = String::new();
    let mut m = Mode::Code;
    let mut i = 0;
    while i < s.len() {
        match m {
            Mode::Code => {
                if s[i] == '/' && i + 1 < s.len() && s[i + 1] == '/' { out.push_str("  "); m = Mode::Line; i += 2; }
                else if s[i] == '/' && i + 1 < s.len() && s[i + 1] == '*' { out.push_str("  "); m = Mode::Block(i); i += 2; }
                else { out.push(s[i]); i += 1; }
            }
            Mode::Line => {
                if s[i] == '\n' { out.push('\n'); m = Mode::Code; } else { for _ in 0..s[i].len_utf8() { out.push(' '); } }
                i += 1;
            }
            Mode::Block(_) => {
                if s[i] == '*' && i + 1 < s.len() && s[i + 1] == '/' { out.push_str("  "); m = Mode::Code; i += 2; }
                else { for _ in 0..s[i].len_utf8() { out.push(' '); } i += 1; }
            }
        }
    }
    match m { Mode::Block(o) => Err(o), _ => Ok(out) }
}

fn boff(s: &[char], i: usize) -> usize { s[..i].iter().map(|c| c.len_utf8()).sum() }

#[derive(Debug)]
enum Got { Ok(String), Err(Option<(usize, usize)>), Panic }

fn run(text: &str) -> Got {
    match catch_unwind(AssertUnwindSafe(|| preprocess(text, 0))) {
        Err(_) => Got::Panic,
        Ok(Ok(pp)) => Got::Ok(pp),
        Ok(Err(rep)) => Got::Err(rep.primary().first().map(|l| (l.range.start, l.range.end))),
    }
}

/// None = agrees with the contract; Some((obligation, what))
fn judge(text: &str) -> Option<(String, String)> {
    let s: Vec<char> = text.chars().collect();
    let want = strip(&s);
    match (run(text), want) {
        (Got::Panic, _) => Some(("strip|preprocess|safety|0".into(), "preprocess panicked".into())),
        (Got::Ok(pp), Ok(w)) => {
            if pp == w { None } else { Some(("strip|preprocess|ensures|0".into(), format!("output {:?}, reference lexer gives {:?}", pp, w))) }
        }
        (Got::Ok(pp), Err(o)) => Some(("strip|preprocess|ensures|0".into(), format!("accepted (output {:?}) although the block comment opened at char {} is never closed", pp, o))),
        (Got::Err(_), Ok(w)) => Some(("strip|preprocess|ensures|1".into(), format!("reported an unterminated comment although every comment is closed (reference output {:?})", w))),
        (Got::Err(loc), Err(o)) => {
            let lo = boff(&s, o);
            match loc {
                Some((a, b)) if a == lo && b == lo + 2 => None,
                other => Some(("strip|preprocess|ensures|2".into(), format!("unterminated-comment label {:?} is not the opener `/*` ({}..{})", other, lo, lo + 2))),
            }
        }
    }
}

fn hex(s: &str) -> String { s.bytes().map(|b| format!("{:02x}", b)).collect() }
fn unhex(h: &str) -> String {
    let b: Vec<u8> = (0..h.len() / 2).map(|i| u8::from_str_radix(&h[2 * i..2 * i + 2], 16).unwrap()).collect();
    String::from_utf8(b).unwrap()
}
pub(crate) fn jstr(s: &str) -> String {
    let mut o = String::from("\"");
    for c in s.chars() {
        match c { '"' => o.push_str("\\\""), '\\' => o.push_str("\\\\"), '\n' => o.push_str("\\n"), c if (c as u32) < 0x20 => o.push_str(&format!("\\u{:04x}", c as u32)), c => o.push(c) }
    }
    o.push('"');
    o
}

// ---------------------------------------------------------------------------------------------
// cfg: the control-flow graph of every small function body (C12, BOUNDED stand-in)
use program_structure::cfg::{Cfg, IntoCfg};
use program_structure::constants::Curve;
use program_structure::ir::Statement as IrStatement;
use program_structure::report::ReportCollection;

#[derive(Clone, Debug)]
pub(crate) enum S { Simple, If(Vec<S>), IfElse(Vec<S>, Vec<S>), While(Vec<S>), IfBare(Box<S>), WhileBare(Box<S>) }

fn size(s: &S) -> usize {
    match s { S::Simple => 1, S::If(b) | S::While(b) => 1 + b.iter().map(size).sum::<usize>(), S::IfElse(a, b) => 1 + a.iter().map(size).sum::<usize>() + b.iter().map(size).sum::<usize>(), S::IfBare(x) | S::WhileBare(x) => 1 + size(x) }
}

/// all statement lists of total size n
pub(crate) fn lists(n: usize, memo: &mut std::collections::HashMap<usize, Vec<Vec<S>>>) -> Vec<Vec<S>> {
    if let Some(v) = memo.get(&n) { return v.clone(); }
    let mut out = vec![];
    if n == 0 { out.push(vec![]); }
    else {
        for first in 1..=n {
            for head in stmts(first, memo) {
                for tail in lists(n - first, memo) {
                    let mut l = vec![head.clone()];
                    l.extend(tail);
                    out.push(l);
                }
            }
        }
    }
    memo.insert(n, out.clone());
    out
}
/// all single statements of size n
fn stmts(n: usize, memo: &mut std::collections::HashMap<usize, Vec<Vec<S>>>) -> Vec<S> {
    let mut out = vec![];
    if n == 1 { out.push(S::Simple); }
    if n >= 1 {
        for b in lists(n - 1, memo) { out.push(S::If(b.clone())); out.push(S::While(b)); }
        for a in 0..n { for x in lists(a, memo) { for y in lists(n - 1 - a, memo) { out.push(S::IfElse(x.clone(), y.clone())); } } }
        if n >= 2 { for x in stmts(n - 1, memo) { if !matches!(x, S::IfBare(_) | S::If(_) | S::IfElse(..)) { out.push(S::IfBare(Box::new(x.clone()))); } out.push(S::WhileBare(Box::new(x))); } }
    }
    out
}

/// source text; simple statements and conditions carry the loop depth they are written at: `y += 100 + d`, `x < 1000 + d`
fn render(l: &[S], d: usize, out: &mut String) {
    for s in l {
        match s {
            S::Simple => out.push_str(&format!("y += {};\n", 100 + d)),
            S::If(b) => { out.push_str(&format!("if (x < {}) {{\n", 1000 + d)); render(b, d, out); out.push_str("}\n"); }
            S::IfElse(a, b) => { out.push_str(&format!("if (x < {}) {{\n", 1000 + d)); render(a, d, out); out.push_str("} else {\n"); render(b, d, out); out.push_str("}\n"); }
            S::While(b) => { out.push_str(&format!("while (x < {}) {{\n", 1000 + d)); render(b, d + 1, out); out.push_str("}\n"); }
            S::IfBare(x) => { out.push_str(&format!("if (x < {})\n", 1000 + d)); render(std::slice::from_ref(&**x), d, out); }
            S::WhileBare(x) => { out.push_str(&format!("while (x < {})\n", 1000 + d)); render(std::slice::from_ref(&**x), d + 1, out); }
        }
    }
}

pub(crate) fn numbers_in(text: &str) -> Vec<usize> {
    let mut v = vec![]; let mut cur = String::new();
    for c in text.chars() { if c.is_ascii_digit() { cur.push(c); } else { if !cur.is_empty() { v.push(cur.parse().unwrap_or(0)); cur.clear(); } } }
    if !cur.is_empty() { v.push(cur.parse().unwrap_or(0)); }
    v
}

/// None = well formed; Some((clause, what))
fn check_cfg(cfg: &Cfg) -> Option<(String, String)> {
    let n = cfg.len();
    let blocks: Vec<_> = cfg.iter().collect();
    for (k, b) in blocks.iter().enumerate() {
        if b.index() != k { return Some(("I1".into(), format!("block at position {} has index {}", k, b.index()))); }
        for &p in b.predecessors() { if p >= n || !blocks[p].successors().contains(&k) { return Some(("I2".into(), format!("{} is a predecessor of {} but {} is not a successor of {}", p, k, k, p))); } }
        for &s in b.successors() { if s >= n || !blocks[s].predecessors().contains(&k) { return Some(("I2".into(), format!("{} is a successor of {} but {} is not a predecessor of {}", s, k, k, s))); } }
        let stmts = b.statements();
        let mut has_branch = false;
        for (i, st) in stmts.iter().enumerate() {
            if let IrStatement::IfThenElse { true_index, false_index, .. } = st {
                if i + 1 != stmts.len() { return Some(("I5".into(), format!("block {}: a branch statement is not the last statement", k))); }
                has_branch = true;
                if *true_index >= n || !b.successors().contains(true_index) { return Some(("I6".into(), format!("block {}: true target {} is not an existing successor", k, true_index))); }
                if let Some(f) = false_index { if *f >= n || !b.successors().contains(f) { return Some(("I6".into(), format!("block {}: false target {} is not an existing successor", k, f))); } }
            }
            // loop depth: the literal written into the statement encodes the depth it was written at
            let text = format!("{}", st);
            for v in numbers_in(&text) {
                let d = if (100..200).contains(&v) { Some(v - 100) } else if (1000..1100).contains(&v) { Some(v - 1000) } else { None };
                if let Some(d) = d { if d != b.loop_depth() { return Some(("I8".into(), format!("block {} has loop depth {} but holds `{}` written at depth {}", k, b.loop_depth(), text, d))); } }
            }
        }
        let lim = if has_branch { 2 } else { 1 };
        if b.successors().len() > lim { return Some(("I7".into(), format!("block {} has {} successors ({} allowed)", k, b.successors().len(), lim))); }
    }
    if !blocks[0].predecessors().is_empty() { return Some(("I3".into(), "the entry block has a predecessor".into())); }
    // reachability
    let mut seen = vec![false; n]; seen[0] = true; let mut st = vec![0usize];
    while let Some(u) = st.pop() { for &v in blocks[u].successors() { if !seen[v] { seen[v] = true; st.push(v); } } }
    if let Some(u) = seen.iter().position(|x| !x) { return Some(("I4".into(), format!("block {} is not reachable from the entry", u))); }
    // dominance order: i dom j => i <= j   (dominators recomputed here by removal)
    for d in 1..n {
        let mut s2 = vec![false; n]; s2[0] = true; let mut st = vec![0usize];
        while let Some(u) = st.pop() { for &v in blocks[u].successors() { if v != d && !s2[v] { s2[v] = true; st.push(v); } } }
        for j in 0..n { if j != d && !s2[j] && d > j { return Some(("I9".into(), format!("block {} dominates block {} but has the larger index", d, j))); } }
    }
    None
}

fn cfg_bounded(tier: &str) {
    let maxsize = if tier == "thorough" { 6 } else { 4 };
    let mut memo = std::collections::HashMap::new();
    let mut evals = 0u64; let mut nontrivial = 0u64; let mut skipped = 0u64;
    let mut viol: Vec<String> = vec![]; let mut seen_ob: std::collections::BTreeSet<String> = Default::default();
    let mut samples: Vec<String> = vec![];
    let started = std::time::Instant::now();
    let budget = std::time::Duration::from_secs(if tier == "thorough" { 5400 } else { 150 });
    let mut cut_short = false;
    'outer: for n in 0..=maxsize {
        for l in lists(n, &mut memo) {
            if started.elapsed() > budget { cut_short = true; break 'outer; }
            let mut body = String::new();
            render(&l, 0, &mut body);
          // two frames: a leading declaration (the entry block is not empty when the body starts), and `y` as a parameter
          // (the body's first statement is the first statement of the definition: loops / branches in the entry block)
          for frame in 0..2 {
            let src = if frame == 0 { format!("function f(x) {{\nvar y = 0;\n{}return y;\n}}\n", body) } else { format!("function f(x, y) {{\n{}return y;\n}}\n", body) };
            evals += 1;
            if body.contains("while") || body.contains("if") { nontrivial += 1; }
            if evals % 1499 == 1 && samples.len() < 6 { samples.push(jstr(&src)); }
            let r = catch_unwind(AssertUnwindSafe(|| {
                let def = match parser::parse_definition(&src) { Some(d) => d, None => return Err(true) };
                let mut reports = ReportCollection::new();
                def.into_cfg(&Curve::default(), &mut reports).map_err(|_| false)
            }));
            let verdict = match r {
                Err(_) => Some(("safety".to_string(), "into_cfg panicked".to_string())),
                Ok(Err(true)) => { evals -= 1; skipped += 1; if body.contains("while") || body.contains("if") { nontrivial -= 1; } None } // the Circom grammar rejects this shape (e.g. a bare `if` without else as a loop body)
                Ok(Err(false)) => Some(("lift".to_string(), "a body accepted by the parser did not lift to a CFG".to_string())),
                Ok(Ok(cfg)) => check_cfg(&cfg),
            };
            if let Some((cl, what)) = verdict {
                let ob = format!("cfg|build_basic_blocks|bounded|{}", cl);
                if seen_ob.insert(ob.clone()) {
                    viol.push(format!("{{\"unit\":\"cfg\",\"fn\":\"build_basic_blocks\",\"obligation\":{},\"input\":{},\"what\":{},\"replay\":\"replay_parser bounded-cfg\"}}", jstr(&ob), jstr(&src), jstr(&format!("{} — for\n{}", what, src))));
                }
            }
          }
        }
    }
    if cut_short { skipped += 0; }
    println!("{{\"unit\":\"cfg\",\"evaluations\":{},\"distinct_nontrivial\":{},\"exhaustive\":{},\"rule\":{},\"bound\":{},\"samples\":[{}],\"violations\":[{}]}}",
        evals, nontrivial, if cut_short { "false" } else { "true" },
        jstr("every function body built from simple statements, if, if-else, while, braced and bare bodies, empty blocks, each once after a leading declaration and once as the very first statements of the definition, parsed and lifted by the real code (parse_definition + into_cfg), checked against the C12 well-formedness clauses I1-I9 (index, mirrored edges, entry, reachability, branch last, targets, successor count, loop depth, dominance order); non-trivial = contains control flow; bodies are pairwise distinct"),
        jstr(&format!("all statement lists with at most {} statement nodes (nesting unrestricted within that size); {} shapes rejected by the Circom grammar skipped{}", maxsize, skipped, if cut_short { "; ENUMERATION CUT SHORT by the engine's time budget (the code under test is far slower than on the unchanged tree)" } else { "" })),
        samples.join(","), viol.join(","));
}

// ---------------------------------------------------------------------------------------------
// timebox: value and degree propagation stopped after any number of passes (C20, BOUNDED stand-in).
// The pass budget of program_structure::verif_hooks (feature `verif`) stands in for the wall-clock time box.
// Each sample carries its ground truth: which `<--` right-hand sides really are at most quadratic in the signals, and
// which branch conditions really are constant.  A claim outside the ground truth at ANY cut point is a violation.
struct TbSample { name: &'static str, src: &'static str, quadratic_ok: &'static [&'static str], const_conds: &'static [(&'static str, bool)] }

const TB_SAMPLES: &[TbSample] = &[
    TbSample { name: "accumulate-product", src: "template T(n) {\n signal input in; signal output out;\n var acc = 1;\n for (var i = 0; i < n; i++) { acc = acc * in; }\n out <-- acc;\n}\n",
               quadratic_ok: &[], const_conds: &[] },
    TbSample { name: "accumulate-product-use-before-update", src: "template T(n) {\n signal input in; signal output out; signal output mid[4];\n var acc = 1;\n for (var i = 0; i < n; i++) { mid[i] <-- acc; acc = acc * in; }\n out <-- acc * acc;\n}\n",
               quadratic_ok: &[], const_conds: &[] },
    TbSample { name: "straight-line-quadratic", src: "template T() {\n signal input in; signal output out;\n var a = in; var b = a * in;\n out <-- b;\n}\n",
               quadratic_ok: &["out"], const_conds: &[] },
    TbSample { name: "linear-accumulator-squared", src: "template T(n) {\n signal input in; signal output out;\n var t = 0;\n for (var i = 0; i < n; i++) { t = t + in; }\n out <-- t * t;\n}\n",
               quadratic_ok: &["out"], const_conds: &[] },
    TbSample { name: "nested-squaring", src: "template T(n) {\n signal input in; signal output out;\n var p = in;\n for (var i = 0; i < n; i++) { for (var j = 0; j < n; j++) { p = p * p; } }\n out <-- p;\n}\n",
               quadratic_ok: &[], const_conds: &[] },
    TbSample { name: "branch-raises-degree", src: "template T(n) {\n signal input in; signal output out;\n var q = in;\n if (n == 1) { q = q * in * in; }\n out <-- q;\n}\n",
               quadratic_ok: &[], const_conds: &[] },
    TbSample { name: "counter-compared", src: "template T(n) {\n signal input in; signal output out;\n var c = 0;\n for (var i = 0; i < n; i++) { c = c + 1; }\n var r = 0;\n if (c == 0) { r = 1; }\n out <== in * r;\n}\n",
               quadratic_ok: &[], const_conds: &[] },
    TbSample { name: "same-constant-on-both-paths", src: "template T(n) {\n signal input in; signal output out;\n var c = 1;\n if (n == 0) { c = 1; }\n var r = 0;\n if (c == 1) { r = 1; }\n out <== in * r;\n}\n",
               quadratic_ok: &[], const_conds: &[("c == 1", true)] },
    TbSample { name: "array-slot-overwritten", src: "template T() {\n signal input a; signal input b; signal input c; signal output out;\n var x[2] = [a * b, a * b];\n x[0] = 0;\n out <-- x[1] * c;\n out * 1 === a * b * c;\n}\n",
               quadratic_ok: &[], const_conds: &[] },
    TbSample { name: "array-slot-raised-later", src: "template T() {\n signal input a; signal input b; signal output out;\n var x[2] = [a, a];\n x[1] = a * b;\n x[0] = 1;\n out <-- x[1] * b;\n}\n",
               quadratic_ok: &[], const_conds: &[] },
    TbSample { name: "component-port-cubed", src: "template T() {\n signal input in; signal output out;\n component sq = Square();\n sq.in <== in;\n out <-- sq.out * sq.out * sq.out;\n}\n",
               quadratic_ok: &[], const_conds: &[] },
    TbSample { name: "component-port-squared", src: "template T() {\n signal input in; signal output out;\n component sq = Square();\n sq.in <== in;\n out <-- sq.out * sq.out;\n}\n",
               quadratic_ok: &["out"], const_conds: &[] },
    TbSample { name: "component-array-port-cubed", src: "template T() {\n signal input in; signal output out;\n component c[2];\n c[0] = Square(); c[1] = Square();\n c[0].in <== in; c[1].in <== in;\n out <-- c[0].out * c[1].out * in;\n}\n",
               quadratic_ok: &[], const_conds: &[] },
    TbSample { name: "signal-times-signal-times-param", src: "template T(n) {\n signal input a; signal input b; signal output out; signal output out2;\n out <-- a * b * n;\n out2 <-- a * b * a;\n}\n",
               quadratic_ok: &["out"], const_conds: &[] },
    TbSample { name: "intermediate-signal-product", src: "template T() {\n signal input a; signal output out; signal s;\n s <== a * a;\n out <-- s * s * s;\n}\n",
               quadratic_ok: &[], const_conds: &[] },
    TbSample { name: "array-shuffled-in-loop", src: "template T() {\n signal input in[2]; signal output out[2];\n var acc[2] = [in[1], in[0] * in[1] * in[0]];\n for (var i = 0; i < 2; i++) { acc[i] = 1; out[i] <-- acc[1 - i]; }\n out[0] * out[1] === in[0];\n}\n",
               quadratic_ok: &[], const_conds: &[] },
    TbSample { name: "array-slot-overwritten-in-loop-other-read-after", src: "template T(n) {\n signal input in[2]; signal output out;\n var acc[2] = [in[0], in[0] * in[0] * in[1]];\n for (var i = 0; i < n; i++) { acc[0] = 1; }\n out <-- acc[1];\n}\n",
               quadratic_ok: &[], const_conds: &[] },
    TbSample { name: "array-constant-slots-in-loop", src: "template T(n) {\n signal input in; signal output out;\n var acc[2] = [1, 2];\n for (var i = 0; i < n; i++) { acc[1] = acc[0] + 1; }\n out <-- acc[1] * in;\n}\n",
               quadratic_ok: &["out"], const_conds: &[] },
    TbSample { name: "array-slot-reset-around-read-in-loop", src: "template T() {\n signal input a; signal input x; signal input y; signal output b[2];\n var arr[2] = [a, a];\n for (var i = 0; i < 2; i++) { arr[0] = 0; b[i] <-- arr[1] * x * y; arr[0] = 1; }\n}\n",
               quadratic_ok: &[], const_conds: &[] },
    TbSample { name: "array-slot-reset-around-call-in-loop", src: "template T() {\n signal input a; signal output b[2];\n var arr[2] = [a, a];\n for (var i = 0; i < 2; i++) { arr[0] = 0; b[i] <-- cube(arr[1]); arr[0] = 1; }\n}\n",
               quadratic_ok: &[], const_conds: &[] },
    TbSample { name: "array-slot-reset-around-ternary-in-loop", src: "template T() {\n signal input a; signal input x; signal output b[2];\n var arr[2] = [a, a];\n for (var i = 0; i < 2; i++) { arr[0] = 0; b[i] <-- arr[1] == 5 ? x : x * x; arr[0] = 1; }\n}\n",
               quadratic_ok: &[], const_conds: &[] },
    TbSample { name: "array-first-write-after-unknown-degree", src: "template T() {\n signal input a; signal output b;\n var w[3];\n w[0] = a > 3 ? 1 : 0;\n w[1] = 1;\n b <-- w[0];\n}\n",
               quadratic_ok: &[], const_conds: &[] },
    TbSample { name: "constant-overwritten-in-loop", src: "template T(n) {\n signal input in; signal output out;\n var c = 5;\n for (var i = 0; i < n; i++) { c = c * 2; }\n var r = 0;\n if (c == 5) { r = 1; }\n out <== in * r;\n}\n",
               quadratic_ok: &[], const_conds: &[] },
];

fn timebox_bounded(tier: &str) {
    use program_structure::ir::degree_meta::DegreeMeta;
    use program_structure::ir::value_meta::{ValueMeta, ValueReduction};
    use program_structure::ir::{AssignOp, Statement};
    let max_budget: isize = if tier == "thorough" { 60 } else { 24 };
    let mut evals = 0u64; let mut nontrivial = 0u64;
    let mut viol: Vec<String> = vec![]; let mut seen_ob: std::collections::BTreeSet<String> = Default::default();
    let mut samples: Vec<String> = vec![];
    let mut claims_seen = 0u64;
    for smp in TB_SAMPLES {
        let mut budgets: Vec<isize> = vec![-1];
        budgets.extend(1..=max_budget);
        for b in budgets {
            evals += 1; nontrivial += 1;
            let r = catch_unwind(AssertUnwindSafe(|| {
                let def = parser::parse_definition(smp.src).ok_or("parse")?;
                let mut reports = ReportCollection::new();
                let cfg = def.into_cfg(&Curve::default(), &mut reports).map_err(|_| "lift")?;
                program_structure::verif_hooks::set_pass_budget(b);
                let ssa = cfg.into_ssa().map_err(|_| "ssa");
                program_structure::verif_hooks::set_pass_budget(-1);
                ssa
            }));
            program_structure::verif_hooks::set_pass_budget(-1);
            let mut bad: Option<(String, String)> = None;
            match r {
                Err(_) => bad = Some(("safety".into(), "the tool panicked".into())),
                Ok(Err(e)) => bad = Some(("completes".into(), format!("the definition did not reach SSA form ({})", e))),
                Ok(Ok(cfg)) => {
                    for bb in cfg.iter() {
                        for st in bb.iter() {
                            match st {
                                Statement::Substitution { var, op: AssignOp::AssignSignal, rhe, .. } => {
                                    if let Some(range) = rhe.degree() {
                                        if range.is_quadratic() {
                                            claims_seen += 1;
                                            let name = format!("{}", var);
                                            let base = name.split('.').next().unwrap_or(&name).to_string();
                                            if !smp.quadratic_ok.iter().any(|q| *q == base) {
                                                bad = Some(("degree".into(), format!("`{} <-- {}` is annotated as at most quadratic ({:?}), but the right-hand side is not a polynomial of degree <= 2 in the signals", name, rhe, range)));
                                            }
                                        }
                                    }
                                }
                                Statement::IfThenElse { cond, .. } => {
                                    if let Some(ValueReduction::Boolean { value }) = cond.value() {
                                        claims_seen += 1;
                                        let text = format!("{}", cond);
                                        let ok = smp.const_conds.iter().any(|(c, v)| text.replace(|ch: char| ch == '.' || ch.is_ascii_digit() && false, "").contains(&c.replace(' ', "")) || (strip_versions(&text) == c.replace(' ', "") && v == value));
                                        let ok = ok && smp.const_conds.iter().any(|(c, v)| strip_versions(&text) == c.replace(' ', "") && v == value);
                                        if !ok {
                                            bad = Some(("value".into(), format!("the condition `{}` is annotated as always {}, but it is not constant", text, value)));
                                        }
                                    }
                                }
                                _ => {}
                            }
                        }
                    }
                }
            }
            if samples.len() < 6 && (b == 3 || b == -1) && samples.len() < 6 { samples.push(jstr(&format!("{} @ budget {}", smp.name, b))); }
            if let Some((cl, what)) = bad {
                // a wrong claim at the fixpoint is a C07 / C06 matter as well; at an intermediate cut point it is C20's
                let ob = if b < 0 { format!("timebox|Cfg::propagate|bounded|{}-at-fixpoint", cl) } else { format!("timebox|Cfg::propagate|bounded|{}", cl) };
                let props = if b < 0 { if cl == "degree" { "[\"C07\",\"C20\"]" } else if cl == "value" { "[\"C06\",\"C20\"]" } else { "[\"C20\",\"C01\"]" } } else { "[\"C20\"]" };
                if seen_ob.insert(ob.clone()) {
                    viol.push(format!("{{\"unit\":\"timebox\",\"fn\":\"Cfg::propagate_values/propagate_degrees\",\"props\":{},\"obligation\":{},\"input\":{},\"what\":{},\"replay\":\"replay_parser bounded-timebox\"}}",
                        props, jstr(&ob), jstr(&format!("{} stopped after {} pass(es)", smp.name, b)), jstr(&format!("sample `{}` with propagation stopped after {} pass(es): {} — source:\n{}", smp.name, b, what, smp.src))));
                }
            }
        }
    }
    println!("{{\"unit\":\"timebox\",\"evaluations\":{},\"distinct_nontrivial\":{},\"exhaustive\":false,\"rule\":{},\"bound\":{},\"samples\":[{}],\"violations\":[{}]}}",
        evals, nontrivial,
        jstr("the real parse_definition + into_cfg + into_ssa with value and degree propagation stopped after b passes (pass budget hook = the time box expiring there), for every b up to the bound and for the fixpoint: the run completes, and every `at most quadratic` annotation on a `<--` right-hand side and every `always true/false` annotation on a branch condition is within the sample's hand-written ground truth"),
        jstr(&format!("{} hand-labelled templates (loop accumulators whose degree grows, uses before updates, nested loops, branches, counters, array slots overwritten, component ports and intermediate signals in products) x pass budgets 1..{} and unlimited; {} claims observed", TB_SAMPLES.len(), max_budget, claims_seen)),
        samples.join(","), viol.join(","));
}

/// `c.3 == 1` -> `c==1` (SSA versions and blanks removed)
fn strip_versions(s: &str) -> String {
    let mut out = String::new();
    let cs: Vec<char> = s.chars().collect();
    let mut i = 0;
    while i < cs.len() {
        if cs[i] == '.' && i + 1 < cs.len() && cs[i + 1].is_ascii_digit() && i > 0 && (cs[i - 1].is_alphanumeric() || cs[i - 1] == '_') {
            i += 1;
            while i < cs.len() && cs[i].is_ascii_digit() { i += 1; }
            continue;
        }
        if !cs[i].is_whitespace() && cs[i] != '(' && cs[i] != ')' { out.push(cs[i]); }
        i += 1;
    }
    out
}

fn main() {
    std::panic::set_hook(Box::new(|_| {}));
    let args: Vec<String> = std::env::args().collect();
    match args.get(1).map(|s| s.as_str()) {
        Some("ssa-reads") => {
            // one definition from a file -> CFG -> SSA; every read of a local variable must name a parameter or a variable
            // some statement writes, with the same (name, suffix, version), and no versioned local is written twice
            use program_structure::ir::variable_meta::VariableMeta;
            let src = std::fs::read_to_string(&args[2]).unwrap_or_default();
            let r = catch_unwind(AssertUnwindSafe(|| {
                let def = match parser::parse_definition(&src) { Some(d) => d, None => return Err("parse".to_string()) };
                let mut reports = ReportCollection::new();
                let cfg = def.into_cfg(&Curve::default(), &mut reports).map_err(|_| "lift".to_string())?;
                let cfg = cfg.into_ssa().map_err(|_| "ssa".to_string())?;
                let mut defined: std::collections::BTreeMap<String, usize> = Default::default();
                let key = |n: &program_structure::ir::VariableName| format!("{}|{:?}|{:?}", n.name(), n.suffix(), n.version());
                for p in cfg.parameters().iter() { *defined.entry(key(p)).or_insert(0) += 1; }
                for bb in cfg.iter() { for st in bb.iter() { for w in st.locals_written() { *defined.entry(key(w.name())).or_insert(0) += 1; } } }
                let mut undefined: std::collections::BTreeSet<String> = Default::default();
                let mut nreads = 0usize;
                for bb in cfg.iter() { for st in bb.iter() { for rd in st.locals_read() {
                    nreads += 1;
                    let k = key(rd.name());
                    if !defined.contains_key(&k) { undefined.insert(format!("{} (bytes {}..{})", k, rd.meta().location.start, rd.meta().location.end)); }
                } } }
                let twice: Vec<String> = defined.iter().filter(|(_, n)| **n > 1).map(|(k, n)| format!("{} x{}", k, n)).collect();
                Ok((nreads, defined.len(), undefined.into_iter().collect::<Vec<_>>(), twice))
            }));
            match r {
                Err(_) => println!("{{\"status\":\"panic\"}}"),
                Ok(Err(e)) => println!("{{\"status\":{}}}", jstr(&e)),
                Ok(Ok((nreads, ndefs, und, twice))) => println!("{{\"status\":\"ok\",\"reads\":{},\"definitions\":{},\"undefined_reads\":[{}],\"written_twice\":[{}]}}", nreads, ndefs,
                    und.iter().map(|s| jstr(s)).collect::<Vec<_>>().join(","), twice.iter().map(|s| jstr(s)).collect::<Vec<_>>().join(",")),
            }
        }
        Some("bounded-paths") => { paths_check::paths_bounded(args.get(2).map(|s| s.as_str()).unwrap_or("quick")); }
        Some("bounded-ssa") => { ssa_check::ssa_bounded(args.get(2).map(|s| s.as_str()).unwrap_or("quick")); }
        Some("bounded-timebox") => { timebox_bounded(args.get(2).map(|s| s.as_str()).unwrap_or("quick")); }
        Some("bounded") => {
            let tier = args.get(2).map(|s| s.as_str()).unwrap_or("quick");
            let seed: u64 = args.get(3).and_then(|s| s.parse().ok()).unwrap_or(0);
            let alpha = ['/', '*', 'a', '\n', 'é'];
            let maxlen = if tier == "thorough" { 9 } else { 7 };
            let mut evals = 0u64;
            let mut nontrivial = 0u64;
            let mut viol: Vec<String> = vec![];
            let mut samples: Vec<String> = vec![];
            for len in 0..=maxlen {
                let total = (alpha.len() as u64).pow(len as u32);
                for n in 0..total {
                    let mut k = n;
                    let mut t = String::new();
                    for _ in 0..len { t.push(alpha[(k % 5) as usize]); k /= 5; }
                    evals += 1;
                    // non-trivial: the string contains a comment opener (each enumerated string is distinct)
                    if t.contains("//") || t.contains("/*") { nontrivial += 1; }
                    if evals % 40009 == 7 && samples.len() < 8 { samples.push(format!("{{\"input\":{},\"hex\":\"{}\"}}", jstr(&t), hex(&t))); }
                    if let Some((ob, what)) = judge(&t) {
                        if viol.len() < 20 {
                            viol.push(format!("{{\"unit\":\"strip\",\"fn\":\"preprocess\",\"obligation\":{},\"input\":{},\"hex\":\"{}\",\"what\":{},\"replay\":\"replay_parser replay {}\"}}",
                                jstr(&ob), jstr(&t), hex(&t), jstr(&format!("preprocess({}): {}", jstr(&t), what)), hex(&t)));
                        }
                    }
                }
            }
            // seeded random longer strings over a wider alphabet
            let wide: Vec<char> = "/*a \n\r\"'é€😀\\".chars().collect();
            let mut x = 0x9E3779B97F4A7C15u64 ^ seed.wrapping_mul(0xD1B54A32D192ED03) | 1;
            let nrand = if tier == "thorough" { 400000 } else { 20000 };
            for _ in 0..nrand {
                x ^= x << 13; x ^= x >> 7; x ^= x << 17;
                let len = 8 + (x % 40) as usize;
                let mut t = String::new();
                let mut y = x;
                for _ in 0..len { y ^= y << 13; y ^= y >> 7; y ^= y << 17; let r = (y % 16) as usize; t.push(if r < 5 { '/' } else if r < 10 { '*' } else { wide[(y / 16 % wide.len() as u64) as usize] }); }
                evals += 1;
                if t.contains("//") || t.contains("/*") { nontrivial += 1; }
                if let Some((ob, what)) = judge(&t) {
                    if viol.len() < 20 {
                        viol.push(format!("{{\"unit\":\"strip\",\"fn\":\"preprocess\",\"obligation\":{},\"input\":{},\"hex\":\"{}\",\"what\":{},\"replay\":\"replay_parser replay {}\"}}",
                            jstr(&ob), jstr(&t), hex(&t), jstr(&format!("preprocess({}): {}", jstr(&t), what)), hex(&t)));
                    }
                }
            }
            println!("{{\"unit\":\"strip\",\"evaluations\":{},\"distinct_nontrivial\":{},\"exhaustive\":true,\"rule\":{},\"bound\":{},\"samples\":[{}],\"violations\":[{}]}}",
                evals, nontrivial,
                jstr("the real compiled preprocess vs the reference lexer on every string; non-trivial = contains a comment opener; enumerated strings are pairwise distinct"),
                jstr(&format!("all strings of length <= {} over {{'/','*','a','\\n','é'}} (exhaustive), plus {} seeded random strings of length 8..48 over a wider alphabet (quotes, CR, 3- and 4-byte characters)", maxlen, nrand)),
                samples.join(","), viol.join(","));
        }
        Some("bounded-cfg") => {
            let tier = args.get(2).map(|s| s.as_str()).unwrap_or("quick");
            cfg_bounded(tier);
        }
        Some("replay") => {
            let t = unhex(&args[2]);
            let s: Vec<char> = t.chars().collect();
            println!("input {:?}\n real preprocess -> {:?}\n reference lexer -> {:?}", t, run(&t), strip(&s));
            match judge(&t) { Some((ob, what)) => { println!(" VIOLATES {}: {}", ob, what); std::process::exit(1) } None => println!(" agrees with the contract") }
        }
        _ => { eprintln!("usage: replay_parser bounded <tier> <seed> | replay <hex>"); std::process::exit(2) }
    }
}
