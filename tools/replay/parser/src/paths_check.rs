//! bounded-paths — C13 (BOUNDED): for every small body and every sequence of branch decisions, the statements the
//! structured source executes (an interpreter over the generator's own tree) are, in order, the statements met when
//! walking the graph built by the real parse_definition + into_cfg with the same decisions.
use program_structure::cfg::{Cfg, IntoCfg};
use program_structure::constants::Curve;
use program_structure::ir::Statement;
use program_structure::report::ReportCollection;
use std::panic::{catch_unwind, AssertUnwindSafe};

use crate::{jstr, numbers_in};

#[derive(Clone, Debug)]
pub enum P { Simple, Ret, If(Vec<P>), IfElse(Vec<P>, Vec<P>), While(Vec<P>), For(Vec<P>) }

fn lists(n: usize, memo: &mut std::collections::HashMap<usize, Vec<Vec<P>>>) -> Vec<Vec<P>> {
    if let Some(v) = memo.get(&n) { return v.clone(); }
    let mut out = vec![];
    if n == 0 { out.push(vec![]); }
    else {
        for first in 1..=n {
            for head in stmts(first, memo) {
                for tail in lists(n - first, memo) {
                    let mut l = vec![head.clone()];
                    l.extend(tail);
                    out.push(l);
                }
            }
        }
    }
    memo.insert(n, out.clone());
    out
}
fn stmts(n: usize, memo: &mut std::collections::HashMap<usize, Vec<Vec<P>>>) -> Vec<P> {
    let mut out = vec![];
    if n == 1 { out.push(P::Simple); out.push(P::Ret); }
    if n >= 1 {
        for b in lists(n - 1, memo) { out.push(P::If(b.clone())); out.push(P::While(b.clone())); out.push(P::For(b)); }
        for a in 0..n { for x in lists(a, memo) { for y in lists(n - 1 - a, memo) { out.push(P::IfElse(x.clone(), y.clone())); } } }
    }
    out
}

/// the same tree with the identifiers written into the source: every statement and every condition carries its own number
#[derive(Clone, Debug)]
enum Q { Simple(usize), Ret(usize), If(usize, Vec<Q>), IfElse(usize, Vec<Q>, Vec<Q>), While(usize, Vec<Q>), For(usize, usize, usize, Vec<Q>) }

fn fresh(next: &mut usize) -> usize { *next += 1; *next }
fn label(l: &[P], next: &mut usize) -> Vec<Q> {
    let mut out = vec![];
    for s in l {
        out.push(match s {
            P::Simple => Q::Simple(fresh(next)),
            P::Ret => Q::Ret(fresh(next)),
            P::If(b) => { let c = fresh(next); Q::If(c, label(b, next)) }
            P::IfElse(a, b) => { let c = fresh(next); let x = label(a, next); let y = label(b, next); Q::IfElse(c, x, y) }
            P::While(b) => { let c = fresh(next); Q::While(c, label(b, next)) }
            P::For(b) => { let i = fresh(next); let c = fresh(next); let st = fresh(next); Q::For(i, c, st, label(b, next)) }
        });
    }
    out
}
/// a variable name made of letters only (the statement must mention its number exactly once)
fn letters(mut id: usize) -> String { let mut s = String::from("v"); while id > 0 { s.push((b'a' + (id % 26) as u8) as char); id /= 26; } s }
fn render(l: &[Q], out: &mut String) {
    for s in l {
        match s {
            // eight statement forms; each mentions its own number exactly once
            Q::Simple(id) => match id % 8 {
                0 => out.push_str(&format!("y += {};\n", id)),
                1 => out.push_str(&format!("y = x * {};\n", id)),
                2 => out.push_str(&format!("var {} = {};\n", letters(*id), id)),
                3 => out.push_str(&format!("log({});\n", id)),
                4 => out.push_str(&format!("assert(x != {});\n", id)),
                5 => out.push_str(&format!("var {}p = {}, {}q;\n", letters(*id), id, letters(*id))),
                6 => out.push_str(&format!("y -= {};\n", id)),
                _ => out.push_str(&format!("arr[0] = {};\n", id)),
            },
            Q::Ret(id) => out.push_str(&format!("return {};\n", id)),
            Q::If(c, b) => { out.push_str(&format!("if (x < {}) {{\n", c)); render(b, out); out.push_str("}\n"); }
            Q::IfElse(c, a, b) => { out.push_str(&format!("if (x < {}) {{\n", c)); render(a, out); out.push_str("} else {\n"); render(b, out); out.push_str("}\n"); }
            Q::While(c, b) => { out.push_str(&format!("while (x < {}) {{\n", c)); render(b, out); out.push_str("}\n"); }
            // both grammar rules for `for`: the initialisation is a declaration, or an assignment to a declared variable
            Q::For(i, c, st, b) => {
                if i % 2 == 0 { out.push_str(&format!("for (var i = {}; i < {}; i += {}) {{\n", i, c, st)); }
                else if i % 4 == 1 { out.push_str(&format!("for (k = {}; k < {}; k += {}) {{\n", i, c, st)); }
                else { out.push_str(&format!("for (k = {}; k < {}; k = k + {}) {{\n", i, c, st)); }
                render(b, out); out.push_str("}\n");
            }
        }
    }
}

struct Run<'a> { bits: usize, used: usize, max: usize, trace: &'a mut Vec<usize>, returned: bool, starved: bool }
impl<'a> Run<'a> {
    fn decide(&mut self) -> Option<bool> {
        if self.used >= self.max { self.starved = true; return None; }
        let d = (self.bits >> self.used) & 1 == 1; self.used += 1; Some(d)
    }
    /// false = stop (returned or out of decisions)
    fn exec(&mut self, l: &[Q]) -> bool {
        for s in l {
            match s {
                Q::Simple(id) => self.trace.push(*id),
                Q::Ret(id) => { self.trace.push(*id); self.returned = true; return false; }
                Q::If(c, b) => { self.trace.push(*c); match self.decide() { None => return false, Some(true) => { if !self.exec(b) { return false; } } Some(false) => {} } }
                Q::IfElse(c, a, b) => { self.trace.push(*c); match self.decide() { None => return false, Some(true) => { if !self.exec(a) { return false; } } Some(false) => { if !self.exec(b) { return false; } } } }
                Q::While(c, b) => loop { self.trace.push(*c); match self.decide() { None => return false, Some(true) => { if !self.exec(b) { return false; } } Some(false) => break } },
                Q::For(i, c, st, b) => { self.trace.push(*i); loop { self.trace.push(*c); match self.decide() { None => return false, Some(true) => { if !self.exec(b) { return false; } self.trace.push(*st); } Some(false) => break } } }
            }
        }
        true
    }
}

fn ids_of(st: &Statement) -> Vec<usize> { numbers_in(&format!("{}", st)).into_iter().filter(|v| *v >= 5000).collect() }

/// walk the graph from the entry block with the given decisions; stops when the decisions run out at a branch
fn walk(cfg: &Cfg, bits: usize, max: usize) -> Result<Vec<usize>, String> {
    let blocks: Vec<_> = cfg.iter().collect();
    let mut trace = vec![]; let mut cur = 0usize; let mut used = 0usize; let mut steps = 0usize;
    loop {
        steps += 1; if steps > 400 { return Err("the walk does not end".into()); }
        if cur >= blocks.len() { return Err(format!("edge to a block {} that does not exist", cur)); }
        let b = blocks[cur];
        let mut next: Option<usize> = None; let mut branched = false;
        for st in b.iter() {
            trace.extend(ids_of(st));
            if let Statement::IfThenElse { true_index, false_index, .. } = st {
                branched = true;
                if used >= max { return Ok(trace); }
                let d = (bits >> used) & 1 == 1; used += 1;
                // no recorded false target (an `if` without else whose join is reached by an edge added later, e.g. the back
                // edge of the enclosing loop): the false edge is the successor that is not the true target
                next = if d { Some(*true_index) } else {
                    match false_index { Some(f) => Some(*f), None => { let o: Vec<_> = b.successors().iter().cloned().filter(|s| s != true_index).collect(); if o.len() == 1 { Some(o[0]) } else { None } } }
                };
                if next.is_none() { return Ok(trace); }   // a false edge that leads nowhere: the definition ends here
            }
        }
        if !branched {
            let succ: Vec<_> = b.successors().iter().cloned().collect();
            match succ.len() { 0 => return Ok(trace), 1 => next = Some(succ[0]), _ => return Err(format!("block {} has {} successors but no branch statement", cur, succ.len())) }
        }
        cur = next.unwrap();
    }
}

pub fn paths_bounded(tier: &str) {
    let maxsize = if tier == "thorough" { 5 } else { 4 };
    let max_decisions = if tier == "thorough" { 7 } else { 5 };
    let mut memo = std::collections::HashMap::new();
    let mut evals = 0u64; let mut nontrivial = 0u64; let mut skipped = 0u64; let mut paths = 0u64;
    let mut viol: Vec<String> = vec![]; let mut seen_ob: std::collections::BTreeSet<String> = Default::default();
    let mut samples: Vec<String> = vec![];
    let started = std::time::Instant::now();
    let budget = std::time::Duration::from_secs(if tier == "thorough" { 3600 } else { 150 });
    let mut cut_short = false;
    'outer: for n in 0..=maxsize {
        for l in lists(n, &mut memo) {
            if started.elapsed() > budget { cut_short = true; break 'outer; }
          for offset in 0..(if tier == "thorough" { 8usize } else { 3usize }) {
            let mut next = 5000usize + offset;
            let q = label(&l, &mut next);
            let mut body = String::new();
            render(&q, &mut body);
            let src = format!("function f(x) {{\nvar y = 0;\nvar k = 0;\nvar arr[2];\n{}return y;\n}}\n", body);
            evals += 1;
            if body.contains("while") || body.contains("if") || body.contains("for") { nontrivial += 1; }
            if evals % 1499 == 1 && samples.len() < 6 { samples.push(jstr(&src)); }
            let r = catch_unwind(AssertUnwindSafe(|| {
                let def = match parser::parse_definition(&src) { Some(d) => d, None => return Err(true) };
                let mut reports = ReportCollection::new();
                def.into_cfg(&Curve::default(), &mut reports).map_err(|_| false)
            }));
            let mut verdict: Option<(String, String)> = None;
            match r {
                Err(_) => verdict = Some(("safety".into(), "into_cfg panicked".into())),
                Ok(Err(true)) => { evals -= 1; skipped += 1; }
                Ok(Err(false)) => verdict = Some(("lift".into(), "a body accepted by the parser did not lift to a CFG".into())),
                Ok(Ok(cfg)) => {
                    for bits in 0..(1usize << max_decisions) {
                        paths += 1;
                        let mut want = vec![];
                        let mut run = Run { bits, used: 0, max: max_decisions, trace: &mut want, returned: false, starved: false };
                        run.exec(&q);
                        let (returned, starved) = (run.returned, run.starved);
                        match walk(&cfg, bits, max_decisions) {
                            Err(e) => { verdict = Some(("walk".into(), format!("with decisions {:0w$b}: {}", bits, e, w = max_decisions))); break; }
                            Ok(got) => {
                                let prefix_ok = got.len() >= want.len() && got[..want.len()] == want[..];
                                let ok = if returned { prefix_ok } else { got == want };
                                if !ok {
                                    let _ = starved;
                                    verdict = Some(("trace".into(), format!("with decisions {:0w$b} (first decision rightmost) the source executes the statements {:?}{}, the walk through the graph meets {:?}", bits, want, if returned { " (ending in a return)" } else { "" }, got, w = max_decisions)));
                                    break;
                                }
                            }
                        }
                    }
                }
            }
            if let Some((cl, what)) = verdict {
                let ob = format!("paths|into_cfg|bounded|{}", cl);
                if seen_ob.insert(ob.clone()) {
                    viol.push(format!("{{\"unit\":\"paths\",\"fn\":\"build_basic_blocks / visit_statement\",\"obligation\":{},\"input\":{},\"what\":{},\"replay\":\"replay_parser bounded-paths\"}}", jstr(&ob), jstr(&src), jstr(&format!("{} — for\n{}", what, src))));
                }
            }
          }
        }
    }
    println!("{{\"unit\":\"paths\",\"evaluations\":{},\"distinct_nontrivial\":{},\"exhaustive\":{},\"rule\":{},\"bound\":{},\"samples\":[{}],\"violations\":[{}]}}",
        evals, nontrivial, if cut_short { "false" } else { "true" },
        jstr("every function body built from simple statements (eight forms in rotation: `+=`, `-=`, plain assignment, declaration with initial value, declaration of two variables, array element assignment, log, assert), return, if, if-else, while and for, each statement and condition carrying its own number; for every sequence of branch decisions the numbers met by an interpreter of the structured source (for = init, condition, body, step; while = condition, body; stop at the first return or when the decisions run out) equal, in order, the numbers met when walking the graph built by the real parse_definition + into_cfg from the entry block, taking the true or false edge of each branch by the same decisions (after a return the walk may go on)"),
        jstr(&format!("all statement lists with at most {} statement nodes x 3 (quick) / 8 (thorough) rotations of the statement forms; all {} sequences of {} decisions ({} walks); {} shapes rejected by the Circom grammar skipped{}", maxsize, 1usize << max_decisions, max_decisions, paths, skipped, if cut_short { "; ENUMERATION CUT SHORT by the engine's time budget" } else { "" })),
        samples.join(","), viol.join(","));
}
