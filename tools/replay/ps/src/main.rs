//! replay_ps — bounded engines over the REAL compiled circomspect-program-structure crate:
//!   valueops : Expression::propagate_values on `Number op Number` for all 23 infix / 3 prefix opcodes (C06)
//!   degree   : the Degree / DegreeRange transfer functions and Expression::propagate_degrees dispatch (C07)
//! Each compares with an executable mirror of the unit's contract. Nothing here copies /repo code.
mod field_mirror;
use field_mirror::*;
use num_bigint_dig::BigInt;
use num_traits::{One, Zero};
use program_structure::constants::{Curve, UsefulConstants};
use program_structure::ir::degree_meta::{Degree, DegreeEnvironment, DegreeMeta, DegreeRange};
use program_structure::ir::value_meta::{ValueEnvironment, ValueMeta, ValueReduction};
use program_structure::ir::*;
use std::panic::{catch_unwind, AssertUnwindSafe};

fn jstr(s: &str) -> String { format!("\"{}\"", s.replace('\\', "\\\\").replace('"', "\\\"")) }

const INFIX: [(ExpressionInfixOpcode, &str); 20] = {
    use ExpressionInfixOpcode::*;
    [(Mul, "mul"), (Div, "div"), (Add, "add"), (Sub, "sub"), (Pow, "pow"), (IntDiv, "idiv"), (Mod, "mod_op"), (ShiftL, "shift_l"),
     (ShiftR, "shift_r"), (LesserEq, "lesser_eq"), (GreaterEq, "greater_eq"), (Lesser, "lesser"), (Greater, "greater"), (Eq, "eq"),
     (NotEq, "not_eq"), (BoolOr, "-"), (BoolAnd, "-"), (BitOr, "bit_or"), (BitAnd, "bit_and"), (BitXor, "bit_xor")]
};

fn num(v: &BigInt) -> Expression { Expression::Number(Meta::default(), v.clone()) }

fn eval_infix(op: ExpressionInfixOpcode, a: &BigInt, b: &BigInt, curve: &Curve) -> Result<Option<ValueReduction>, ()> {
    catch_unwind(AssertUnwindSafe(|| {
        let constants = UsefulConstants::new(curve);
        let mut env = ValueEnvironment::new(&constants);
        let mut e = Expression::InfixOp { meta: Meta::default(), lhe: Box::new(num(a)), infix_op: op, rhe: Box::new(num(b)) };
        // run to a fixpoint as the CFG driver does
        for _ in 0..4 { if !e.propagate_values(&mut env) { break; } }
        e.value().cloned()
    })).map_err(|_| ())
}

fn eval_prefix(op: ExpressionPrefixOpcode, a: &BigInt, curve: &Curve) -> Result<Option<ValueReduction>, ()> {
    catch_unwind(AssertUnwindSafe(|| {
        let constants = UsefulConstants::new(curve);
        let mut env = ValueEnvironment::new(&constants);
        let mut e = Expression::PrefixOp { meta: Meta::default(), prefix_op: op, rhe: Box::new(num(a)) };
        for _ in 0..4 { if !e.propagate_values(&mut env) { break; } }
        e.value().cloned()
    })).map_err(|_| ())
}

fn valueops(tier: &str, seed: u64) {
    let mut evals = 0u64;
    let mut nontrivial = 0u64;
    let mut viol: Vec<String> = vec![];
    let mut samples: Vec<String> = vec![];
    let mut x = 0x9E3779B97F4A7C15u64 ^ seed.wrapping_mul(0xD1B54A32D192ED03) | 1;
    for curve in [Curve::Bn254, Curve::Bls12_381, Curve::Goldilocks] {
        let p = UsefulConstants::new(&curve).prime().clone();
        let nb = bitlen(&p);
        let mut vals: Vec<BigInt> = vec![BigInt::zero(), BigInt::one(), BigInt::from(2), BigInt::from(3), &p / 2 - 1, &p / 2, &p / 2 + 1, &p - 2, &p - 1];
        for k in [8usize, 63, 64, 65, 252, 253, 254, 255] { for d in [-1i32, 0, 1] { let v = pow2(k) + d; if v < p { vals.push(v); } } }
        for k in [nb - 1, nb, nb + 1, 300, 65536, 1 << 20] { vals.push(BigInt::from(k)); }
        // literals at and beyond the field size: Circom reads a literal as the field element it is congruent to
        vals.push(p.clone()); vals.push(&p + 1); vals.push(&p * 2 - 1);
        let nrand = if tier == "thorough" { 40 } else { 4 };
        for _ in 0..nrand { let mut r = BigInt::zero(); for _ in 0..5 { x ^= x << 13; x ^= x >> 7; x ^= x << 17; r = r * BigInt::from(u64::MAX) + BigInt::from(x); } vals.push(r % &p); }
        vals.sort(); vals.dedup();
        for a in &vals { for b in &vals { for (op, f) in INFIX.iter() {
            // shift counts between 2^20 and usize::MAX are left to the resource probes of replay_field
            if (*f == "shift_l" || *f == "shift_r") && ((k_eff(b, &p) > BigInt::from(1 << 20) && k_eff(b, &p) <= BigInt::from(u64::MAX)) || (k_eff(&emod(b, &p), &p) > BigInt::from(1 << 20) && k_eff(&emod(b, &p), &p) <= BigInt::from(u64::MAX))) { continue; }
            evals += 1;
            let got = eval_infix(*op, a, b, &curve);
            let (ca, cb) = (emod(a, &p), emod(b, &p));   // the field elements the literals denote
            let what: Option<String> = match (&got, *f) {
                (Err(()), _) => Some("panicked".into()),
                (Ok(None), _) => None, // no claim is always sound
                (Ok(Some(_)), "-") => Some("a value was produced for a boolean connective applied to field elements".into()),
                (Ok(Some(ValueReduction::FieldElement { value })), f) => {
                    nontrivial += 1;
                    match expected(f, &ca, &cb, &p) {
                        Some(exp) if ["lesser_eq", "greater_eq", "lesser", "greater", "eq", "not_eq"].contains(&f) => Some(format!("a comparison produced the field element {} (allowed: a boolean {:?})", value, exp)),
                        Some(exp) => if exp.contains(&Out::Val(value.clone())) { None } else { Some(format!("claims the constant {}, Circom's semantics gives {:?}", value, exp)) },
                        None => None,
                    }
                }
                (Ok(Some(ValueReduction::Boolean { value })), f) => {
                    nontrivial += 1;
                    match expected(f, &ca, &cb, &p) {
                        Some(exp) if ["lesser_eq", "greater_eq", "lesser", "greater", "eq", "not_eq"].contains(&f) =>
                            if exp.contains(&Out::Val(b2i(*value))) { None } else { Some(format!("claims the condition is {}, Circom's semantics gives {:?}", value, exp)) },
                        _ => Some(format!("a boolean {} was produced for a field operation", value)),
                    }
                }
            };
            if evals % 5003 == 1 && samples.len() < 8 { samples.push(format!("{{\"op\":{},\"a\":\"{}\",\"b\":\"{}\",\"curve\":\"{}\",\"got\":{}}}", jstr(&format!("{}", op)), a, b, curve, jstr(&format!("{:?}", got)))); }
            if let Some(w) = what { if viol.len() < 20 {
                viol.push(format!("{{\"unit\":\"valueops\",\"fn\":\"ExpressionInfixOpcode::propagate_values\",\"obligation\":\"valueops|ExpressionInfixOpcode::propagate_values|ensures|0\",\"input\":{{\"op\":{},\"a\":\"{}\",\"b\":\"{}\",\"curve\":\"{}\"}},\"what\":{},\"replay\":{}}}",
                    jstr(&format!("{}", op)), a, b, curve, jstr(&format!("`{} {} {}` over {}: {}", a, op, b, curve, w)),
                    jstr(&format!("replay_ps replay-infix {} {} {} {}", f, a, b, curve))));
            } }
        } }
        for (op, f) in [(ExpressionPrefixOpcode::Sub, "prefix_sub"), (ExpressionPrefixOpcode::Complement, "complement_256"), (ExpressionPrefixOpcode::BoolNot, "-")] {
            evals += 1;
            let got = eval_prefix(op, a, &curve);
            let what = match (&got, f) {
                (Err(()), _) => Some("panicked".to_string()),
                (Ok(None), _) => None,
                (Ok(Some(_)), "-") => Some("a value was produced for `!` applied to a field element".into()),
                (Ok(Some(ValueReduction::FieldElement { value })), f) => { nontrivial += 1; match expected(f, &emod(a, &p), &BigInt::zero(), &p) { Some(exp) if !exp.contains(&Out::Val(value.clone())) => Some(format!("claims {}, Circom gives {:?}", value, exp)), _ => None } }
                (Ok(Some(ValueReduction::Boolean { value })), _) => Some(format!("a boolean {} for a field operation", value)),
            };
            if let Some(w) = what { if viol.len() < 20 {
                viol.push(format!("{{\"unit\":\"valueops\",\"fn\":\"ExpressionPrefixOpcode::propagate_values\",\"obligation\":\"valueops|ExpressionPrefixOpcode::propagate_values|ensures|0\",\"input\":{{\"op\":{},\"a\":\"{}\",\"curve\":\"{}\"}},\"what\":{},\"replay\":\"-\"}}",
                    jstr(&format!("{}", op)), a, curve, jstr(&format!("`{}{}` over {}: {}", op, a, curve, w))));
            } }
        } }
    }
    println!("{{\"unit\":\"valueops\",\"evaluations\":{},\"distinct_nontrivial\":{},\"exhaustive\":true,\"rule\":{},\"bound\":{},\"samples\":[{}],\"violations\":[{}]}}",
        evals, nontrivial,
        jstr("Expression::propagate_values of the real compiled crate on `Number op Number` / `op Number`; non-trivial = a constant was claimed (each (op,a,b,curve) is enumerated once)"),
        jstr("all 20+3 opcodes x boundary set x boundary set (0,1,2,3,p/2-1..p/2+1,p-2,p-1, 2^k-1..2^k+1, shift counts around the bit size) plus seeded random values, for the three curves"),
        samples.join(","), viol.join(","));
}

// ---------------------------------------------------------------------------------------------
// degree: mirror of units/degree/spec.rs

fn rank(d: Degree) -> i32 { match d { Degree::Constant => 0, Degree::Linear => 1, Degree::Quadratic => 2, Degree::NonQuadratic => 3 } }
const DEGS: [Degree; 4] = [Degree::Constant, Degree::Linear, Degree::Quadratic, Degree::NonQuadratic];
fn ls_infix(op: ExpressionInfixOpcode, a: i32, b: i32) -> i32 {
    use ExpressionInfixOpcode::*;
    match op { Add | Sub => a.max(b), Mul => (a + b).min(3), Div => if b == 0 { a } else { 3 }, _ => if a == 0 && b == 0 { 0 } else { 3 } }
}
fn ls_prefix(op: ExpressionPrefixOpcode, a: i32) -> i32 { match op { ExpressionPrefixOpcode::Sub => a, _ => if a == 0 { 0 } else { 3 } } }

fn degree(_tier: &str) {
    let mut evals = 0u64;
    let mut viol: Vec<String> = vec![];
    let mut samples: Vec<String> = vec![];
    // through the real Expression::propagate_degrees: variables x, y with every pair of degree ranges
    let x = VariableName::from_string("x");
    let y = VariableName::from_string("y");
    for (op, _) in INFIX.iter() { for &lx in &DEGS { for &hx in &DEGS { if rank(lx) > rank(hx) { continue; } for &ly in &DEGS { for &hy in &DEGS { if rank(ly) > rank(hy) { continue; }
        let mut env = DegreeEnvironment::new();
        env.set_degree(&x, &DegreeRange::new(lx, hx));
        env.set_degree(&y, &DegreeRange::new(ly, hy));
        let mut e = Expression::InfixOp { meta: Meta::default(),
            lhe: Box::new(Expression::Variable { meta: Meta::default(), name: x.clone() }), infix_op: *op,
            rhe: Box::new(Expression::Variable { meta: Meta::default(), name: y.clone() }) };
        for _ in 0..4 { if !e.propagate_degrees(&env) { break; } }
        evals += 1;
        if let Some(r) = e.degree() {
            let want = ls_infix(*op, rank(hx), rank(hy));
            if evals % 211 == 1 && samples.len() < 8 { samples.push(format!("{{\"op\":{},\"x\":\"{:?}..{:?}\",\"y\":\"{:?}..{:?}\",\"claimed_upper\":\"{:?}\",\"least_sound\":{}}}", jstr(&format!("{}", op)), lx, hx, ly, hy, r.end(), want)); }
            if rank(r.end()) < want && viol.len() < 20 {
                viol.push(format!("{{\"unit\":\"degree\",\"fn\":\"ExpressionInfixOpcode::propagate_degrees\",\"obligation\":\"degree|ExpressionInfixOpcode::propagate_degrees|ensures|1\",\"input\":{{\"op\":{},\"x_upper\":\"{:?}\",\"y_upper\":\"{:?}\"}},\"what\":{},\"replay\":\"replay_ps bounded degree\"}}",
                    jstr(&format!("{}", op)), hx, hy, jstr(&format!("`x {} y` with deg x <= {:?}, deg y <= {:?} is claimed to have degree <= {:?}; the least sound bound has rank {}", op, hx, hy, r.end(), want))));
            }
            // classification predicates
            let claims_quadratic = e.meta().degree_knowledge().is_quadratic();
            if claims_quadratic && want > 2 && viol.len() < 20 {
                viol.push(format!("{{\"unit\":\"degree\",\"fn\":\"DegreeRange::is_quadratic\",\"obligation\":\"degree|DegreeRange::is_quadratic|ensures|0\",\"input\":{{\"op\":{}}},\"what\":{},\"replay\":\"replay_ps bounded degree\"}}",
                    jstr(&format!("{}", op)), jstr(&format!("`x {} y` (deg x <= {:?}, deg y <= {:?}) is classified quadratic", op, hx, hy))));
            }
        }
    } } } } }
    for op in [ExpressionPrefixOpcode::Sub, ExpressionPrefixOpcode::Complement, ExpressionPrefixOpcode::BoolNot] { for &lx in &DEGS { for &hx in &DEGS { if rank(lx) > rank(hx) { continue; }
        let mut env = DegreeEnvironment::new();
        env.set_degree(&x, &DegreeRange::new(lx, hx));
        let mut e = Expression::PrefixOp { meta: Meta::default(), prefix_op: op, rhe: Box::new(Expression::Variable { meta: Meta::default(), name: x.clone() }) };
        for _ in 0..4 { if !e.propagate_degrees(&env) { break; } }
        evals += 1;
        if let Some(r) = e.degree() {
            let want = ls_prefix(op, rank(hx));
            if rank(r.end()) < want && viol.len() < 20 {
                viol.push(format!("{{\"unit\":\"degree\",\"fn\":\"ExpressionPrefixOpcode::propagate_degrees\",\"obligation\":\"degree|ExpressionPrefixOpcode::propagate_degrees|ensures|1\",\"input\":{{\"op\":{},\"x_upper\":\"{:?}\"}},\"what\":{},\"replay\":\"replay_ps bounded degree\"}}",
                    jstr(&format!("{}", op)), hx, jstr(&format!("`{}x` with deg x <= {:?} is claimed to have degree <= {:?}; least sound rank {}", op, hx, r.end(), want))));
            }
        }
    } } }
    // merges
    for &a0 in &DEGS { for &a1 in &DEGS { if rank(a0) > rank(a1) { continue; } for &b0 in &DEGS { for &b1 in &DEGS { if rank(b0) > rank(b1) { continue; }
        let r = DegreeRange::new(a0, a1).inf(&DegreeRange::new(b0, b1));
        evals += 1;
        if rank(r.end()) < rank(a1).max(rank(b1)) && viol.len() < 20 {
            viol.push(format!("{{\"unit\":\"degree\",\"fn\":\"DegreeRange::inf\",\"obligation\":\"degree|DegreeRange::inf|ensures|0\",\"input\":{{}},\"what\":{},\"replay\":\"replay_ps bounded degree\"}}",
                jstr(&format!("inf([{:?},{:?}],[{:?},{:?}]) has upper end {:?}", a0, a1, b0, b1, r.end()))));
        }
    } } } }
    println!("{{\"unit\":\"degree\",\"evaluations\":{},\"distinct_nontrivial\":{},\"exhaustive\":true,\"rule\":{},\"bound\":{},\"samples\":[{}],\"violations\":[{}]}}",
        evals, evals,
        jstr("the complete finite table: every opcode x every pair of degree ranges through the real Expression::propagate_degrees, plus inf on all range pairs; every case is distinct and non-trivial (a degree is claimed)"),
        jstr("complete (the domain is finite: 20 infix x 10x10 range pairs, 3 prefix x 10 ranges, 10x10 merges)"),
        samples.join(","), viol.join(","));
}


// ---------------------------------------------------------------------------------------------
// degree_expr: Expression::propagate_degrees on small expression trees (C07 stage 2, BOUNDED stand-in).
// truth: the real polynomial degree class of each variable (0..3); env: a sound degree environment (an entry, when
// present, has an upper end >= truth). sem: compositional least sound bound (DESIGN.md §5 C07 stage 2).

#[derive(Clone)]
struct Var { name: &'static str, truth: i32 }

fn sem(e: &Expression, truth: &dyn Fn(&VariableName) -> i32) -> i32 {
    use Expression::*;
    match e {
        InfixOp { lhe, infix_op, rhe, .. } => ls_infix(*infix_op, sem(lhe, truth), sem(rhe, truth)),
        PrefixOp { prefix_op, rhe, .. } => ls_prefix(*prefix_op, sem(rhe, truth)),
        SwitchOp { cond, if_true, if_false, .. } => if sem(cond, truth) == 0 { sem(if_true, truth).max(sem(if_false, truth)) } else { 3 },
        Variable { name, .. } => truth(name),
        Number(..) => 0,
        Call { args, .. } => if args.iter().all(|a| sem(a, truth) == 0) { 0 } else { 3 },
        InlineArray { values, .. } => values.iter().map(|v| sem(v, truth)).max().unwrap_or(0),
        Access { var, .. } => truth(var),
        Update { var, rhe, .. } => truth(var).max(sem(rhe, truth)),
        Phi { args, .. } => args.iter().map(|a| truth(a)).max().unwrap_or(0),
    }
}

fn kind(e: &Expression) -> &'static str {
    use Expression::*;
    match e { InfixOp { .. } => "InfixOp", PrefixOp { .. } => "PrefixOp", SwitchOp { .. } => "SwitchOp", Variable { .. } => "Variable", Number(..) => "Number",
        Call { .. } => "Call", InlineArray { .. } => "InlineArray", Access { .. } => "Access", Update { .. } => "Update", Phi { .. } => "Phi" }
}

fn children(e: &Expression) -> Vec<&Expression> {
    use Expression::*;
    match e {
        InfixOp { lhe, rhe, .. } => vec![lhe, rhe],
        PrefixOp { rhe, .. } => vec![rhe],
        SwitchOp { cond, if_true, if_false, .. } => vec![cond, if_true, if_false],
        Call { args, .. } => args.iter().collect(),
        InlineArray { values, .. } => values.iter().collect(),
        Access { access, .. } => access.iter().filter_map(|a| if let AccessType::ArrayAccess(i) = a { Some(&**i) } else { None }).collect(),
        Update { access, rhe, .. } => { let mut v: Vec<&Expression> = access.iter().filter_map(|a| if let AccessType::ArrayAccess(i) = a { Some(&**i) } else { None }).collect(); v.push(rhe); v }
        _ => vec![],
    }
}

/// the smallest subexpression whose recorded upper bound is below its least sound bound
fn first_unsound<'a>(e: &'a Expression, truth: &dyn Fn(&VariableName) -> i32) -> Option<&'a Expression> {
    for c in children(e) { if let Some(b) = first_unsound(c, truth) { return Some(b); } }
    if let Some(r) = e.degree() { if rank(r.end()) < sem(e, truth) { return Some(e); } }
    None
}

fn degree_expr(tier: &str) {
    use Expression::*;
    let m = || Meta::default();
    let va = VariableName::from_string("a");
    let vb = VariableName::from_string("b");
    let leaves = |_: ()| -> Vec<Expression> { vec![Number(m(), BigInt::from(5)), Variable { meta: m(), name: va.clone() }, Variable { meta: m(), name: vb.clone() }] };
    let ops = [ExpressionInfixOpcode::Add, ExpressionInfixOpcode::Mul, ExpressionInfixOpcode::Div, ExpressionInfixOpcode::Lesser];
    let mut d1: Vec<Expression> = vec![];
    for l in leaves(()) { for r in leaves(()) { for op in ops { d1.push(InfixOp { meta: m(), lhe: Box::new(l.clone()), infix_op: op, rhe: Box::new(r.clone()) }); } } }
    for l in leaves(()) { for op in [ExpressionPrefixOpcode::Sub, ExpressionPrefixOpcode::Complement, ExpressionPrefixOpcode::BoolNot] { d1.push(PrefixOp { meta: m(), prefix_op: op, rhe: Box::new(l.clone()) }); } }
    for c in leaves(()) { for t in leaves(()) { for f in leaves(()) { d1.push(SwitchOp { meta: m(), cond: Box::new(c.clone()), if_true: Box::new(t.clone()), if_false: Box::new(f.clone()) }); } } }
    d1.push(Call { meta: m(), name: "f".into(), args: vec![] });
    for l in leaves(()) { for r in leaves(()) { d1.push(Call { meta: m(), name: "f".into(), args: vec![l.clone(), r.clone()] }); d1.push(InlineArray { meta: m(), values: vec![l.clone(), r.clone()] }); } }
    for v in [&va, &vb] { for i in leaves(()) {
        d1.push(Access { meta: m(), var: v.clone(), access: vec![AccessType::ArrayAccess(Box::new(i.clone()))] });
        for r in leaves(()) { d1.push(Update { meta: m(), var: v.clone(), access: vec![AccessType::ArrayAccess(Box::new(i.clone()))], rhe: Box::new(r.clone()) }); }
    } }
    d1.push(Phi { meta: m(), args: vec![va.clone()] });
    d1.push(Phi { meta: m(), args: vec![vb.clone()] });
    d1.push(Phi { meta: m(), args: vec![va.clone(), vb.clone()] });
    let mut shapes: Vec<Expression> = leaves(());
    shapes.extend(d1.iter().cloned());
    let wrap_all = tier == "thorough";
    for (k, d) in d1.iter().enumerate() {
        if !wrap_all && k % 3 != 0 { continue; }
        for l in leaves(()) {
            shapes.push(InfixOp { meta: m(), lhe: Box::new(d.clone()), infix_op: ExpressionInfixOpcode::Mul, rhe: Box::new(l.clone()) });
            shapes.push(Update { meta: m(), var: va.clone(), access: vec![AccessType::ArrayAccess(Box::new(Number(m(), BigInt::from(0))))], rhe: Box::new(d.clone()) });
            shapes.push(SwitchOp { meta: m(), cond: Box::new(d.clone()), if_true: Box::new(l.clone()), if_false: Box::new(Number(m(), BigInt::from(1))) });
            shapes.push(InlineArray { meta: m(), values: vec![d.clone(), l.clone()] });
        }
    }
    let mut evals = 0u64; let mut nontrivial = 0u64;
    let mut viol: Vec<String> = vec![]; let mut seen_ob: std::collections::BTreeSet<String> = Default::default();
    let mut samples: Vec<String> = vec![];
    // environments: truth x {absent, exact, loose}
    let envopts = |t: i32| -> Vec<Option<DegreeRange>> { vec![None, Some(DegreeRange::new(Degree::Constant, DEGS[t as usize])), Some(DegreeRange::new(Degree::Constant, Degree::NonQuadratic))] };
    for ta in 0..4 { for ea in envopts(ta) { for tb in 0..4 { for eb in envopts(tb) {
        let mut env = DegreeEnvironment::new();
        if let Some(r) = &ea { env.set_degree(&va, r); }
        if let Some(r) = &eb { env.set_degree(&vb, r); }
        let truth = |n: &VariableName| -> i32 { if *n == va { ta } else { tb } };
        for sh in &shapes {
            let mut e = sh.clone();
            let r = catch_unwind(AssertUnwindSafe(|| { for _ in 0..6 { if !e.propagate_degrees(&env) { break; } } e }));
            evals += 1;
            let e = match r { Ok(e) => e, Err(_) => { if viol.len() < 20 { viol.push(format!("{{\"unit\":\"degree_expr\",\"fn\":\"Expression::propagate_degrees\",\"obligation\":\"degree_expr|Expression::propagate_degrees|bounded|panic\",\"what\":{},\"replay\":\"replay_ps bounded degree_expr\"}}", jstr(&format!("propagate_degrees panicked on {:?}", sh)))); } continue; } };
            if e.degree().is_some() { nontrivial += 1; }
            if evals % 30011 == 1 && samples.len() < 8 { samples.push(format!("{{\"expr\":{},\"truth\":[{},{}],\"claimed\":{},\"least_sound_rank\":{}}}", jstr(&format!("{:?}", e)), ta, tb, jstr(&format!("{:?}", e.degree())), sem(&e, &truth))); }
            if let Some(bad) = first_unsound(&e, &truth) {
                let mut arm = kind(bad).to_string();
                if let Update { var, .. } = bad { if env.degree(var).is_none() { arm = "Update-first-write".into(); } }
                let ob = format!("degree_expr|Expression::propagate_degrees|bounded|{}", arm);
                if seen_ob.insert(ob.clone()) {
                    viol.push(format!("{{\"unit\":\"degree_expr\",\"fn\":\"Expression::propagate_degrees\",\"obligation\":{},\"input\":{{\"expr\":{},\"deg_a\":{},\"env_a\":{},\"deg_b\":{},\"env_b\":{}}},\"what\":{},\"replay\":\"replay_ps bounded degree_expr\"}}",
                        jstr(&ob), jstr(&format!("{:?}", sh)), ta, jstr(&format!("{:?}", ea)), tb, jstr(&format!("{:?}", eb)),
                        jstr(&format!("`{:?}` with deg a = {}, deg b = {}, env a = {:?}, env b = {:?}: the {} node `{:?}` is annotated {:?} but its least sound bound has rank {}", sh, ta, tb, ea, eb, kind(bad), bad, bad.degree(), sem(bad, &truth)))));
                }
            }
        }
    } } } }
    println!("{{\"unit\":\"degree_expr\",\"evaluations\":{},\"distinct_nontrivial\":{},\"exhaustive\":true,\"rule\":{},\"bound\":{},\"samples\":[{}],\"violations\":[{}]}}",
        evals, nontrivial,
        jstr("Expression::propagate_degrees (real compiled code) to a fixpoint on each (expression shape, truth, environment); every annotated node must have upper end >= the compositional least sound bound; non-trivial = the root received a degree; cases are pairwise distinct"),
        jstr(&format!("{} expression shapes (all node kinds over leaves Number/a/b; depth-2 wrappers Mul/Update/SwitchOp/InlineArray) x 144 sound environments (deg a, deg b in 0..3; entry absent / exact / loose)", shapes.len())),
        samples.join(","), viol.join(","));
}

// ---------------------------------------------------------------------------------------------
// dom: DominatorTree::new on every rooted digraph up to a node bound, against the path definitions (C15)
use program_structure::ssa::dominator_tree::DominatorTree;
use program_structure::ssa::traits::DirectedGraphNode;
use std::collections::HashSet;

struct Node { idx: usize, preds: HashSet<usize>, succs: HashSet<usize> }
impl DirectedGraphNode for Node {
    fn index(&self) -> usize { self.idx }
    fn predecessors(&self) -> &HashSet<usize> { &self.preds }
    fn successors(&self) -> &HashSet<usize> { &self.succs }
}

/// nodes reachable from 0 without passing through `avoid`
fn reach(n: usize, adj: &Vec<Vec<bool>>, avoid: Option<usize>) -> Vec<bool> {
    let mut seen = vec![false; n];
    if avoid == Some(0) { return seen; }
    let mut stack = vec![0usize];
    seen[0] = true;
    while let Some(u) = stack.pop() {
        for v in 0..n { if adj[u][v] && !seen[v] && Some(v) != avoid { seen[v] = true; stack.push(v); } }
    }
    seen
}

fn check_graph(n: usize, adj: &Vec<Vec<bool>>) -> Option<(String, String)> {
    // oracle: d dom i  <=>  d == i or i is unreachable once d is removed
    let mut dom = vec![vec![false; n]; n]; // dom[d][i]
    for d in 0..n { let r = reach(n, adj, Some(d)); for i in 0..n { dom[d][i] = d == i || !r[i]; } }
    let nodes: Vec<Node> = (0..n).map(|i| Node { idx: i, preds: (0..n).filter(|&q| adj[q][i]).collect(), succs: (0..n).filter(|&s| adj[i][s]).collect() }).collect();
    let tree = match catch_unwind(AssertUnwindSafe(|| DominatorTree::new(&nodes))) { Ok(t) => t, Err(_) => return Some(("dom|DominatorTree::new|safety|0".into(), "DominatorTree::new panicked".into())) };
    for i in 0..n {
        let want: HashSet<usize> = (0..n).filter(|&d| dom[d][i]).collect();
        let got = tree.get_dominators(i);
        if got != want { return Some(("dom|compute_dominators|ensures|0".into(), format!("dominators({}) = {:?}, path definition gives {:?}", i, sorted(&got), sorted(&want)))); }
        // immediate dominator: the strict dominator j of i that every strict dominator of i dominates
        let sd: Vec<usize> = (0..n).filter(|&d| d != i && dom[d][i]).collect();
        let want_idom = sd.iter().copied().find(|&j| sd.iter().all(|&k| dom[k][j]));
        let got_idom = tree.get_immediate_dominator(i);
        if got_idom != want_idom { return Some(("dom|compute_immediate_dominators|ensures|0".into(), format!("idom({}) = {:?}, definition gives {:?}", i, got_idom, want_idom))); }
    }
    for j in 0..n {
        let want: HashSet<usize> = (0..n).filter(|&i| tree.get_immediate_dominator(i) == Some(j)).collect();
        let got = tree.get_dominator_successors(j);
        if got != want { return Some(("dom|compute_immediate_dominators|ensures|1".into(), format!("dominator-tree children({}) = {:?}, inverse of idom gives {:?}", j, sorted(&got), sorted(&want)))); }
        // frontier of j: nodes x such that j dominates a predecessor of x but does not strictly dominate x
        let want: HashSet<usize> = (0..n).filter(|&x| (0..n).any(|q| adj[q][x] && dom[j][q]) && !(j != x && dom[j][x])).collect();
        let got = tree.get_dominance_frontier(j);
        if got != want { return Some(("dom|compute_dominance_frontier|ensures|0".into(), format!("frontier({}) = {:?}, definition gives {:?}", j, sorted(&got), sorted(&want)))); }
    }
    None
}
fn sorted(s: &HashSet<usize>) -> Vec<usize> { let mut v: Vec<usize> = s.iter().copied().collect(); v.sort(); v }
fn edges(n: usize, adj: &Vec<Vec<bool>>) -> String { let mut v = vec![]; for a in 0..n { for b in 0..n { if adj[a][b] { v.push(format!("{}->{}", a, b)); } } } v.join(" ") }

static CURRENT_GRAPH: std::sync::Mutex<String> = std::sync::Mutex::new(String::new());

/// runs dom_bounded_inner under a watchdog: a graph on which DominatorTree::new never returns is a (termination) violation
fn dom_bounded(tier: &str, seed: u64) {
    let limit = if tier == "thorough" { 1500 } else { 60 };
    let (tx, rx) = std::sync::mpsc::channel();
    let t = tier.to_string();
    std::thread::spawn(move || { dom_bounded_inner(&t, seed); let _ = tx.send(()); });
    if rx.recv_timeout(std::time::Duration::from_secs(limit)).is_err() {
        let gdesc = CURRENT_GRAPH.lock().map(|g| g.clone()).unwrap_or_default();
        println!("{{\"unit\":\"dom\",\"evaluations\":1,\"distinct_nontrivial\":1,\"exhaustive\":false,\"rule\":\"watchdog\",\"bound\":\"aborted\",\"samples\":[],\"violations\":[{{\"unit\":\"dom\",\"fn\":\"DominatorTree::new\",\"obligation\":\"dom|DominatorTree::new|safety|0\",\"input\":{{\"graph\":{}}},\"what\":{},\"replay\":\"-\"}}]}}",
            jstr(&gdesc), jstr(&format!("DominatorTree::new did not return within {} s (non-termination) on graph [{}]", limit, gdesc)));
        std::process::exit(0);
    }
}

fn dom_bounded_inner(tier: &str, seed: u64) {
    let maxn = if tier == "thorough" { 5 } else { 4 };
    let mut evals = 0u64; let mut nontrivial = 0u64;
    let mut viol: Vec<String> = vec![]; let mut seen_ob: std::collections::BTreeSet<String> = Default::default();
    let mut samples: Vec<String> = vec![];
    let mut run = |n: usize, adj: &Vec<Vec<bool>>, evals: &mut u64, nontrivial: &mut u64| {
        let r = reach(n, adj, None);
        if !r.iter().all(|&b| b) { return; }
        *evals += 1;
        if let Ok(mut g) = CURRENT_GRAPH.lock() { *g = format!("n={} {}", n, edges(n, adj)); }
        // non-trivial: the graph has a join node (>= 2 predecessors) or a cycle
        if (0..n).any(|i| (0..n).filter(|&q| adj[q][i]).count() >= 2) { *nontrivial += 1; }
        if *evals % 509 == 1 && samples.len() < 8 { samples.push(format!("{{\"n\":{},\"edges\":{}}}", n, jstr(&edges(n, adj)))); }
        if let Some((ob, what)) = check_graph(n, adj) {
            if seen_ob.insert(ob.clone()) {
                viol.push(format!("{{\"unit\":\"dom\",\"fn\":{},\"obligation\":{},\"input\":{{\"n\":{},\"edges\":{}}},\"what\":{},\"replay\":{}}}",
                    jstr(ob.split('|').nth(1).unwrap_or("")), jstr(&ob), n, jstr(&edges(n, adj)), jstr(&format!("graph [{}] on {} nodes: {}", edges(n, adj), n, what)), jstr(&format!("replay_ps replay-dom {} {}", n, edges(n, adj).replace(' ', ",")))));
            }
        }
    };
    for n in 1..=maxn {
        let bits = n * (n - 1); // no edge into node 0; self loops allowed elsewhere
        for m in 0u64..(1u64 << bits) {
            let mut adj = vec![vec![false; n]; n];
            let mut k = 0;
            for a in 0..n { for b in 1..n { if (m >> k) & 1 == 1 { adj[a][b] = true; } k += 1; } }
            run(n, &adj, &mut evals, &mut nontrivial);
        }
    }
    // seeded random larger graphs (reducible and irreducible)
    let mut x = 0x9E3779B97F4A7C15u64 ^ seed.wrapping_mul(0xD1B54A32D192ED03) | 1;
    let nrand = if tier == "thorough" { 20000 } else { 1500 };
    for _ in 0..nrand {
        x ^= x << 13; x ^= x >> 7; x ^= x << 17;
        let n = 6 + (x % 7) as usize;
        let mut adj = vec![vec![false; n]; n];
        for b in 1..n { x ^= x << 13; x ^= x >> 7; x ^= x << 17; adj[(x % b as u64) as usize][b] = true; } // spanning tree: all reachable
        let extra = n + (x % (2 * n as u64)) as usize;
        for _ in 0..extra { x ^= x << 13; x ^= x >> 7; x ^= x << 17; let a = (x % n as u64) as usize; let b = 1 + ((x >> 20) % (n as u64 - 1)) as usize; adj[a][b] = true; }
        run(n, &adj, &mut evals, &mut nontrivial);
    }
    println!("{{\"unit\":\"dom\",\"evaluations\":{},\"distinct_nontrivial\":{},\"exhaustive\":true,\"rule\":{},\"bound\":{},\"samples\":[{}],\"violations\":[{}]}}",
        evals, nontrivial,
        jstr("DominatorTree::new (real compiled code, generic over a test node type) vs the path definitions (dominator = unreachable when removed; idom = closest strict dominator; children invert idom; frontier by definition); non-trivial = has a join node; exhaustively enumerated graphs are pairwise distinct"),
        jstr(&format!("all rooted digraphs with <= {} nodes (every node reachable, no edge into the entry, self loops allowed) exhaustively, plus {} seeded random graphs with 6..12 nodes", maxn, nrand)),
        samples.join(","), viol.join(","));
}

// ---------------------------------------------------------------------------------------------
// value_expr: Expression::propagate_values on small expression trees (C06 stage 2, BOUNDED stand-in).
// truth: the actual value of each variable; env: a sound value environment (an entry, when present, is the truth).
#[derive(Clone, Debug, PartialEq)]
enum Tv { F(BigInt), B(bool) }

fn sem_v(e: &Expression, truth: &dyn Fn(&VariableName) -> Tv, p: &BigInt) -> Option<Tv> {
    use Expression::*;
    let infix_name = |op: &ExpressionInfixOpcode| INFIX.iter().find(|(o, _)| o == op).map(|(_, n)| *n).unwrap();
    match e {
        Number(_, v) => Some(Tv::F(emod(v, p))),
        Variable { name, .. } => Some(truth(name)),
        InfixOp { lhe, infix_op, rhe, .. } => {
            let (l, r) = (sem_v(lhe, truth, p)?, sem_v(rhe, truth, p)?);
            match (l, r) {
                (Tv::F(a), Tv::F(b)) => {
                    let f = infix_name(infix_op);
                    if f == "-" { return None; }
                    let exp = expected(f, &a, &b, p)?;
                    let v = exp.iter().find_map(|o| if let Out::Val(v) = o { Some(v.clone()) } else { None })?;
                    if ["lesser_eq", "greater_eq", "lesser", "greater", "eq", "not_eq"].contains(&f) { Some(Tv::B(v.is_one())) } else { Some(Tv::F(v)) }
                }
                (Tv::B(x), Tv::B(y)) => match infix_op { ExpressionInfixOpcode::BoolAnd => Some(Tv::B(x && y)), ExpressionInfixOpcode::BoolOr => Some(Tv::B(x || y)), _ => None },
                _ => None,
            }
        }
        PrefixOp { prefix_op, rhe, .. } => match (prefix_op, sem_v(rhe, truth, p)?) {
            (ExpressionPrefixOpcode::Sub, Tv::F(a)) => Some(Tv::F(emod(&(-a), p))),
            (ExpressionPrefixOpcode::Complement, Tv::F(a)) => Some(Tv::F(emod(&(pow2(256) - 1 - a), p))),
            (ExpressionPrefixOpcode::BoolNot, Tv::B(x)) => Some(Tv::B(!x)),
            _ => None,
        },
        SwitchOp { cond, if_true, if_false, .. } => {
            let c = match sem_v(cond, truth, p)? { Tv::B(b) => b, Tv::F(v) => !v.is_zero() };
            if c { sem_v(if_true, truth, p) } else { sem_v(if_false, truth, p) }
        }
        // a phi has the value of one of its arguments, depending on the path taken: a claim must hold for all of them
        Phi { .. } => None,
        _ => None,
    }
}

fn claim_of(e: &Expression) -> Option<Tv> {
    e.value().map(|v| match v { ValueReduction::FieldElement { value } => Tv::F(value.clone()), ValueReduction::Boolean { value } => Tv::B(*value) })
}

/// the first node (post-order) whose claimed constant is not its value under `truth`
fn first_unsound_v<'a>(e: &'a Expression, truth: &dyn Fn(&VariableName) -> Tv, p: &BigInt) -> Option<(&'a Expression, String)> {
    for c in children(e) { if let Some(b) = first_unsound_v(c, truth, p) { return Some(b); } }
    if let Some(claim) = claim_of(e) {
        if let Expression::Phi { args, .. } = e {
            for a in args { if truth(a) != claim { return Some((e, format!("claims {:?} but argument {:?} has value {:?}", claim, a, truth(a)))); } }
            return None;
        }
        match sem_v(e, truth, p) {
            Some(v) if v == claim => None,
            Some(v) => Some((e, format!("claims {:?}, Circom's semantics gives {:?}", claim, v))),
            None => Some((e, format!("claims {:?} for an expression whose value is undefined or not a constant of this kind", claim))),
        }
    } else { None }
}

fn value_expr(tier: &str) {
    use Expression::*;
    let m = || Meta::default();
    let curve = Curve::Bn254;
    let p = UsefulConstants::new(&curve).prime().clone();
    let va = VariableName::from_string("a");
    let vb = VariableName::from_string("b");
    let lits: Vec<BigInt> = vec![BigInt::zero(), BigInt::one(), BigInt::from(5), &p - 1];
    let mut leaves: Vec<Expression> = lits.iter().map(|v| Number(m(), v.clone())).collect();
    leaves.push(Variable { meta: m(), name: va.clone() });
    leaves.push(Variable { meta: m(), name: vb.clone() });
    let ops: Vec<ExpressionInfixOpcode> = if tier == "thorough" { INFIX.iter().map(|(o, _)| *o).collect() } else {
        vec![ExpressionInfixOpcode::Add, ExpressionInfixOpcode::Div, ExpressionInfixOpcode::IntDiv, ExpressionInfixOpcode::ShiftR, ExpressionInfixOpcode::Lesser, ExpressionInfixOpcode::Eq, ExpressionInfixOpcode::BoolAnd] };
    let mut d1: Vec<Expression> = vec![];
    for l in &leaves { for r in &leaves { for op in &ops { d1.push(InfixOp { meta: m(), lhe: Box::new(l.clone()), infix_op: *op, rhe: Box::new(r.clone()) }); } } }
    for l in &leaves { for op in [ExpressionPrefixOpcode::Sub, ExpressionPrefixOpcode::Complement, ExpressionPrefixOpcode::BoolNot] { d1.push(PrefixOp { meta: m(), prefix_op: op, rhe: Box::new(l.clone()) }); } }
    d1.push(Phi { meta: m(), args: vec![va.clone()] });
    d1.push(Phi { meta: m(), args: vec![va.clone(), vb.clone()] });
    let cmp = |l: &Expression, r: &Expression, op| InfixOp { meta: m(), lhe: Box::new(l.clone()), infix_op: op, rhe: Box::new(r.clone()) };
    let mut shapes: Vec<Expression> = leaves.clone();
    shapes.extend(d1.iter().cloned());
    // ternaries with field and boolean conditions, boolean connectives of comparisons, one more level of arithmetic
    for c in &leaves { for t in &leaves[..3] { for f in &leaves[3..] { shapes.push(SwitchOp { meta: m(), cond: Box::new(c.clone()), if_true: Box::new(t.clone()), if_false: Box::new(f.clone()) }); } } }
    for l in &leaves { for r in &leaves {
        let c = cmp(l, r, ExpressionInfixOpcode::Lesser);
        shapes.push(SwitchOp { meta: m(), cond: Box::new(c.clone()), if_true: Box::new(leaves[1].clone()), if_false: Box::new(leaves[4].clone()) });
        shapes.push(PrefixOp { meta: m(), prefix_op: ExpressionPrefixOpcode::BoolNot, rhe: Box::new(c.clone()) });
        shapes.push(cmp(&c, &cmp(r, l, ExpressionInfixOpcode::Eq), ExpressionInfixOpcode::BoolOr));
        shapes.push(cmp(&cmp(l, r, ExpressionInfixOpcode::Sub), &leaves[2], ExpressionInfixOpcode::Mul));
    } }
    let tvals: Vec<Tv> = vec![Tv::F(BigInt::zero()), Tv::F(BigInt::from(5)), Tv::F(&p - 1), Tv::B(true)];
    let mut evals = 0u64; let mut nontrivial = 0u64;
    let mut viol: Vec<String> = vec![]; let mut seen_ob: std::collections::BTreeSet<String> = Default::default();
    let mut samples: Vec<String> = vec![];
    for ta in &tvals { for ea in [false, true] { for tb in &tvals { for eb in [false, true] {
        let constants = UsefulConstants::new(&curve);
        let mut env0 = ValueEnvironment::new(&constants);
        let to_vr = |t: &Tv| match t { Tv::F(v) => ValueReduction::FieldElement { value: v.clone() }, Tv::B(b) => ValueReduction::Boolean { value: *b } };
        if ea { env0.add_variable(&va, &to_vr(ta)); }
        if eb { env0.add_variable(&vb, &to_vr(tb)); }
        let truth = |n: &VariableName| -> Tv { if *n == va { ta.clone() } else { tb.clone() } };
        for sh in &shapes {
            let mut e = sh.clone();
            let mut env = env0.clone();
            let r = catch_unwind(AssertUnwindSafe(|| { for _ in 0..6 { if !e.propagate_values(&mut env) { break; } } e }));
            evals += 1;
            let e = match r { Ok(e) => e, Err(_) => { let ob = "value_expr|Expression::propagate_values|bounded|panic".to_string(); if seen_ob.insert(ob.clone()) { viol.push(format!("{{\"unit\":\"value_expr\",\"fn\":\"Expression::propagate_values\",\"obligation\":{},\"what\":{},\"replay\":\"replay_ps bounded value_expr\"}}", jstr(&ob), jstr(&format!("propagate_values panicked on {:?} with a = {:?}, b = {:?}", sh, ta, tb)))); } continue; } };
            if e.value().is_some() { nontrivial += 1; }
            if evals % 40009 == 1 && samples.len() < 8 { samples.push(format!("{{\"expr\":{},\"a\":{},\"b\":{},\"claimed\":{}}}", jstr(&format!("{:?}", e)), jstr(&format!("{:?}", ta)), jstr(&format!("{:?}", tb)), jstr(&format!("{:?}", e.value())))); }
            if let Some((bad, why)) = first_unsound_v(&e, &truth, &p) {
                let ob = format!("value_expr|Expression::propagate_values|bounded|{}", kind(bad));
                if seen_ob.insert(ob.clone()) {
                    viol.push(format!("{{\"unit\":\"value_expr\",\"fn\":\"Expression::propagate_values\",\"obligation\":{},\"input\":{{\"expr\":{},\"a\":{},\"env_has_a\":{},\"b\":{},\"env_has_b\":{}}},\"what\":{},\"replay\":\"replay_ps bounded value_expr\"}}",
                        jstr(&ob), jstr(&format!("{:?}", sh)), jstr(&format!("{:?}", ta)), ea, jstr(&format!("{:?}", tb)), eb,
                        jstr(&format!("`{:?}` with a = {:?} ({}), b = {:?} ({}): the {} node `{:?}` {}", sh, ta, if ea { "known" } else { "unknown" }, tb, if eb { "known" } else { "unknown" }, kind(bad), bad, why))));
                }
            }
        }
    } } } }
    println!("{{\"unit\":\"value_expr\",\"evaluations\":{},\"distinct_nontrivial\":{},\"exhaustive\":true,\"rule\":{},\"bound\":{},\"samples\":[{}],\"violations\":[{}]}}",
        evals, nontrivial,
        jstr("Expression::propagate_values (real compiled code, BN254) to a fixpoint on each (expression shape, truth, environment); every claimed constant must equal the expression's value under Circom's semantics for the true variable values (a phi's claim must hold for every argument); non-trivial = the root received a constant"),
        jstr(&format!("{} expression shapes (literals 0, 1, 5, p-1 and variables a, b under {} infix and 3 prefix operators, phi, ternaries with field and boolean conditions, boolean connectives of comparisons, nested arithmetic) x 64 sound environments (a, b in {{0, 5, p-1, true}}, each known or unknown)", shapes.len(), ops.len())),
        samples.join(","), viol.join(","));
}

fn main() {
    std::panic::set_hook(Box::new(|_| {}));
    let args: Vec<String> = std::env::args().collect();
    let tier = args.get(3).map(|s| s.as_str()).unwrap_or("quick");
    let seed: u64 = args.get(4).and_then(|s| s.parse().ok()).unwrap_or(0);
    match (args.get(1).map(|s| s.as_str()), args.get(2).map(|s| s.as_str())) {
        (Some("bounded"), Some("valueops")) => valueops(tier, seed),
        (Some("bounded"), Some("degree")) => degree(tier),
        (Some("bounded"), Some("degree_expr")) => degree_expr(tier),
        (Some("bounded"), Some("dom")) => dom_bounded(tier, seed),
        (Some("bounded"), Some("value_expr")) => value_expr(tier),
        (Some("replay-dom"), Some(nn)) => {
            let n: usize = nn.parse().unwrap();
            let mut adj = vec![vec![false; n]; n];
            for e in args.get(3).map(|s| s.as_str()).unwrap_or("").split(',').filter(|e| !e.is_empty()) { let mut it = e.split("->"); let a: usize = it.next().unwrap().parse().unwrap(); let b: usize = it.next().unwrap().parse().unwrap(); adj[a][b] = true; }
            match check_graph(n, &adj) { Some((ob, what)) => { println!("VIOLATES {}: {}", ob, what); std::process::exit(1) } None => println!("agrees with the path definitions") }
        }
        (Some("replay-infix"), Some(f)) => {
            let a = BigInt::parse_bytes(args[3].as_bytes(), 10).unwrap();
            let b = BigInt::parse_bytes(args[4].as_bytes(), 10).unwrap();
            let curve: Curve = args[5].parse().unwrap();
            let op = INFIX.iter().find(|(_, n)| n == &f).map(|(o, _)| *o).unwrap();
            let got = eval_infix(op, &a, &b, &curve);
            let pr = UsefulConstants::new(&curve).prime().clone();
            let exp = expected(f, &a, &b, &pr);
            println!("`{} {} {}` over {}: analysis claims {:?}; Circom's semantics {:?}", a, op, b, curve, got, exp);
            let ok = match (&got, &exp) {
                (Ok(None), _) => true,
                (Ok(Some(ValueReduction::FieldElement { value })), Some(e)) => e.contains(&Out::Val(value.clone())),
                (Ok(Some(ValueReduction::Boolean { value })), Some(e)) => e.contains(&Out::Val(b2i(*value))),
                _ => false,
            };
            std::process::exit(if ok { 0 } else { 1 });
        }
        _ => { eprintln!("usage: replay_ps bounded valueops|degree <tier> <seed> | replay-infix <fn> <a> <b> <curve>"); std::process::exit(2) }
    }
}
