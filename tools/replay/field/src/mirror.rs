//! executable mirror of units/field/spec.rs (the C16 oracle) over num_bigint_dig::BigInt — shared by replay_field and replay_ps
#![allow(dead_code)]
use num_bigint_dig::{BigInt, ModInverse};
use num_traits::{One, Signed, ToPrimitive, Zero};

// ---------------------------------------------------------------------------------------------
// executable mirror of units/field/spec.rs

pub fn emod(a: &BigInt, p: &BigInt) -> BigInt {
    // Euclidean remainder for p > 0
    let r = a % p;
    if r.is_negative() { r + p } else { r }
}
pub fn ediv(a: &BigInt, b: &BigInt) -> BigInt {
    // Euclidean quotient for a >= 0, b > 0
    a / b
}
pub fn sgn(a: &BigInt, p: &BigInt) -> BigInt {
    if a > &(p / 2) { a - p } else { a.clone() }
}
pub fn b2i(b: bool) -> BigInt {
    if b { BigInt::one() } else { BigInt::zero() }
}
pub fn bitlen(p: &BigInt) -> usize {
    // number of binary digits of p > 0
    let mut n = p.clone();
    let mut k = 0;
    while n.is_positive() { n = n / 2; k += 1; }
    k
}
pub fn pow2(k: usize) -> BigInt {
    let mut r = BigInt::one();
    for _ in 0..k { r = r * 2; }
    r
}
pub fn nat_bitop(a: &BigInt, b: &BigInt, op: u8) -> BigInt {
    // bit by bit on non-negative numbers
    let (mut a, mut b) = (a.clone(), b.clone());
    let mut r = BigInt::zero();
    let mut w = BigInt::one();
    while a.is_positive() || b.is_positive() {
        let two = BigInt::from(2);
        let x = (&a % &two).is_one();
        let y = (&b % &two).is_one();
        let bit = match op { 0 => x && y, 1 => x || y, _ => x != y };
        if bit { r = r + &w; }
        w = w * 2;
        a = a / 2;
        b = b / 2;
    }
    r
}
pub fn f_mask(p: &BigInt) -> BigInt { pow2(bitlen(p)) - 1 }
pub fn shl0(a: &BigInt, k: &BigInt, p: &BigInt) -> Option<BigInt> {
    if k >= &BigInt::from(bitlen(p)) { return Some(BigInt::zero()); } // every bit leaves the mask (lemma_shl_overflow)
    let k = k.to_usize()?;
    Some(emod(&nat_bitop(&(a * pow2(k)), &f_mask(p), 0), p))
}
pub fn shr0(a: &BigInt, k: &BigInt, p: &BigInt) -> Option<BigInt> {
    if k >= &BigInt::from(bitlen(p)) { return Some(BigInt::zero()); }
    let k = k.to_usize()?;
    Some(ediv(a, &pow2(k)))
}
pub fn k_eff(k: &BigInt, p: &BigInt) -> BigInt { if k <= &(p / 2) { k.clone() } else { p - k } }

#[derive(Debug, Clone, PartialEq)]
pub enum Out { Val(BigInt), Bool(bool), Err, Panic, Res(Option<BigInt>) }

/// what the contract of `f` allows for (a, b, p); None = the precondition does not admit the input
pub fn expected(f: &str, a: &BigInt, b: &BigInt, p: &BigInt) -> Option<Vec<Out>> {
    let canon = |x: &BigInt| !x.is_negative() && x < p;
    let am = emod(a, p);
    let bm = emod(b, p);
    let truthy = |x: &BigInt| !emod(x, p).is_zero();
    let lt = |x: &BigInt, y: &BigInt| sgn(&emod(x, p), p) < sgn(&emod(y, p), p);
    let one = |v: BigInt| Some(vec![Out::Val(v)]);
    match f {
        "add" => one(emod(&(a + b), p)),
        "sub" => one(emod(&(a - b), p)),
        "mul" => one(emod(&(a * b), p)),
        "prefix_sub" => one(emod(&(-a), p)),
        "div" => {
            if !canon(b) { return None; }
            if b.is_zero() { return Some(vec![Out::Err]); }
            // the unique v in [0,p) with v*b = a (mod p): search (small p) or via the library inverse for real primes
            let inv = (0..).map(BigInt::from).take_while(|x| x < p && p < &BigInt::from(1000)).find(|x| emod(&(x * b), p).is_one())
                .or_else(|| b.clone().mod_inverse(p));
            inv.map(|i| vec![Out::Val(emod(&(a * i), p))])
        }
        "idiv" => if bm.is_zero() { Some(vec![Out::Err]) } else { one(ediv(&am, &bm)) },
        "mod_op" => if bm.is_zero() { Some(vec![Out::Err]) } else { one(emod(&am, &bm)) },
        "pow" => {
            if b.is_negative() || a.is_negative() { return None; }
            let mut r = BigInt::one();
            let mut e = b.clone();
            if e > BigInt::from(4096) { return Some(vec![Out::Val(a.modpow(b, p))]); } // large exponents: library oracle only
            while e.is_positive() { r = emod(&(r * a), p); e = e - 1; }
            one(emod(&r, p))
        }
        "complement_256" => {
            if a.is_negative() || a >= &pow2(256) { return None; }
            one(emod(&(pow2(256) - 1 - a), p))
        }
        "shift_l" | "shift_r" => {
            if !canon(a) || !canon(b) { return None; }
            let left = f == "shift_l";
            let small = b <= &(p / 2);
            let ke = k_eff(b, p);
            let v = if left == small { shl0(a, &ke, p) } else { shr0(a, &ke, p) };
            let mut outs = vec![];
            if let Some(v) = v { outs.push(Out::Val(v)); }
            if ke >= BigInt::from(bitlen(p)) { outs.push(Out::Err); }
            Some(outs)
        }
        "bit_and" | "bit_or" | "bit_xor" => {
            if a.is_negative() || b.is_negative() { return None; }
            let op = match f { "bit_and" => 0, "bit_or" => 1, _ => 2 };
            one(emod(&nat_bitop(a, b, op), p))
        }
        "as_bool" => Some(vec![Out::Bool(truthy(a))]),
        "not" => one(b2i(!truthy(a))),
        "bool_or" => one(b2i(truthy(a) || truthy(b))),
        "bool_and" => one(b2i(truthy(a) && truthy(b))),
        "eq" => one(b2i(am == bm)),
        "not_eq" => one(b2i(am != bm)),
        "lesser" => one(b2i(lt(a, b))),
        "lesser_eq" => one(b2i(lt(a, b) || am == bm)),
        "greater" => one(b2i(lt(b, a))),
        "greater_eq" => one(b2i(lt(b, a) || am == bm)),
        _ => None,
    }
}

