//! replay_field — bounded engine, witness replay and stub validation for unit `field` (C16).
//! Runs the REAL compiled functions of /repo's circom_algebra against an executable mirror of the
//! contract (units/field/spec.rs re-expressed over num_bigint_dig::BigInt). Nothing here copies /repo code.
use circom_algebra::modular_arithmetic as ma;
use num_bigint_dig::{BigInt, ModInverse, Sign};
use num_traits::{One, Signed, ToPrimitive, Zero};
use std::panic::{catch_unwind, AssertUnwindSafe};

mod mirror;
use mirror::*;

fn call(f: &str, a: &BigInt, b: &BigInt, p: &BigInt) -> Out {
    let r = catch_unwind(AssertUnwindSafe(|| -> Out {
        let res = |r: Result<BigInt, ma::ArithmeticError>| match r { Ok(v) => Out::Val(v), Err(_) => Out::Err };
        match f {
            "add" => Out::Val(ma::add(a, b, p)),
            "sub" => Out::Val(ma::sub(a, b, p)),
            "mul" => Out::Val(ma::mul(a, b, p)),
            "prefix_sub" => Out::Val(ma::prefix_sub(a, p)),
            "div" => res(ma::div(a, b, p)),
            "idiv" => res(ma::idiv(a, b, p)),
            "mod_op" => res(ma::mod_op(a, b, p)),
            "pow" => Out::Val(ma::pow(a, b, p)),
            "complement_256" => Out::Val(ma::complement_256(a, p)),
            "shift_l" => res(ma::shift_l(a, b, p)),
            "shift_r" => res(ma::shift_r(a, b, p)),
            "bit_and" => Out::Val(ma::bit_and(a, b, p)),
            "bit_or" => Out::Val(ma::bit_or(a, b, p)),
            "bit_xor" => Out::Val(ma::bit_xor(a, b, p)),
            "as_bool" => Out::Bool(ma::as_bool(a, p)),
            "not" => Out::Val(ma::not(a, p)),
            "bool_or" => Out::Val(ma::bool_or(a, b, p)),
            "bool_and" => Out::Val(ma::bool_and(a, b, p)),
            "eq" => Out::Val(ma::eq(a, b, p)),
            "not_eq" => Out::Val(ma::not_eq(a, b, p)),
            "lesser" => Out::Val(ma::lesser(a, b, p)),
            "lesser_eq" => Out::Val(ma::lesser_eq(a, b, p)),
            "greater" => Out::Val(ma::greater(a, b, p)),
            "greater_eq" => Out::Val(ma::greater_eq(a, b, p)),
            _ => panic!("unknown function"),
        }
    }));
    r.unwrap_or(Out::Panic)
}

const BINARY: [&str; 21] = ["add", "sub", "mul", "div", "idiv", "mod_op", "pow", "shift_l", "shift_r", "bit_and", "bit_or", "bit_xor",
    "bool_or", "bool_and", "eq", "not_eq", "lesser", "lesser_eq", "greater", "greater_eq", "_"];
const UNARY: [&str; 4] = ["prefix_sub", "complement_256", "as_bool", "not"];

fn primes() -> Vec<(&'static str, BigInt)> {
    vec![
        ("bn254", BigInt::parse_bytes(b"21888242871839275222246405745257275088548364400416034343698204186575808495617", 10).unwrap()),
        ("bls12_381", BigInt::parse_bytes(b"52435875175126190479447740508185965837690552500527637822603658699938581184513", 10).unwrap()),
        ("goldilocks", BigInt::parse_bytes(b"18446744069414584321", 10).unwrap()),
    ]
}

struct Rng(u64);
impl Rng {
    fn next(&mut self) -> u64 { self.0 ^= self.0 << 13; self.0 ^= self.0 >> 7; self.0 ^= self.0 << 17; self.0 }
    fn big(&mut self, bits: usize) -> BigInt {
        let mut r = BigInt::zero();
        for _ in 0..(bits + 63) / 64 { r = r * BigInt::from(u64::MAX) + BigInt::from(self.next()); }
        r % pow2(bits)
    }
}

fn jstr(s: &str) -> String { format!("\"{}\"", s.replace('\\', "\\\\").replace('"', "\\\"")) }

struct Stats { evals: u64, nontrivial: std::collections::HashSet<String>, violations: Vec<String>, samples: Vec<String> }

fn check_one(st: &mut Stats, f: &str, a: &BigInt, b: &BigInt, p: &BigInt, pname: &str) {
    // Shift counts above 2^20 are never run in-process: a tree without the bit-size guard would try to build 2^k.
    // They are covered by the resource probes (child process under a timeout) of run/replay_bridge.py.
    if (f == "shift_l" || f == "shift_r") && k_eff(b, p) > BigInt::from(1 << 20) && k_eff(b, p) <= BigInt::from(u64::MAX) { return; }
    let exp = match expected(f, a, b, p) { Some(e) => e, None => return };
    st.evals += 1;
    let got = call(f, a, b, p);
    let key = format!("{}|{}|{}|{}", f, a, b, p);
    // non-trivial: the call reached the function with an admitted input and a defined expectation (distinct by (f,a,b,p))
    st.nontrivial.insert(key);
    if st.samples.len() < 8 && st.evals % 977 == 1 {
        st.samples.push(format!("{{\"fn\":{},\"a\":\"{}\",\"b\":\"{}\",\"p\":\"{}\",\"got\":{}}}", jstr(f), a, b, pname, jstr(&format!("{:?}", got))));
    }
    if !exp.contains(&got) && st.violations.len() < 20 {
        st.violations.push(format!(
            "{{\"unit\":\"field\",\"fn\":{},\"obligation\":{},\"input\":{{\"a\":\"{}\",\"b\":\"{}\",\"p\":\"{}\"}},\"got\":{},\"allowed\":{},\"what\":{},\"replay\":{}}}",
            jstr(f), jstr(&format!("field|{}|{}|0", f, if got == Out::Panic { "safety" } else { "ensures" })), a, b, p,
            jstr(&format!("{:?}", got)), jstr(&format!("{:?}", exp)),
            jstr(&format!("{}({}, {}, p={}) returned {:?}, contract allows {:?}", f, a, b, p, got, exp)),
            jstr(&format!("replay_field replay {} {} {} {}", f, a, b, p))));
    }
}

fn bounded(tier: &str, seed: u64) {
    let mut st = Stats { evals: 0, nontrivial: Default::default(), violations: vec![], samples: vec![] };
    let small: Vec<i64> = if tier == "thorough" { vec![3, 5, 7, 11, 13, 17, 19, 23] } else { vec![3, 5, 7, 11, 13] };
    for &pi in &small {
        let p = BigInt::from(pi);
        // canonical and non-canonical operands: [-p, 2p)
        for ai in -pi..2 * pi {
            for bi in -pi..2 * pi {
                for f in BINARY.iter().filter(|f| **f != "_") {
                    check_one(&mut st, f, &BigInt::from(ai), &BigInt::from(bi), &p, &pi.to_string());
                }
            }
            for f in UNARY.iter() {
                check_one(&mut st, f, &BigInt::from(ai), &BigInt::zero(), &p, &pi.to_string());
            }
        }
    }
    // boundary values for the three real primes
    let mut rng = Rng(0x9E3779B97F4A7C15 ^ seed.wrapping_mul(0xD1B54A32D192ED03) | 1);
    for (pname, p) in primes() {
        let mut vals: Vec<BigInt> = vec![BigInt::zero(), BigInt::one(), BigInt::from(2), &p / 2 - 1, &p / 2, &p / 2 + 1, &p - 2, &p - 1];
        for k in [1usize, 8, 63, 64, 65, 127, 128, 252, 253, 254, 255] {
            for d in [-1i32, 0, 1] {
                let v = pow2(k) + d;
                if !v.is_negative() && v < p { vals.push(v); }
            }
        }
        let nb = bitlen(&p);
        for k in [nb - 2, nb - 1, nb, nb + 1, 300, 4096, 65535, 65536, 65537, 1 << 20] { vals.push(BigInt::from(k)); }
        let nrand = if tier == "thorough" { 60 } else { 6 };
        for _ in 0..nrand { vals.push(rng.big(nb) % &p); }
        vals.sort();
        vals.dedup();
        for a in &vals {
            for b in &vals {
                for f in BINARY.iter().filter(|f| **f != "_") {
                    if *f == "pow" && b > &BigInt::from(1 << 20) && tier != "thorough" { continue; }
                    check_one(&mut st, f, a, b, &p, pname);
                }
            }
            for f in UNARY.iter() { check_one(&mut st, f, a, &BigInt::zero(), &p, pname); }
        }
    }
    println!("{{\"unit\":\"field\",\"evaluations\":{},\"distinct_nontrivial\":{},\"exhaustive\":true,\"rule\":{},\"bound\":{},\"samples\":[{}],\"violations\":[{}]}}",
        st.evals, st.nontrivial.len(),
        jstr("every function of modular_arithmetic.rs on the real compiled code vs the executable contract mirror; a case is distinct by (function, a, b, p) and non-trivial when the contract's precondition admits it"),
        jstr(&format!("exhaustive over all operand pairs in [-p, 2p) for p in {:?}; boundary set x boundary set (0,1,2,p/2-1..p/2+1,p-2,p-1, 2^k-1..2^k+1, shift counts around the bit size and up to 2^20) plus seeded random values for the three real primes", small)),
        st.samples.join(","), st.violations.join(","));
}

fn parse_p(s: &str) -> BigInt {
    for (n, p) in primes() { if n == s { return p; } }
    BigInt::parse_bytes(s.as_bytes(), 10).expect("prime")
}

// ---------------------------------------------------------------------------------------------
// stub validation: the contracts assumed for BigInt in units/_shared/bigint.rs, evaluated on the real crate

fn stubcheck(n: u64, seed: u64) {
    let mut rng = Rng(0xA24BAED4963EE407 ^ seed.wrapping_mul(0x9FB21C651E98DF25) | 1);
    let mut cases = 0u64;
    let mut bad: Vec<String> = vec![];
    let mut vals: Vec<BigInt> = vec![];
    for k in [0usize, 1, 2, 63, 64, 65, 253, 254, 255, 256, 257] {
        for d in [-1i32, 0, 1] { vals.push(pow2(k) + d); vals.push(-(pow2(k) + d)); }
    }
    for (_, p) in primes() { vals.push(&p / 2); vals.push(&p / 2 + 1); vals.push(&p - 1); vals.push(p); }
    let tdiv = |a: &BigInt, b: &BigInt| { let q = a.abs() / b.abs(); if (a.is_negative()) != (b.is_negative()) { -q } else { q } };
    let trem = |a: &BigInt, b: &BigInt| { let r = a.abs() % b.abs(); if a.is_negative() { -r } else { r } };
    let check = |a: &BigInt, b: &BigInt, bad: &mut Vec<String>| {
        let mut fail = |what: &str| if bad.len() < 10 { bad.push(format!("{} a={} b={}", what, a, b)); };
        if !b.is_zero() {
            if a / b != tdiv(a, b) { fail("div truncates"); }
            if a % b != trem(a, b) { fail("rem truncates"); }
            if (a / b) * b + (a % b) != *a { fail("div/rem identity"); }
        }
        if !a.is_negative() && !b.is_negative() {
            if (a & b) != nat_bitop(a, b, 0) { fail("bitand"); }
            if (a | b) != nat_bitop(a, b, 1) { fail("bitor"); }
            if (a ^ b) != nat_bitop(a, b, 2) { fail("bitxor"); }
        }
        // to_radix_le / from_radix_le
        let (s, bits) = a.to_radix_le(2);
        let want_sign = if a.is_negative() { Sign::Minus } else if a.is_zero() { Sign::NoSign } else { Sign::Plus };
        if s != want_sign { fail("to_radix_le sign"); }
        if a.is_zero() { if bits != vec![0u8] { fail("to_radix_le zero"); } }
        else {
            let mut v = BigInt::zero();
            for (i, d) in bits.iter().enumerate() { if *d > 1 { fail("digit"); } v = v + BigInt::from(*d) * pow2(i); }
            if v != a.abs() || *bits.last().unwrap() != 1 { fail("to_radix_le value/minimal"); }
        }
        let back = BigInt::from_radix_le(s, &bits, 2).unwrap();
        if s != Sign::NoSign && back != *a { fail("from_radix_le roundtrip"); }
        if !BigInt::from_radix_le(Sign::NoSign, &bits, 2).unwrap().is_zero() { fail("from_radix_le NoSign is zero"); }
        if BigInt::from_radix_le(Sign::Plus, &[0, 2, 1], 2).is_some() { fail("from_radix_le digit >= radix"); }
        // to_usize
        let tu = a.to_usize();
        let fits = !a.is_negative() && *a <= BigInt::from(usize::MAX);
        if tu.is_some() != fits { fail("to_usize range"); }
        // mod_inverse for m > 1
        if b > &BigInt::one() {
            match a.mod_inverse(b) {
                Some(x) => { if x.is_negative() || &x >= b || !emod(&(&x * a), b).is_one() { fail("mod_inverse Some"); } }
                None => {
                    // no inverse: gcd(a mod b, b) != 1
                    let (mut g, mut h) = (emod(a, b), b.clone());
                    while !h.is_zero() { let t = &g % &h; g = h; h = t; }
                    if g.is_one() { fail("mod_inverse None although coprime"); }
                }
            }
            // modpow: non-negative residue
            if !a.is_negative() {
                let e = BigInt::from(5);
                let mp = a.modpow(&e, b);
                let mut r = BigInt::one();
                for _ in 0..5 { r = emod(&(r * a), b); }
                if mp != r { fail("modpow"); }
            }
        }
        if a.clone() != *a { fail("clone"); }
    };
    for a in vals.clone() { for b in vals.clone() { check(&a, &b, &mut bad); cases += 1; } }
    while cases < n {
        let bits_a = (rng.next() % 300) as usize + 1;
        let bits_b = (rng.next() % 300) as usize + 1;
        let mut a = rng.big(bits_a);
        let mut b = rng.big(bits_b);
        if rng.next() % 4 == 0 { a = -a; }
        if rng.next() % 4 == 0 { b = -b; }
        check(&a, &b, &mut bad);
        cases += 1;
    }
    // num_traits::pow
    for e in [0usize, 1, 2, 10, 255, 256] {
        if num_traits::pow(BigInt::from(2), e) != pow2(e) { bad.push(format!("pow(2,{})", e)); }
    }
    println!("{{\"cases\":{},\"mismatches\":[{}]}}", cases, bad.iter().map(|s| jstr(s)).collect::<Vec<_>>().join(","));
}

fn main() {
    let args: Vec<String> = std::env::args().collect();
    std::panic::set_hook(Box::new(|_| {}));
    match args.get(1).map(|s| s.as_str()) {
        Some("bounded") => {
            let tier = args.get(2).map(|s| s.as_str()).unwrap_or("quick");
            let seed = args.get(3).and_then(|s| s.parse().ok()).unwrap_or(0);
            bounded(tier, seed);
        }
        Some("replay") => {
            let f = &args[2];
            let a = BigInt::parse_bytes(args[3].as_bytes(), 10).unwrap();
            let b = BigInt::parse_bytes(args[4].as_bytes(), 10).unwrap();
            let p = parse_p(&args[5]);
            let got = call(f, &a, &b, &p);
            let exp = expected(f, &a, &b, &p);
            println!("{}({}, {}, p={}) = {:?}; contract allows {:?}", f, a, b, p, got, exp);
            let ok = exp.map(|e| e.contains(&got)).unwrap_or(true);
            std::process::exit(if ok { 0 } else { 1 });
        }
        Some("one") => {
            // run a single call (used under a timeout for resource probes)
            let f = &args[2];
            let a = BigInt::parse_bytes(args[3].as_bytes(), 10).unwrap();
            let b = BigInt::parse_bytes(args[4].as_bytes(), 10).unwrap();
            let p = parse_p(&args[5]);
            let got = call(f, &a, &b, &p);
            println!("{:?}", got);
        }
        Some("stubcheck") => {
            let n = args.get(2).and_then(|s| s.parse().ok()).unwrap_or(2000);
            let seed = args.get(3).and_then(|s| s.parse().ok()).unwrap_or(0);
            stubcheck(n, seed);
        }
        _ => { eprintln!("usage: replay_field bounded <tier> <seed> | replay <fn> <a> <b> <p> | one <fn> <a> <b> <p> | stubcheck <n> <seed>"); std::process::exit(2); }
    }
}
