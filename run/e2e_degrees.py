"""run/e2e_degrees.py — bounded end-to-end engine for C07 (labelled bounded, never counted as proved).

The real CLI is run on generated templates; every CS0013 finding (`The expression assigned to .. is quadratic`) is a
claim that the right-hand side of that `<--` statement is a polynomial of total degree <= 2 in the signals.  The oracle
is semantic and independent of the tool: a concrete interpreter of the generated program over the BN254 field evaluates
the program at four points x0 + t*d (t = 0..3) of a random line in signal space; a polynomial of degree <= 2 restricted
to a line has a vanishing third finite difference, so  f(3) - 3 f(2) + 3 f(1) - f(0) != 0  is a certificate that the
claim is false (no false alarms; a false claim is missed only with negligible probability).  Claims are judged for
every sampled value of the template parameter `n`.
"""
import os, random, re, shutil, tempfile

P = 21888242871839275222246405745257275088548364400416034343698204186575808495617
BITS = P.bit_length()
MASK = (1 << BITS) - 1


class Undefined(Exception):
    pass


def val(x):
    return x - P if x >= P // 2 + 1 else x


def binop(op, a, b):
    if op == "+": return (a + b) % P
    if op == "-": return (a - b) % P
    if op == "*": return (a * b) % P
    if op == "/":
        if b == 0: raise Undefined()
        return a * pow(b, P - 2, P) % P
    if op == "\\":
        if b == 0: raise Undefined()
        return a // b
    if op == "%":
        if b == 0: raise Undefined()
        return a % b
    if op == "**": return pow(a, b, P)
    if op == "<": return 1 if val(a) < val(b) else 0
    if op == ">": return 1 if val(a) > val(b) else 0
    if op == "<=": return 1 if val(a) <= val(b) else 0
    if op == ">=": return 1 if val(a) >= val(b) else 0
    if op == "==": return 1 if a == b else 0
    if op == "!=": return 1 if a != b else 0
    if op == "&&": return 1 if (a != 0 and b != 0) else 0
    if op == "||": return 1 if (a != 0 or b != 0) else 0
    if op == "&": return (a & b) % P
    if op == "|": return (a | b) % P
    if op == "^": return (a ^ b) % P
    if op == "<<": return shl(a, b)
    if op == ">>": return shr(a, b)
    raise KeyError(op)


def shl(a, k):
    if k <= P // 2:
        if k >= BITS: return 0
        return ((a << k) & MASK) % P
    return shr(a, P - k)


def shr(a, k):
    if k <= P // 2:
        if k >= BITS: return 0
        return a >> k
    return shl(a, P - k)


def unop(op, a):
    if op == "-": return (-a) % P
    if op == "!": return 1 if a == 0 else 0
    if op == "~": return (((1 << 256) - 1) ^ a) % P
    raise KeyError(op)


# ---------------------------------------------------------------- programs
# expressions: int | str (name) | ("idx", name, e) | ("un", op, e) | ("bin", op, l, r) | ("?:", c, a, b) | ("call", f, e)
#              | ("port", comp, name)
# statements:  ("var", line, name, e|None) | ("arr", line, name, size) | ("set", line, name, op, e) | ("seti", line, name, idx, e)
#              | ("out", line, sig, idx|None, e) | ("if", line, c, then, else) | ("for", line, ivar, bound, body)

FUNCS = {"sq": lambda x: x * x % P, "pick": lambda x: 1 if val(x) > 2 else 0, "lin": lambda x: (3 * x + 1) % P}
FUNC_TEXT = ("function sq(x) { return x * x; }\n"
             "function pick(x) { if (x > 2) { return 1; } return 0; }\n"
             "function lin(x) { return 3 * x + 1; }\n")


def etext(e):
    if isinstance(e, int): return str(e)
    if isinstance(e, str): return e
    k = e[0]
    if k == "idx": return f"{e[1]}[{etext(e[2])}]"
    if k == "un": return f"({e[1]}{etext(e[2])})"
    if k == "bin": return f"({etext(e[2])} {e[1]} {etext(e[3])})"
    if k == "?:": return f"({etext(e[1])} ? {etext(e[2])} : {etext(e[3])})"
    if k == "call": return f"{e[1]}({etext(e[2])})"
    if k == "port": return f"{e[1]}.{e[2]}"
    raise KeyError(k)


def evaluate(e, env):
    if isinstance(e, int): return e % P
    if isinstance(e, str): return env[e]
    k = e[0]
    if k == "idx":
        i = evaluate(e[2], env); arr = env[e[1]]
        if i >= len(arr): raise Undefined()
        return arr[i]
    if k == "un": return unop(e[1], evaluate(e[2], env))
    if k == "bin": return binop(e[1], evaluate(e[2], env), evaluate(e[3], env))
    if k == "?:": return evaluate(e[2], env) if evaluate(e[1], env) != 0 else evaluate(e[3], env)
    if k == "call": return FUNCS[e[1]](evaluate(e[2], env))
    if k == "port": return env[f"{e[1]}.{e[2]}"]
    raise KeyError(k)


def render(stmts, ind, out):
    for st in stmts:
        k = st[0]; pad = "  " * ind
        if k == "var": out.append(pad + (f"var {st[2]} = {etext(st[3])};" if st[3] is not None else f"var {st[2]};"))
        elif k == "arr": out.append(pad + f"var {st[2]}[{st[3]}];")
        elif k == "set": out.append(pad + f"{st[2]} {st[3]} {etext(st[4])};")
        elif k == "seti": out.append(pad + f"{st[2]}[{etext(st[3])}] = {etext(st[4])};")
        elif k == "out": out.append(pad + (f"{st[2]} <-- {etext(st[4])};" if st[3] is None else f"{st[2]}[{etext(st[3])}] <-- {etext(st[4])};"))
        elif k == "if":
            out.append(pad + f"if ({etext(st[2])}) {{"); st[1][0] = len(out)
            render(st[3], ind + 1, out)
            out.append(pad + "} else {")
            render(st[4], ind + 1, out)
            out.append(pad + "}")
            continue
        elif k == "for":
            out.append(pad + f"for (var {st[2]} = 0; {st[2]} < {etext(st[3])}; {st[2]}++) {{"); st[1][0] = len(out)
            render(st[4], ind + 1, out)
            out.append(pad + "}")
            continue
        st[1][0] = len(out)


class Prog:
    def __init__(self, body, n_out, out_arrays, ports):
        self.body, self.n_out, self.out_arrays, self.ports = body, n_out, out_arrays, ports

    def text(self):
        head = ["pragma circom 2.0.0;"] + FUNC_TEXT.strip().split("\n")
        if self.ports:
            head += ["template Sub() { signal input x; signal output y; y <== x * x; }"]
        head += ["template T(n) {", "  signal input a;", "  signal input b;"]
        head += [f"  signal output o{k};" for k in range(self.n_out)]
        head += [f"  signal output {nm}[{sz}];" for (nm, sz) in self.out_arrays]
        if self.ports:
            head += ["  component c = Sub();", "  c.x <== a;"]
        out = list(head)
        render(self.body, 1, out)
        out += ["}", "component main = T(2);"]
        return "\n".join(out) + "\n"

    def lines_of_outs(self, stmts=None, acc=None):
        acc = {} if acc is None else acc
        for st in (self.body if stmts is None else stmts):
            if st[0] == "out": acc[st[1][0]] = st
            elif st[0] == "if": self.lines_of_outs(st[3], acc); self.lines_of_outs(st[4], acc)
            elif st[0] == "for": self.lines_of_outs(st[4], acc)
        return acc


def third_difference_nonzero(prog, line_cell, n, rng, tries=3):
    """True iff some random line in signal space certifies that the right-hand side at `line_cell` is not a polynomial of
    degree <= 2 in the signals (for parameter n). None when the statement is not executed / evaluation is undefined."""
    names = ["a", "b"] + (["c.y"] if prog.ports else [])
    decided = None
    for _ in range(tries):
        x0 = {v: rng.randrange(P) for v in names}
        d = {v: rng.randrange(1, P) for v in names}
        seqs = []
        try:
            for t in range(4):
                env = {v: (x0[v] + t * d[v]) % P for v in names}
                env["n"] = n
                rec = {}
                run(prog.body, env, rec, [4000])
                seqs.append(rec.get(id(line_cell), None))
        except Undefined:
            continue
        if any(s is None for s in seqs):
            if all(s is None for s in seqs):
                return None if decided is None else decided
            return True          # executed or not depending on the signals: certainly not a fixed quadratic polynomial
        if len({len(s) for s in seqs}) != 1:
            return True
        decided = False
        for k in range(len(seqs[0])):
            f = [s[k] for s in seqs]
            if (f[3] - 3 * f[2] + 3 * f[1] - f[0]) % P != 0:
                return True
    return decided


# the recorder keys statements by the identity of their line cell (a one-element list filled in by render)
def run(stmts, env, rec, fuel):
    for st in stmts:
        fuel[0] -= 1
        if fuel[0] < 0: raise Undefined()
        k = st[0]
        if k == "var": env[st[2]] = evaluate(st[3], env) if st[3] is not None else 0
        elif k == "arr": env[st[2]] = [0] * st[3]
        elif k == "set":
            v = evaluate(st[4], env)
            env[st[2]] = v if st[3] == "=" else binop(st[3][:-1], env[st[2]], v)
        elif k == "seti":
            i = evaluate(st[3], env); v = evaluate(st[4], env)
            if i >= len(env[st[2]]): raise Undefined()
            env[st[2]] = env[st[2]][:i] + [v] + env[st[2]][i + 1:]
        elif k == "out":
            rec.setdefault(id(st[1]), []).append(evaluate(st[4], env))
        elif k == "if":
            c = evaluate(st[2], env)
            rec.setdefault(("cond", id(st[1])), []).append(1 if c != 0 else 0)
            run(st[3] if c != 0 else st[4], env, rec, fuel)
        elif k == "for":
            env[st[2]] = 0
            while binop("<", env[st[2]], evaluate(st[3], env)):
                run(st[4], env, rec, fuel)
                env[st[2]] = (env[st[2]] + 1) % P
                fuel[0] -= 1
                if fuel[0] < 0: raise Undefined()
        else:
            raise KeyError(k)


# ---------------------------------------------------------------- generator
POLY_OPS = ["+", "-", "*"]
OTHER_OPS = ["/", "<", "==", "&", "|", "^", "<<", ">>", "\\", "%", "**", "&&", ">"]


def gen_expr(rng, depth, scope, poly_bias=0.75):
    """scope: {"scalars": [...], "arrays": {name: size}, "ivars": [...], "ports": bool}"""
    if depth <= 0 or rng.random() < 0.3:
        r = rng.random()
        if r < 0.25: return rng.randrange(0, 4)
        if r < 0.55: return rng.choice(["a", "b"])
        if r < 0.62: return "n"
        if r < 0.85 and scope["scalars"]: return rng.choice(scope["scalars"])
        if r < 0.93 and scope["arrays"]:
            nm = rng.choice(sorted(scope["arrays"]))
            idx = rng.choice(scope["ivars"]) if (scope["ivars"] and rng.random() < 0.4) else rng.randrange(scope["arrays"][nm])
            return ("idx", nm, idx)
        if scope["ports"] and r < 0.97: return ("port", "c", "y")
        if scope["ivars"]: return rng.choice(scope["ivars"])
        return rng.choice(["a", "b"])
    r = rng.random()
    if r < poly_bias:
        return ("bin", rng.choice(POLY_OPS), gen_expr(rng, depth - 1, scope, poly_bias), gen_expr(rng, depth - 1, scope, poly_bias))
    r = rng.random()
    if r < 0.45:
        op = rng.choice(OTHER_OPS)
        l = gen_expr(rng, depth - 1, scope, poly_bias)
        if op in ("<<", ">>", "**"): rr = rng.randrange(0, 4)
        elif op in ("/", "\\", "%"): rr = rng.choice([rng.randrange(1, 4), gen_expr(rng, depth - 1, scope, poly_bias)])
        else: rr = gen_expr(rng, depth - 1, scope, poly_bias)
        return ("bin", op, l, rr)
    if r < 0.65: return ("un", rng.choice(["-", "-", "~", "!"]), gen_expr(rng, depth - 1, scope, poly_bias))
    if r < 0.85:
        c = rng.choice([("bin", "==", "n", rng.randrange(0, 3)), ("bin", "<", "a", rng.randrange(0, 5)), gen_expr(rng, depth - 1, scope, poly_bias)])
        return ("?:", c, gen_expr(rng, depth - 1, scope, poly_bias), gen_expr(rng, depth - 1, scope, poly_bias))
    return ("call", rng.choice(sorted(FUNCS)), gen_expr(rng, depth - 1, scope, poly_bias))


def mentions_unknown_degree(e, tainted):
    """syntactic over-approximation of 'the tool may have no degree for this expression' (ternaries, calls, tainted variables)"""
    if isinstance(e, int): return False
    if isinstance(e, str): return e in tainted
    if e[0] in ("?:", "call"): return True
    if e[0] == "idx": return e[1] in tainted or mentions_unknown_degree(e[2], tainted)
    if e[0] == "port": return False
    return any(mentions_unknown_degree(x, tainted) for x in e[2:] if not isinstance(x, str) or x in tainted) if e[0] in ("un",) else \
        any(mentions_unknown_degree(x, tainted) for x in e[2:])


def const_expr(rng, depth, consts):
    """an expression over literals, the parameter-free constants in scope and all operators"""
    if depth <= 0 or rng.random() < 0.35:
        if consts and rng.random() < 0.5: return rng.choice(consts)
        return rng.randrange(0, 6)
    r = rng.random()
    if r < 0.6: return ("bin", rng.choice(["+", "-", "*", "+", "*"]), const_expr(rng, depth - 1, consts), const_expr(rng, depth - 1, consts))
    if r < 0.8:
        op = rng.choice(["<", ">", "==", "!=", "<=", ">=", "&", "|", "^", "&&", "||", "\\", "%", "/", "**", "<<", ">>"])
        rr = rng.randrange(1, 5) if op in ("\\", "%", "/", "**", "<<", ">>") else const_expr(rng, depth - 1, consts)
        return ("bin", op, const_expr(rng, depth - 1, consts), rr)
    if r < 0.9: return ("un", rng.choice(["-", "!", "~"]), const_expr(rng, depth - 1, consts))
    return ("?:", const_expr(rng, depth - 1, consts), const_expr(rng, depth - 1, consts), const_expr(rng, depth - 1, consts))


def gen_program(rng, size, mode="degrees"):
    ports = rng.random() < 0.3
    scope = {"scalars": [], "arrays": {}, "ivars": [], "ports": ports}
    state = {"outs": 0, "oarrs": [], "tainted": set(), "nvar": 0}

    def block(budget, depth, in_loop):
        stmts = []
        while budget > 0:
            budget -= 1
            r = rng.random()
            if mode == "values" and depth < 2 and scope["scalars"] and rng.random() < 0.22:
                # a condition on a variable that may well be constant here
                cands = [v for v in scope["scalars"] if v in state.get("consts", ())] or scope["scalars"]
                c = ("bin", rng.choice(["==", "==", "!=", "<", ">", "<=", ">="]), rng.choice(cands), rng.randrange(0, 4))
                th = block(rng.randrange(0, 3), depth + 1, (in_loop[0], None) if in_loop else None)
                el = block(rng.randrange(0, 2), depth + 1, (in_loop[0], None) if in_loop else None)
                stmts.append(("if", [0], c, th, el))
                continue
            if r < 0.16 and state["nvar"] < 5 and depth == 0:
                nm = f"v{state['nvar']}"; state["nvar"] += 1
                e = gen_expr(rng, 2, scope) if (rng.random() < 0.8 or mode == "values") else None   # values mode: always initialised (known finding C06 uninitialised:*)
                if mode == "values" and rng.random() < 0.75:
                    e = const_expr(rng, rng.choice([0, 1, 1, 2]), [v for v in scope["scalars"] if v in state.get("consts", ())])
                    state.setdefault("consts", set()).add(nm)
                if e is not None and mentions_unknown_degree(e, state["tainted"]): state["tainted"].add(nm)
                stmts.append(("var", [0], nm, e)); scope["scalars"].append(nm)
            elif r < 0.21 and depth == 0 and len(scope["arrays"]) < 2:
                nm = f"w{len(scope['arrays'])}"; stmts.append(("arr", [0], nm, 3)); scope["arrays"][nm] = 3
            elif r < 0.45 and scope["scalars"]:
                nm = rng.choice(scope["scalars"])
                op = rng.choice(["=", "=", "=", "+=", "*=", "-="])
                e = gen_expr(rng, 2, scope)
                if mode == "values" and rng.random() < 0.5:
                    e = const_expr(rng, 2, [v for v in scope["scalars"] if v in state.get("consts", ())])
                if mentions_unknown_degree(e, state["tainted"]): state["tainted"].add(nm)
                stmts.append(("set", [0], nm, op, e))
            elif r < 0.55 and scope["arrays"]:
                nm = rng.choice(sorted(scope["arrays"]))
                idx = rng.choice(scope["ivars"]) if (scope["ivars"] and rng.random() < 0.5) else rng.randrange(3)
                # element writes never carry an expression the tool may have no degree for (known finding C07 Update-first-write)
                for _ in range(20):
                    e = gen_expr(rng, 2, scope)
                    if not mentions_unknown_degree(e, state["tainted"]): break
                else:
                    e = "a"
                stmts.append(("seti", [0], nm, idx, e))
            elif r < 0.75:
                e = gen_expr(rng, 3, scope, poly_bias=0.85)
                if in_loop:
                    if in_loop[1] is None: continue
                    nm = f"oa{len(state['oarrs'])}"; state["oarrs"].append((nm, 3))
                    stmts.append(("out", [0], nm, in_loop[0], e))
                    in_loop = (in_loop[0], None)
                else:
                    if state["outs"] >= 8: continue
                    stmts.append(("out", [0], f"o{state['outs']}", None, e)); state["outs"] += 1
            elif r < 0.87 and depth < 2:
                c = ("bin", rng.choice(["==", "<", "!=", ">"]), rng.choice(["n"] + scope["ivars"]), rng.randrange(0, 3))
                if mode == "values" and rng.random() < 0.75:
                    # conditions on variables (often constant), on array slots, and on signals
                    lhs = rng.choice(scope["scalars"] + [("idx", a_, rng.randrange(3)) for a_ in sorted(scope["arrays"])] + ["a", gen_expr(rng, 1, scope)])
                    c = ("bin", rng.choice(["==", "<", "!=", ">", "<=", ">="]), lhs, rng.randrange(0, 6))
                    if rng.random() < 0.2: c = ("bin", rng.choice(["&&", "||"]), c, ("bin", "==", "n", rng.randrange(0, 3)))
                th = block(rng.randrange(1, 3), depth + 1, (in_loop[0], None) if in_loop else None)
                el = block(rng.randrange(0, 3), depth + 1, (in_loop[0], None) if in_loop else None)
                stmts.append(("if", [0], c, th, el))
            elif depth < 2 and not in_loop:
                iv = "ijk"[depth]
                bound = rng.choice([2, 3, 3, "n"])
                scope["ivars"].append(iv)
                # array outputs are written in loops with a literal bound only (the index must stay inside the array)
                body = block(rng.randrange(1, 4), depth + 1, (iv, True if bound in (2, 3) else None))
                scope["ivars"].remove(iv)
                # a loop with a bound the oracle cannot keep inside the arrays: indices by loop variable are only generated for literal bounds
                if bound == "n":
                    body = [s for s in body if not uses_ivar_index(s, iv)]
                stmts.append(("for", [0], iv, bound, body))
        return stmts

    body = block(size, 0, None)
    if state["outs"] == 0:
        body.append(("out", [0], "o0", None, gen_expr(rng, 3, scope, poly_bias=0.9))); state["outs"] = 1
    return Prog(body, state["outs"], state["oarrs"], ports)


def uses_ivar_index(st, iv):
    def in_e(e):
        if isinstance(e, (int, str)): return False
        if e[0] == "idx": return e[2] == iv or in_e(e[2])
        return any(in_e(x) for x in e[1:] if isinstance(x, tuple))
    k = st[0]
    if k == "seti": return st[3] == iv or in_e(st[4])
    if k == "out": return st[3] == iv or in_e(st[4])
    if k in ("var",): return st[3] is not None and in_e(st[3])
    if k == "set": return in_e(st[4])
    if k == "if": return in_e(st[2]) or any(uses_ivar_index(s, iv) for s in st[3] + st[4])
    if k == "for": return any(uses_ivar_index(s, iv) for s in st[4])
    return False


# ---------------------------------------------------------------- hand-written shapes
def fixed_programs():
    """(name, Prog): shapes a random generator meets rarely; names are stable (known findings are identified by them)"""
    def P_(body, n_out=1, oarrs=(), ports=False): return Prog(body, n_out, list(oarrs), ports)
    a2 = ("bin", "*", "a", "a"); a3 = ("bin", "*", a2, "a")
    progs = [
        ("plain:quadratic", P_([("out", [0], "o0", None, ("bin", "+", a2, "b"))])),
        ("plain:cubic", P_([("out", [0], "o0", None, a3)])),
        ("plain:complement", P_([("out", [0], "o0", None, ("un", "~", "a"))])),
        ("plain:not", P_([("out", [0], "o0", None, ("un", "!", "a"))])),
        ("plain:division-by-signal", P_([("out", [0], "o0", None, ("bin", "/", "a", "b"))])),
        ("plain:division-by-constant", P_([("out", [0], "o0", None, ("bin", "/", a2, 3))])),
        ("plain:shift-of-signal", P_([("out", [0], "o0", None, ("bin", "<<", "a", 2))])),
        ("plain:comparison", P_([("out", [0], "o0", None, ("bin", "<", "a", "b"))])),
        ("plain:power-2", P_([("out", [0], "o0", None, ("bin", "**", "a", 2))])),
        ("plain:power-3", P_([("out", [0], "o0", None, ("bin", "**", "a", 3))])),
        ("plain:power-n", P_([("out", [0], "o0", None, ("bin", "**", "a", "n"))])),
        ("plain:signal-exponent", P_([("out", [0], "o0", None, ("bin", "**", 2, "a"))])),
        # degree 2, but not of the form A * B + C with A, B, C linear: the compiler rejects these in a constraint (NO_RANK_ONE below)
        ("plain:sum-of-two-squares", P_([("out", [0], "o0", None, ("bin", "+", a2, ("bin", "*", "b", "b")))])),
        ("plain:difference-of-two-products", P_([("out", [0], "o0", None, ("bin", "-", ("bin", "*", "a", "b"), ("bin", "*", ("bin", "+", "b", 1), ("bin", "+", "b", 2))))])),
        ("var:sum-of-products-accumulated", P_([("var", [0], "v0", a2), ("set", [0], "v0", "+=", ("bin", "*", "b", "b")), ("out", [0], "o0", None, "v0")])),
        ("var:product-accumulated-in-loop", P_([("var", [0], "v0", 1), ("for", [0], "i", "n", [("set", [0], "v0", "*=", "a")]), ("out", [0], "o0", None, "v0")])),
        ("var:product-accumulated-twice", P_([("var", [0], "v0", "a"), ("for", [0], "i", 2, [("set", [0], "v0", "*=", "a")]), ("out", [0], "o0", None, "v0")])),
        ("var:sum-accumulated-in-loop", P_([("var", [0], "v0", 0), ("for", [0], "i", "n", [("set", [0], "v0", "+=", a2)]), ("out", [0], "o0", None, "v0")])),
        ("var:squared-in-branch", P_([("var", [0], "v0", "a"), ("if", [0], ("bin", "==", "n", 1), [("set", [0], "v0", "*=", a2)], []), ("out", [0], "o0", None, "v0")])),
        ("var:product-of-two-variables", P_([("var", [0], "v0", a2), ("var", [0], "v1", ("bin", "+", "b", 1)), ("out", [0], "o0", None, ("bin", "*", "v0", "v1"))])),
        ("ternary:constant-condition", P_([("out", [0], "o0", None, ("?:", ("bin", "==", "n", 1), a2, "b"))])),
        ("ternary:constant-condition-cubic-case", P_([("out", [0], "o0", None, ("?:", ("bin", "==", "n", 1), a3, "b"))])),
        ("ternary:signal-condition", P_([("out", [0], "o0", None, ("?:", ("bin", "<", "a", 3), 1, 2))])),
        ("call:signal-argument", P_([("out", [0], "o0", None, ("call", "sq", ("bin", "*", "a", "b")))])),
        ("call:constant-argument", P_([("out", [0], "o0", None, ("bin", "*", ("call", "sq", "n"), a2))])),
        ("array:elements-of-different-degree", P_([("arr", [0], "w0", 3), ("seti", [0], "w0", 0, 1), ("seti", [0], "w0", 1, a3), ("out", [0], "o0", None, ("idx", "w0", 1))])),
        ("array:cubic-then-constant-element", P_([("arr", [0], "w0", 3), ("seti", [0], "w0", 0, a3), ("seti", [0], "w0", 1, 1), ("out", [0], "o0", None, ("idx", "w0", 0))])),
        ("array:product-accumulated-per-element", P_([("arr", [0], "w0", 3), ("seti", [0], "w0", 0, 1), ("for", [0], "i", 3, [("seti", [0], "w0", 0, ("bin", "*", ("idx", "w0", 0), "a"))]), ("out", [0], "o0", None, ("idx", "w0", 0))])),
        ("array:unknown-index", P_([("arr", [0], "w0", 3), ("seti", [0], "w0", 0, a3), ("seti", [0], "w0", 1, 1), ("out", [0], "o0", None, ("idx", "w0", ("bin", "%", "n", 2)))])),
        ("array:signal-index", P_([("arr", [0], "w0", 3), ("seti", [0], "w0", 0, 1), ("seti", [0], "w0", 1, 2), ("out", [0], "o0", None, ("idx", "w0", ("bin", "&", "a", 1)))])),
        ("array:first-write-of-unknown-degree", P_([("arr", [0], "w0", 3), ("seti", [0], "w0", 0, ("?:", ("bin", ">", "a", 3), 1, 0)), ("seti", [0], "w0", 1, 1), ("out", [0], "o0", None, ("idx", "w0", 0))])),
        ("port:linear", P_([("out", [0], "o0", None, ("bin", "*", ("port", "c", "y"), "a"))], ports=True)),
        ("port:cubic", P_([("out", [0], "o0", None, ("bin", "*", ("bin", "*", ("port", "c", "y"), "a"), "b"))], ports=True)),
        ("output-array:in-loop", P_([("var", [0], "v0", "a"), ("for", [0], "i", 3, [("out", [0], "oa0", "i", "v0"), ("set", [0], "v0", "*=", "a")])], n_out=0, oarrs=[("oa0", 3)])),
        ("implicit-flow:if", P_([("var", [0], "v0", None), ("if", [0], ("bin", ">", "a", 1), [("set", [0], "v0", "=", 1)], [("set", [0], "v0", "=", 2)]), ("out", [0], "o0", None, "v0")])),
        ("implicit-flow:loop", P_([("var", [0], "v0", 0), ("for", [0], "i", ("bin", "&", "a", 3), [("set", [0], "v0", "=", ("bin", "+", "v0", 1))]), ("out", [0], "o0", None, "v0")])),
    ]
    return progs


# fixed shapes whose right-hand side has degree 2 without being a product of two linear expressions plus a linear one
NO_RANK_ONE = {"plain:sum-of-two-squares", "plain:difference-of-two-products", "var:sum-of-products-accumulated"}


def claims_of(out):
    """lines with a CS0013 finding"""
    res, cur = set(), None
    for l in out.split("\n"):
        m = re.match(r"^(warning|error|note|info)\[(\w+)\]:", l)
        if m: cur = m.group(2); seen = False; continue
        m2 = re.search(r"┌─ [^\s:]+:(\d+):\d+", l)
        if m2 and cur == "CS0013" and not seen:
            res.add(int(m2.group(1))); seen = True
    return res


def constant_claims_of(out):
    """{line: 'true' | 'false'} for the CS0009 findings"""
    res, cur = {}, None
    for l in out.split("\n"):
        m = re.match(r"^(warning|error|note|info)\[(\w+)\]:", l)
        if m: cur = m.group(2); ln = None; continue
        if cur != "CS0009": continue
        m2 = re.search(r"┌─ [^\s:]+:(\d+):\d+", l)
        if m2 and ln is None: ln = int(m2.group(1))
        m3 = re.search(r"always (true|false)", l)
        if m3 and ln is not None and ln not in res: res[ln] = m3.group(1)
    return res


def lines_of_ifs(stmts, acc):
    for st in stmts:
        if st[0] == "if": acc[st[1][0]] = st; lines_of_ifs(st[3], acc); lines_of_ifs(st[4], acc)
        elif st[0] == "for": lines_of_ifs(st[4], acc)
    return acc


def fixed_value_programs():
    def P_(body): return Prog(body + [("out", [0], "o0", None, "a")], 1, [], False)
    I = lambda c, th=(), el=(): ("if", [0], c, list(th), list(el))
    eq = lambda l, r: ("bin", "==", l, r)
    return [
        ("constant:true", P_([("var", [0], "v0", 2), I(eq("v0", 2))])),
        ("constant:false", P_([("var", [0], "v0", 2), I(eq("v0", 3))])),
        ("constant:folded", P_([("var", [0], "v0", ("bin", "*", 3, 4)), I(eq("v0", 12))])),
        ("merged:distinct", P_([("var", [0], "v0", 1), I(eq("n", 0), [("set", [0], "v0", "=", 2)]), I(eq("v0", 1))])),
        ("merged:equal", P_([("var", [0], "v0", 1), I(eq("n", 0), [("set", [0], "v0", "=", 1)]), I(eq("v0", 1))])),
        ("merged:under-signal-condition", P_([("var", [0], "v0", 1), I(("bin", ">", "a", 3), [("set", [0], "v0", "=", 2)]), I(eq("v0", 1))])),
        ("loop:counter", P_([("var", [0], "v0", 0), ("for", [0], "i", "n", [("set", [0], "v0", "+=", 1)]), I(eq("v0", 0))])),
        ("loop:reset-to-same", P_([("var", [0], "v0", 5), ("for", [0], "i", "n", [("set", [0], "v0", "=", 5)]), I(eq("v0", 5))])),
        ("loop:condition-inside", P_([("var", [0], "v0", 0), ("for", [0], "i", 3, [I(eq("v0", 0)), ("set", [0], "v0", "+=", 1)])])),
        ("array:one-slot", P_([("arr", [0], "w0", 3), ("seti", [0], "w0", 0, 1), I(eq(("idx", "w0", 1), 1))])),
        ("array:slot-by-parameter", P_([("arr", [0], "w0", 3), ("seti", [0], "w0", 0, 1), ("seti", [0], "w0", 1, 1), I(eq(("idx", "w0", ("bin", "%", "n", 3)), 1))])),
        ("array:slot-by-signal", P_([("arr", [0], "w0", 3), ("seti", [0], "w0", 0, 1), ("seti", [0], "w0", 1, 1), I(eq(("idx", "w0", ("bin", "&", "a", 1)), 1))])),
        ("signal:compared", P_([I(("bin", "<", "a", 3))])),
        ("signal:times-zero", P_([("var", [0], "v0", ("bin", "*", "a", 0)), I(eq("v0", 0))])),
        ("signal:minus-itself", P_([("var", [0], "v0", ("bin", "-", "a", "a")), I(eq("v0", 0))])),
        ("operators:negative-comparison", P_([("var", [0], "v0", ("bin", "-", 0, 1)), I(("bin", "<", "v0", 0))])),
        ("operators:complement", P_([("var", [0], "v0", ("un", "~", 0)), I(("bin", ">", "v0", 0))])),
        ("operators:shift-right-of-negative", P_([("var", [0], "v0", ("bin", ">>", ("bin", "-", 0, 1), 1)), I(("bin", ">", "v0", 0))])),
        ("operators:integer-division", P_([("var", [0], "v0", ("bin", "\\", 7, 2)), I(eq("v0", 3))])),
        ("operators:field-division", P_([("var", [0], "v0", ("bin", "/", 7, 2)), I(eq(("bin", "*", "v0", 2), 7))])),
        ("operators:power", P_([("var", [0], "v0", ("bin", "**", 2, 5)), I(eq("v0", 32))])),
        ("call:constant-argument", P_([("var", [0], "v0", ("call", "sq", 3)), I(eq("v0", 9))])),
        ("ternary:on-parameter", P_([("var", [0], "v0", ("?:", eq("n", 0), 1, 2)), I(eq("v0", 1))])),
        # a variable declared without an initial value holds 0 on the paths that do not assign it
        ("uninitialised:if-join", P_([("var", [0], "v0", None), I(eq("n", 0), [("set", [0], "v0", "=", 1)]), I(eq("v0", 1))])),
        ("uninitialised:loop-zero-trip", P_([("var", [0], "v0", None), ("for", [0], "i", "n", [("set", [0], "v0", "=", 7)]), I(eq("v0", 7))])),
        ("uninitialised:both-branches", P_([("var", [0], "v0", None), I(eq("n", 0), [("set", [0], "v0", "=", 1)], [("set", [0], "v0", "=", 1)]), I(eq("v0", 1))])),
        ("initialised:if-join", P_([("var", [0], "v0", 0), I(eq("n", 0), [("set", [0], "v0", "=", 1)]), I(eq("v0", 1))])),
    ]


def suite_values_random(exe, tier, seed, run_cli):
    """C06 through the CLI: every CS0009 claim (`This condition is always true/false`) against concrete executions"""
    rng = random.Random(2000 + seed)
    n_random = 1500 if tier == "thorough" else 150
    viol, samples = [], []
    evals = claims = 0
    d = tempfile.mkdtemp(prefix="vx-e2e-")
    try:
        cases = fixed_value_programs() + [(f"random:{k}", gen_program(rng, rng.randrange(5, 13), mode="values")) for k in range(n_random)]
        for (name, prog) in cases:
            text = prog.text()
            path = os.path.join(d, "d.circom"); open(path, "w").write(text)
            rc, out, err = run_cli(exe, ["-v", path], d)
            evals += 1
            what, props = None, ["C06"]
            made = constant_claims_of(out) if rc in (0, 1) else {}
            if rc is None or "panicked" in err or rc not in (0, 1):
                first = next((l for l in err.split("\n") if "panicked" in l), err[:200])
                what, props = f"the tool aborted (exit {rc}): {first.strip()[:160]}", ["C01"]
            elif made:
                ifs = lines_of_ifs(prog.body, {})
                names = ["a", "b"] + (["c.y"] if prog.ports else [])
                for ln, pol in sorted(made.items()):
                    st = ifs.get(ln)
                    if st is None: continue
                    claims += 1
                    want = 1 if pol == "true" else 0
                    for n in (0, 1, 2, 3):
                        for _ in range(3):
                            env = {v: rng.randrange(P) for v in names}
                            if rng.random() < 0.4: env["a"] = rng.randrange(0, 6)
                            env["n"] = n
                            rec = {}
                            try:
                                run(prog.body, env, rec, [4000])
                            except Undefined:
                                pass     # what was recorded before the undefined operation still happened
                            seen = rec.get(("cond", id(st[1])), [])
                            if any(v != want for v in seen):
                                what = (f"line {ln}: `{text.splitlines()[ln - 1].strip()}` is reported as always {pol} (CS0009), but with n = {n}, a = {env['a']}, b = {env['b']} "
                                        f"the condition evaluates to {'false' if want else 'true'} (execution {seen.index(1 - want) + 1} of that line)")
                                break
                        if what: break
                    if what: break
            if len(samples) < 6 and evals % 11 == 1:
                samples.append({"case": name, "exit": rc, "claims": {str(k): v for k, v in made.items()}})
            if what and len(viol) < 20:
                ob = f"e2e|values-random|{name}" if not name.startswith("random:") else "e2e|values-random|random"
                viol.append({"unit": "e2e", "fn": "Cfg::propagate_values", "obligation": ob, "props": props,
                             "input": {"case": name, "program": text}, "what": f"{name}: {what} — program:\n{text}", "replay": f"python3 run/e2e.py values-random {tier} {seed}"})
    finally:
        shutil.rmtree(d, ignore_errors=True)
    return {"unit": "e2e-values-random", "evaluations": evals, "distinct_nontrivial": claims, "exhaustive": False,
            "rule": "the real CLI on generated templates; every CS0009 finding (`This condition is always true / false`) is judged by an independent concrete interpreter over the BN254 field: the program is executed for n = 0..3 with three signal valuations each (random field elements, and small values of the first input), and one execution in which the condition has the other truth value refutes the claim; non-trivial = CS0009 claims judged",
            "bound": f"{len(fixed_value_programs())} fixed shapes (folded constants, values merged at joins and loop headers, array slots, conditions on signals, operators on negative values, calls, ternaries) + {n_random} random templates of 5..12 statements in which variables are often initialised with constant expressions over 20 operators and conditions compare variables, array slots, signals and expressions with literals",
            "samples": samples, "violations": viol}


def suite(exe, tier, seed, run_cli):
    rng = random.Random(1000 + seed)
    n_random = 1500 if tier == "thorough" else 120
    viol, samples = [], []
    evals = claims = 0
    d = tempfile.mkdtemp(prefix="vx-e2e-")
    try:
        cases = fixed_programs() + [(f"random:{k}", gen_program(rng, rng.randrange(4, 12))) for k in range(n_random)]
        for (name, prog) in cases:
            text = prog.text()
            path = os.path.join(d, "d.circom"); open(path, "w").write(text)
            rc, out, err = run_cli(exe, ["-v", path], d)
            evals += 1
            what, props = None, ["C07"]
            if rc is None or "panicked" in err or rc not in (0, 1):
                first = next((l for l in err.split("\n") if "panicked" in l), err[:200])
                what, props = f"the tool aborted (exit {rc}): {first.strip()[:160]}", ["C01"]
            else:
                outs = prog.lines_of_outs()
                for ln in sorted(claims_of(out)):
                    st = outs.get(ln)
                    if st is None: continue
                    claims += 1
                    if name in NO_RANK_ONE:
                        what = (f"line {ln}: `{text.splitlines()[ln - 1].strip()}` is reported as quadratic and rewritable with `<==` (CS0013), but the assigned value is a sum of two products: "
                                f"it is not of the form A * B + C with A, B, C linear, and the compiler rejects it in a constraint (rhs {etext(st[4])})")
                        break
                    for n in (0, 1, 2, 3):
                        bad = third_difference_nonzero(prog, st[1], n, rng)
                        if bad:
                            rhs = etext(st[4])
                            what = (f"line {ln}: `{text.splitlines()[ln - 1].strip()}` is reported as quadratic (CS0013), but for n = {n} the assigned value is not a polynomial "
                                    f"of degree <= 2 in the signals: its third finite difference along a random line in signal space does not vanish (rhs {rhs})")
                            break
                    if what: break
            if len(samples) < 6 and evals % 9 == 1:
                samples.append({"case": name, "exit": rc, "claims": sorted(claims_of(out))})
            if what and len(viol) < 20:
                ob = f"e2e|degrees|{name}" if not name.startswith("random:") else "e2e|degrees|random"
                viol.append({"unit": "e2e", "fn": "Cfg::propagate_degrees", "obligation": ob, "props": props,
                             "input": {"case": name, "program": text}, "what": f"{name}: {what} — program:\n{text}", "replay": f"python3 run/e2e.py degrees {tier} {seed}"})
    finally:
        shutil.rmtree(d, ignore_errors=True)
    return {"unit": "e2e-degrees", "evaluations": evals, "distinct_nontrivial": claims, "exhaustive": False,
            "rule": "the real CLI on generated templates; every CS0013 finding (`the expression assigned with <-- is quadratic`) is judged by an independent semantic oracle: a concrete interpreter over the BN254 field evaluates the program at four points of a random line in signal space (component outputs are indeterminates of their own) for n = 0..3, and a non-vanishing third finite difference of the assigned value certifies that it is not a polynomial of degree <= 2; three fixed shapes of degree 2 that are sums of two products (not of the form A * B + C) must not be advertised either; non-trivial = CS0013 claims judged",
            "bound": f"{len(fixed_programs())} fixed shapes (operators, powers, accumulation in loops and branches, ternaries, calls, arrays, component ports, output arrays, implicit flows) + {n_random} random templates of 4..11 statements (variables, arrays of 3, loops bounded by 2, 3 or n, branches on n and loop counters, 20 operators, 3 functions); conditions that depend on signals occur only in the fixed shapes",
            "samples": samples, "violations": viol}
