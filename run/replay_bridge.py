"""bridge to tools/replay/* — cargo crates with PATH DEPENDENCIES ON /repo's crates: the bounded engine and witness replay
run the real compiled code. Built from /repo's current working tree on every run (cargo's own freshness check)."""
import json
import os
import shutil
import subprocess
import engine as E

VERIF = E.VERIF
UNIT_TOOL = {"field": "field", "strip": "parser", "valueops": "ps", "degree": "ps"}
# engine name -> (tool dir, argument prefix)
ENGINES = {"field": ("field", ["bounded"]), "parser": ("parser", ["bounded"]), "valueops": ("ps", ["bounded", "valueops"]), "degree": ("ps", ["bounded", "degree"]), "degree_expr": ("ps", ["bounded", "degree_expr"]), "dom": ("ps", ["bounded", "dom"]), "cfg": ("parser", ["bounded-cfg"]), "timebox": ("parser", ["bounded-timebox"]), "ssa": ("parser", ["bounded-ssa"]), "paths": ("parser", ["bounded-paths"]), "value_expr": ("ps", ["bounded", "value_expr"]), "e2e-tuples": ("py", ["tuples"]), "e2e-output": ("py", ["output"]), "e2e-values": ("py", ["values"]), "e2e-curves": ("py", ["curves"]), "e2e-includes": ("py", ["includes"]), "e2e-totality": ("py", ["totality"]), "e2e-positions": ("py", ["positions"]), "e2e-sigassign": ("py", ["sigassign"]), "e2e-scopes": ("py", ["scopes"]), "e2e-determinism": ("py", ["determinism"]), "e2e-failures": ("py", ["failures"]), "e2e-deadvalues": ("py", ["deadvalues"]), "e2e-degrees": ("py", ["degrees"]), "e2e-values-random": ("py", ["values-random"]), "e2e-timeboxreal": ("py", ["timeboxreal"])}
UNIT_ENGINE = {"field": "field", "strip": "parser", "valueops": "valueops", "degree": "degree", "dom": "dom"}           # unit -> tools/replay/<dir>
PROP_BOUNDED = {"C16": ["field"], "C01": ["field", "parser", "e2e-tuples", "e2e-values", "e2e-totality"], "C05": ["parser"], "C04": ["parser", "e2e-positions"], "C06": ["valueops", "value_expr", "e2e-values", "e2e-values-random", "timebox"], "C07": ["degree", "degree_expr", "timebox", "e2e-degrees"], "C15": ["dom"], "C12": ["cfg"], "C18": ["e2e-tuples", "e2e-totality"], "C03": ["e2e-output"], "C11": ["e2e-curves"], "C20": ["timebox", "e2e-timeboxreal"], "C19": ["e2e-includes"], "C08": ["e2e-sigassign"], "C10": ["e2e-scopes"], "C14": ["ssa", "e2e-scopes"], "C13": ["paths"], "C17": ["e2e-determinism"], "C02": ["e2e-failures"], "C09": ["e2e-deadvalues"]}


def _build(tool):
    src = os.path.join(VERIF, "tools", "replay", tool)
    tag = E.sha256(E.REPO)[:8]
    bdir = os.path.join(E.BUILD, "replay", f"{tool}-{tag}")
    os.makedirs(bdir, exist_ok=True)
    man = open(os.path.join(src, "Cargo.toml.in")).read().replace("@REPO@", E.REPO)
    mp = os.path.join(bdir, "Cargo.toml")
    if not os.path.exists(mp) or open(mp).read() != man:
        open(mp, "w").write(man)
    link = os.path.join(bdir, "src")
    if os.path.islink(link) or os.path.exists(link):
        if not (os.path.islink(link) and os.readlink(link) == os.path.join(src, "src")):
            if os.path.islink(link):
                os.unlink(link)
            else:
                shutil.rmtree(link)
    if not os.path.exists(link):
        os.symlink(os.path.join(src, "src"), link)
    if not os.path.exists(os.path.join(bdir, "Cargo.lock")):
        # start from /repo's lock file so that the same (offline-available) versions are selected
        shutil.copy(os.path.join(E.REPO, "Cargo.lock"), os.path.join(bdir, "Cargo.lock"))
    env = dict(os.environ, CARGO_NET_OFFLINE="true", CARGO_TARGET_DIR=os.path.join(E.BUILD, "target-replay"))
    p = subprocess.run(["cargo", "build", "--release", "--offline", "-q"], cwd=bdir, env=env, capture_output=True, text=True)
    if p.returncode != 0:
        raise RuntimeError("replay tool does not build against /repo: " + p.stderr[-1500:])
    return os.path.join(E.BUILD, "target-replay", "release", f"replay_{tool}")


def _limits():
    import resource
    resource.setrlimit(resource.RLIMIT_AS, (6 << 30, 6 << 30))   # a runaway computation dies instead of eating the machine


def _run(tool, args, timeout=900):
    if tool == "py":
        import sys
        env = dict(os.environ, VERIF_REPO=E.REPO)
        return subprocess.run([sys.executable, os.path.join(VERIF, "run", "e2e.py")] + [str(a) for a in args], capture_output=True, text=True, timeout=timeout, env=env)
    exe = _build(tool)
    p = subprocess.run([exe] + [str(a) for a in args], capture_output=True, text=True, timeout=timeout, preexec_fn=_limits)
    return p


def bounded(prop, unit_names, tier, seed):
    engines = list(PROP_BOUNDED.get(prop, []))
    if not engines:
        return None
    out = {"label": "bounded (never counted as proved)", "engines": [], "violations": [], "evaluations": 0, "distinct_nontrivial": 0}
    for eng in engines:
        t, prefix = ENGINES[eng]
        try:
            p = _run(t, prefix + [tier, seed], timeout=(7200 if tier == "thorough" else 900))
        except subprocess.TimeoutExpired:
            out["engines"].append({"tool": eng, "error": "bounded engine timed out"})
            continue
        try:
            j = json.loads(p.stdout)
        except Exception:
            out["engines"].append({"tool": eng, "error": (p.stderr or p.stdout)[-800:]})
            continue
        out["violations"] += j.get("violations", [])
        out["evaluations"] += j.get("evaluations", 0)
        out["distinct_nontrivial"] += j.get("distinct_nontrivial", 0)
        j.pop("violations", None)
        out["engines"].append(dict(j, tool=eng))
        # stub validation: the trusted BigInt contracts against the real crate
        if eng == "field":
            n = 200000 if tier == "thorough" else 2000
            q = _run(t, ["stubcheck", n, seed])
            try:
                sj = json.loads(q.stdout)
            except Exception:
                sj = {"error": (q.stderr or q.stdout)[-800:]}
            out["stubcheck"] = sj
            if sj.get("mismatches"):
                raise E.Undecided("stub-contract-mismatch", json.dumps(sj["mismatches"]))
            # resource probe: a shift by 10^11 must return at once (C16: no astronomically large computation)
            for f in ("shift_l", "shift_r"):
                for (k, pn) in (("100000000000", "bn254"), ("9223372034707292159", "goldilocks"), ("4194304", "bls12_381")):
                    try:
                        r = _run(t, ["one", f, "1", k, pn], timeout=20)
                        ok = r.returncode == 0
                    except subprocess.TimeoutExpired:
                        ok = False
                    out.setdefault("resource_probe", []).append({"call": f"{f}(1, {k}, {pn})", "returned_within_20s": ok})
                    if not ok:
                        out["violations"].append({"unit": "field", "fn": f, "obligation": f"field|{f}|safety|0",
                                                  "input": {"a": "1", "b": k, "p": pn},
                                                  "what": f"{f}(1, {k}, {pn}) does not return within 20 s / 6 GB (it computes 2^{k})",
                                                  "replay": f"timeout 20 replay_field one {f} 1 {k} {pn}"})
    return out


def find_witness(unit_name, failed_obs, tier):
    eng = UNIT_ENGINE.get(unit_name)
    if not eng:
        return None
    t, prefix = ENGINES[eng]
    p = _run(t, prefix + ["thorough" if tier == "thorough" else "quick", 0])
    j = json.loads(p.stdout)
    fns = {o.get("fn") for o in failed_obs}
    for v in j.get("violations", []):
        if v.get("fn") in fns:
            return {"witness": v, "search": j.get("bound")}
    if j.get("violations"):
        return {"witness": j["violations"][0], "search": j.get("bound")}
    return {"witness": None, "search": "exhausted without a failing input: " + j.get("bound", "")}


def replay_witness(w):
    t = UNIT_TOOL.get(w.get("unit"))
    if not t or "replay" not in w:
        return False
    parts = w["replay"].split()
    if parts[0] == "timeout":
        try:
            r = _run(t, parts[3:], timeout=int(parts[1]))
            return r.returncode != 0
        except subprocess.TimeoutExpired:
            return True
    r = _run(t, parts[1:])
    print("   ", r.stdout.strip())
    return r.returncode == 1
