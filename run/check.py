#!/usr/bin/env python3
"""./check <Cxx> [--tier quick|thorough] [--replay FILE] [--update-baseline] [--update-ledger]

Decides one property by contract-based deductive verification (Verus) of the functions of /repo it depends on.
Exit 0: every obligation of the property discharged (known findings listed).  Exit 1: VIOLATION line printed.
Exit 2: undecided (lost anchor, unsupported construct, tool failure, unstable proof) — never an alarm.
"""
import argparse
import concurrent.futures as cf
import glob
import json
import os
import re
import subprocess
import sys
import time

sys.path.insert(0, os.path.dirname(os.path.abspath(__file__)))
import engine as E

VERIF = E.VERIF
TRUST_PATTERNS = [
    ("external_body", re.compile(r"#\[verifier::external_body\]\s*(?:pub\s+)?(?:(?:open|closed|uninterp)\s+)?(?:proof\s+|spec\s+|exec\s+)?(fn|struct|enum|type)\s+(\w+)")),
    ("assume_specification", re.compile(r"assume_specification\s*(?:<[^\[]*>)?\s*\[\s*([^\]]+?)\s*\]")),
    ("external_type_specification", re.compile(r"#\[verifier::external_type_specification\][^;{]*?struct\s+(\w+)")),
    ("external_trait_specification", re.compile(r"#\[verifier::external_trait_specification\][^;{]*?trait\s+(\w+)")),
    ("external", re.compile(r"#\[verifier::external\]\s*(?:pub\s+)?(?:fn|impl|struct|enum)\s+(\w+)")),
    ("uninterp", re.compile(r"\buninterp\s+spec\s+fn\s+(\w+)")),
    ("assume", re.compile(r"\bassume\s*\(")),
    ("admit", re.compile(r"\badmit\s*\(")),
    ("axiom", re.compile(r"(?:broadcast\s+)?(?:proof\s+)?fn\s+(axiom_\w+)")),
    ("no_decreases", re.compile(r"exec_allows_no_decreases_clause")),
    ("accept_recursive_types", re.compile(r"accept_recursive_types")),
]


def all_units():
    out = []
    for p in sorted(glob.glob(os.path.join(VERIF, "units", "*", "unit.toml"))):
        u = E.load_unit(os.path.basename(os.path.dirname(p)))
        if u.get("enabled", True):
            out.append(u)
    return out


def units_for(prop):
    return [u for u in all_units() if prop in u.get("properties", [])]


def scan_trusted(unit, gen_text):
    """mechanical scan of the generated file for every trusted construct (DESIGN §3)"""
    items = []
    # drop comments so that prose does not count
    code = re.sub(r"//[^\n]*", "", gen_text)
    for kind, rx in TRUST_PATTERNS:
        for m in rx.finditer(code):
            name = m.group(m.lastindex) if m.lastindex else ""
            name = re.sub(r"\s+", "", name)
            items.append(f"{kind}:{name}" if name else kind)
    # count duplicates (e.g. several `assume(` would show as assume x3)
    out = {}
    for i in items:
        out[i] = out.get(i, 0) + 1
    return sorted(f"{k}" + (f" x{v}" if v > 1 else "") for k, v in out.items())


def ledger_path(unit):
    return os.path.join(unit["dir"], "trusted.txt")


def read_ledger(unit):
    p = ledger_path(unit)
    if not os.path.exists(p):
        return None
    return [l.strip() for l in open(p) if l.strip() and not l.startswith("#")]


def forbidden_in_ghost(unit):
    """assume/admit are allowed only in prelude.rs library axioms (DESIGN §3)."""
    bad = []
    for fn in unit.get("spec", ["spec.rs"]) + ["contracts.vc"]:
        p = os.path.normpath(os.path.join(unit["dir"], fn))
        if not os.path.exists(p):
            continue
        for ln, l in enumerate(open(p), 1):
            code = l.split("//")[0]
            if code.lstrip().startswith("#"):
                continue
            if re.search(r"\b(assume|admit)\s*\(", code) or "external_body" in code:
                bad.append(f"{os.path.relpath(p, VERIF)}:{ln}: {l.strip()}")
    return bad


def verus_fn_name(q):
    # "Degree.Ord::cmp" -> "Degree::cmp"
    if "." in q.split("::")[0]:
        owner = q.split(".")[0]
        return owner + "::" + q.split("::")[-1]
    return q


def enumerate_obligations(unit, ex, contracts):
    """(function, clause) pairs, measured from the contract table; plus one safety/termination obligation per function"""
    obs = []
    default_tags = unit.get("properties", [])
    for it in ex["items"]:
        for f in it["fns"]:
            if not f["has_body"]:
                continue
            q = f["name"]
            c = contracts.get(q)
            if c is None:
                continue  # extracted but not under contract (verified for safety only, not counted)
            tags = c.tags or default_tags
            obs.append({"id": f"{unit['name']}|{q}|safety|0", "fn": q, "kind": "safety", "idx": 0, "props": tags,
                        "text": "body: every callee precondition holds (no panic, no overflow, no out-of-bounds), ghost assertions hold, termination measures decrease",
                        "src": f"{it['file']}:{f['line']}"})
            n = 0
            for cl in E.clauses_of(c.header):
                if cl["kind"] in ("ensures", "returns"):
                    obs.append({"id": f"{unit['name']}|{q}|ensures|{n}", "fn": q, "kind": "ensures", "idx": n, "props": cl["tags"] or tags,
                                "text": E.TAG_RE.sub("", cl["text"]).strip(), "vc_lines": cl["lines"], "src": f"{it['file']}:{f['line']}"})
                    n += 1
            for li, spec in sorted(c.loops.items()):
                k = 0
                for cl in E.clauses_of(spec["lines"]):
                    if cl["kind"] in ("invariant", "invariant_except_break", "ensures"):
                        obs.append({"id": f"{unit['name']}|{q}|loop{li}|{k}", "fn": q, "kind": f"loop{li}", "idx": k, "props": cl["tags"] or tags,
                                    "text": E.TAG_RE.sub("", cl["text"]).strip(), "vc_lines": cl["lines"], "src": f"{it['file']}:{f['line']}"})
                        k += 1
    for lm in unit.get("lemmas", []):
        obs.append({"id": f"{unit['name']}|{lm['name']}|lemma|0", "fn": lm["name"], "kind": "lemma", "idx": 0, "props": lm.get("props", default_tags),
                    "text": lm.get("text", "specification-level lemma (no /repo code)"), "src": f"units/{unit['name']}/spec.rs"})
    return obs


def split_arms(text, fns):
    """(main_text, [variant texts]) — see run_unit. Arms are the lines `<pattern> => {` directly inside the first
    `match self {` of each listed function."""
    lines = text.split("\n")
    arm_lines = []
    fn_re = re.compile(r"^\s*(pub(\([a-z]+\))?\s+)?(proof\s+|spec\s+|open\s+spec\s+|closed\s+spec\s+)?fn\s+")
    for q in fns:
        short = q.split("::")[-1]
        starts = [i for i, l in enumerate(lines) if re.search(r"^\s*(pub(\([a-z]+\))?\s+)?fn\s+" + re.escape(short) + r"\s*[(<]", l) and not l.rstrip().endswith(";") and "proof fn" not in l]
        if not starts:
            raise E.Undecided("lost-anchor", f"split_arms: function {q} not found")
        found = []
        # several functions may share the short name (a trait declaration, other impls): take the first whose own text
        # holds a `match <ident> {` with block arms
        for start in starts:
            stop = next((i for i in range(start + 1, len(lines)) if fn_re.match(lines[i])), len(lines))
            mi = next((i for i in range(start, stop) if re.match(r"^\s*match \w+ \{$", lines[i])), None)
            if mi is None:
                continue
            ind = len(lines[mi]) - len(lines[mi].lstrip()) + 4
            depth = 0
            for i in range(mi, len(lines)):
                l = lines[i]
                if i > mi and depth == 1 and len(l) - len(l.lstrip()) == ind and l.rstrip().endswith("=> {") and not l.lstrip().startswith("//"):
                    found.append(i)
                depth += l.count("{") - l.count("}")
                if i > mi and depth <= 0:
                    break
            if found:
                break
        arm_lines += found
    if not arm_lines:
        raise E.Undecided("lost-anchor", "split_arms: no block arms found")
    cut = " proof { assume(false); } // case split: this arm is verified in another run"
    main = list(lines)
    for i in arm_lines:
        main[i] = main[i] + cut
    variants = []
    for k in arm_lines:
        v = list(lines)
        for i in arm_lines:
            if i != k:
                v[i] = v[i] + cut
        variants.append("\n".join(v))
    return "\n".join(main), variants


def run_unit(name, tier="quick", rlimit=None, smt_seed=None):
    """extract, splice, verify one unit; returns a result dict (status ok|undecided)"""
    t0 = time.time()
    res = {"unit": name, "status": "ok", "reason": "", "detail": "", "obligations": [], "failed": [], "canary_ok": True,
           "trusted": [], "rewrite_log": [], "sources": [], "fns": {}, "verus_cmd": "", "wall": 0.0, "smt_ms": 0, "n_verified": 0}
    try:
        unit = E.load_unit(name)
        bad = forbidden_in_ghost(unit)
        if bad:
            raise E.Undecided("assume-in-ghost-text", "\n".join(bad))
        ex = E.extract(unit)
        E.SHAPE.pop(name, None)
        text, contracts, order = E.assemble(unit, ex)
        res["shape"] = dict(E.SHAPE.get(name, {}))
        os.makedirs(E.BUILD, exist_ok=True)
        gen = os.path.join(E.BUILD, f"{name}.rs")
        with open(gen, "w") as f:
            f.write(text)
        with open(os.path.join(E.BUILD, f"{name}.orig.rs"), "w") as f:
            f.write("\n".join(it["orig"] for it in ex["items"]))
        with open(os.path.join(E.BUILD, f"{name}.extracted.rs"), "w") as f:
            f.write("\n".join(it["extracted"] for it in ex["items"]))
        res["items_sha"] = E.sha256("\n".join(it["orig"] for it in ex["items"]))
        res["gen_sha"] = E.sha256(text)
        res["rewrite_log"] = ex["log"]
        files = sorted({it["file"] for it in ex["items"]})
        res["sources"] = [{"file": fn, "sha256": E.sha256(open(fn, "rb").read())} for fn in files]
        # fidelity: every differing line between orig and extracted must be explained by a logged rule application
        import difflib
        hunks = 0
        for it in ex["items"]:
            sm = difflib.SequenceMatcher(None, it["orig"].split("\n"), it["extracted"].split("\n"), autojunk=False)
            hunks += sum(1 for op in sm.get_opcodes() if op[0] != "equal")
        res["fidelity"] = {"diff_hunks": hunks, "rule_applications": len(ex["log"])}
        if hunks > len(ex["log"]):
            raise E.Undecided("fidelity-diff-unexplained", f"{hunks} differing hunks but only {len(ex['log'])} logged rule applications")
        res["trusted"] = scan_trusted(unit, text)
        led = read_ledger(unit)
        res["ledger_ok"] = (led is not None and led == res["trusted"])
        res["ledger"] = led
        obs = enumerate_obligations(unit, ex, contracts)
        for o in obs:
            o["status"] = "undecided"
        res["obligations"] = obs
        res["functions_under_contract"] = sorted({o["fn"] for o in obs})
        extra = []
        if smt_seed is not None:
            extra += ["--smt-option", f"smt.random_seed={smt_seed}"]
        split_runs = []
        if unit.get("split_arms"):
            # proof by cases over the top-level `match self` arms of very large functions: the main file has every
            # block-arm of the function cut off (`assume(false)`), variant k re-enables arm k only; together they cover
            # the function. The instrumentation is ghost-only and mechanical; line numbers are unchanged.
            main_text, variants = split_arms(text, unit["split_arms"])
            with open(gen, "w") as f:
                f.write(main_text)
            vpaths = []
            for k, vt in enumerate(variants):
                vp = os.path.join(E.BUILD, f"{name}_arm{k}.rs")
                with open(vp, "w") as f:
                    f.write(vt)
                vpaths.append(vp)
            # verus takes one --verify-function pattern: functions sharing a short name share it; with several distinct
            # names every variant verifies the whole file (slower, same verdicts)
            pats = sorted({"*" + q.split("::")[-1] + "*" for q in unit["split_arms"]})
            vf = ["--verify-root", "--verify-function", pats[0]] if len(pats) == 1 else []
            with cf.ThreadPoolExecutor(max_workers=8) as ex2:
                split_runs = list(ex2.map(lambda vp: E.run_verus(vp, rlimit=rlimit or unit.get("rlimit"), extra=(extra or []) + vf), vpaths))
            res["split_variants"] = len(variants)
        vr = E.run_verus(gen, rlimit=rlimit or unit.get("rlimit"), extra=extra or None)
        if split_runs:
            # merge: diagnostics and per-function verdicts of the variants count for the split functions
            short = {q.split("::")[-1] for q in unit["split_arms"]}
            for sr in split_runs:
                svj = sr["json"]["verification-results"]
                reported = {fb["function"].split("::")[-1] for fb_mod in sr["json"].get("times-ms", {}).get("smt", {}).get("smt-run-module-times", [])
                            for fb in fb_mod.get("function-breakdown", [])}
                if svj.get("encountered-vir-error") or "verified" not in svj or not (short <= reported):
                    # a case-split run that did not actually verify the function is never counted as success
                    vr["json"]["verification-results"]["encountered-vir-error"] = True
                    vr["diags"] += sr["diags"] or [{"level": "error", "message": "case-split run did not report the split function", "rendered": sr["stderr"][-1500:], "spans": []}]
                    continue
                for fb_mod in sr["json"].get("times-ms", {}).get("smt", {}).get("smt-run-module-times", []):
                    for fb in fb_mod.get("function-breakdown", []):
                        if fb["function"].split("::")[-1] in short:
                            vr["json"]["times-ms"]["smt"]["smt-run-module-times"][0]["function-breakdown"].append(fb)
                vr["diags"] += [d for d in sr["diags"] if d.get("level") == "error" and "aborting due to" not in d.get("message", "")]
                vr["json"]["times-ms"]["smt"]["total"] = vr["json"]["times-ms"]["smt"].get("total", 0) + sr["json"].get("times-ms", {}).get("smt", {}).get("total", 0)
        res["verus_cmd"] = vr["cmd"] + (f"  (+ {len(split_runs)} case-split runs with --verify-function)" if split_runs else "")
        vj = vr["json"]["verification-results"]
        res["n_verified"] = vj.get("verified", 0)
        res["n_errors"] = vj.get("errors", 0)
        res["smt_ms"] = vr["json"].get("times-ms", {}).get("smt", {}).get("total", 0)
        res["verus_total_ms"] = vr["json"].get("times-ms", {}).get("total", 0)
        errs = [d for d in vr["diags"] if d.get("level") == "error" and "aborting due to" not in d.get("message", "")]
        if vj.get("encountered-vir-error") or (vj.get("encountered-error") and "verified" not in vj):
            # the extracted code uses something Verus rejects, or a type error: undecided, never an alarm
            raise E.Undecided("verus-rejected-input", "\n".join(E.render_diag(d) for d in errs)[:6000])
        fr = E.function_results(vr)
        res["fns"] = fr
        if any("rlimit" in d.get("message", "").lower() or "resource limit" in d.get("message", "").lower() for d in vr["diags"]):
            res["rlimit_hit"] = True
        regions = E.line_map(text)
        franges = E.fn_ranges(text, ex)
        # ---- attribute diagnostics
        by_fn_diags = {}
        unmapped = []
        for d in errs:
            lines = [(sp["line_start"], sp.get("label") or "", sp.get("is_primary")) for sp in d.get("spans", []) if re.search(r"(^|/)" + re.escape(name) + r"(_arm\d+)?\.rs$", sp["file_name"])]
            hit_fn = None
            clause = None
            is_canary = False
            for (ln, label, prim) in lines:
                for (a, b, ident) in regions:
                    if a <= ln <= b and ident.count("|") == 3:
                        u_, q, kind, idx = ident.split("|")
                        if kind == "canary":
                            is_canary = True
                            continue
                        hit_fn = q
                        if kind in ("header", "loop") :
                            clause = (q, kind, int(idx), ln - a - 1)
                if hit_fn is None:
                    for q, (a, b) in franges.items():
                        if a <= ln <= b:
                            hit_fn = q
            if is_canary and clause is None:
                continue  # the expected failure of a vacuity canary
            if hit_fn is None:
                unmapped.append(d)
            else:
                by_fn_diags.setdefault(hit_fn, []).append((d, clause))
        # ---- canaries must fail
        can_names = {"__vx_canary_" + q.split("::")[-1]: q for q in unit.get("_canaries", [])}
        for vn, rec in fr.items():
            short = vn.split("::")[-1]
            if short.startswith("__vx_canary_") and rec["success"]:
                res["canary_ok"] = False
                res["detail"] += f"canary {vn} verified: the precondition of {can_names.get(short, '?')} (or the prelude) is contradictory\n"
        res["canaries"] = len(can_names)
        seen_can = {vn.split("::")[-1] for vn in fr if vn.split("::")[-1].startswith("__vx_canary_")}
        if len(seen_can) < len(set(can_names)):
            res["canary_ok"] = False
            res["detail"] += f"only {len(seen_can)} of {len(set(can_names))} canaries were checked by verus\n"
        # ---- per-obligation verdicts
        failed_fns = {vn for vn, rec in fr.items() if not rec["success"] and not vn.split("::")[-1].startswith("__vx_canary_")}
        fn_by_vname = {}
        for o in obs:
            fn_by_vname.setdefault(verus_fn_name(o["fn"]), o["fn"])
        header_lines = {}
        for q, c in contracts.items():
            header_lines[q] = c
        for o in obs:
            o["status"] = "discharged"
        spec_fail = []
        lemma_names = {lm["name"] for lm in unit.get("lemmas", [])}
        for vn in sorted(failed_fns):
            q = fn_by_vname.get(vn)
            if q is None:
                # a failure outside functions under contract: a lemma or spec in spec.rs, or an uncontracted extracted fn
                spec_fail.append(vn)
                continue
            my = [o for o in obs if o["fn"] == q]
            ds = by_fn_diags.get(q, [])
            marked = False
            for (d, clause) in ds:
                msg = d.get("message", "")
                tgt = None
                if clause is not None:
                    _, kind, idx, off = clause
                    c = contracts[q]
                    lines = c.header if kind == "header" else c.loops[idx]["lines"]
                    if 0 <= off < len(lines):
                        vc_ln = lines[off][1]
                        for o in my:
                            if vc_ln in o.get("vc_lines", []):
                                tgt = o
                if tgt is None:
                    tgt = my[0]  # safety obligation
                tgt["status"] = "failed"
                tgt.setdefault("messages", []).append(E.render_diag(d))
                marked = True
            if not marked:
                my[0]["status"] = "failed"
                my[0].setdefault("messages", []).append("verus reports this function as failed (no diagnostic could be attributed)")
        res["spec_failures"] = spec_fail
        # a diagnostic attributed to a function which verus does not list as failed (e.g. recommends) is ignored
        res["failed"] = [o for o in obs if o["status"] == "failed"]
        res["unmapped_diags"] = [E.render_diag(d) for d in unmapped][:5]
        # a function under contract must actually have been verified by verus (vacuity guard (a))
        res["functions_under_contract"] = sorted({o["fn"] for o in obs if o["kind"] != "lemma"})
        missing = [q for q in res["functions_under_contract"] if verus_fn_name(q) not in fr]
        missing += [lm for lm in lemma_names if lm not in fr]
        if missing:
            raise E.Undecided("function-not-verified", "verus did not report: " + ", ".join(missing))
        if spec_fail:
            raise E.Undecided("spec-lemma-failed", "failed outside the functions under contract: " + ", ".join(spec_fail) + "\n" +
                              "\n".join(E.render_diag(d) for d in unmapped)[:4000])
        if not res["canary_ok"]:
            raise E.Undecided("vacuity-guard", res["detail"])
        if res.get("rlimit_hit") and res["failed"]:
            # resource-limit failures are tool limits, not refutations
            rl = [o for o in res["failed"] if any("rlimit" in m.lower() or "resource limit" in m.lower() for m in o.get("messages", []))]
            if rl:
                raise E.Undecided("rlimit", "; ".join(o["id"] for o in rl))
    except E.Undecided as e:
        res["status"] = "undecided"
        res["reason"] = e.reason
        res["detail"] = (res.get("detail") or "") + (e.detail or "")
    res["wall"] = time.time() - t0
    return res


# ------------------------------------------------------------------------------------------------
# baseline and known findings

def baseline_path():
    return os.path.join(VERIF, "baseline_obligations.json")


def load_baseline():
    p = baseline_path()
    return json.load(open(p)) if os.path.exists(p) else {}


def load_known():
    p = os.path.join(VERIF, "known_findings.txt")
    out = []
    if os.path.exists(p):
        for l in open(p):
            l = l.strip()
            m = re.match(r"finding:\s+property=(\S+)\s+obligation=(\S+)\s+(.*)$", l)
            if m:
                out.append({"property": m.group(1), "obligation": m.group(2), "what": m.group(3)})
    return out


def write_json(path, obj):
    os.makedirs(os.path.dirname(path), exist_ok=True)
    tmp = path + ".tmp"
    with open(tmp, "w") as f:
        json.dump(obj, f, indent=1)
    os.replace(tmp, path)


def load_props():
    import tomllib
    with open(os.path.join(VERIF, "units", "PROPS.toml"), "rb") as f:
        return tomllib.load(f)


def select_obligations(prop, results):
    out = []
    for r in results:
        for o in r["obligations"]:
            if prop not in o["props"]:
                continue
            if prop == "C01" and o["kind"] != "safety":
                continue
            out.append((r, o))
    return out


def find_witness(unit_name, failed_obs, tier):
    """bounded search on the real compiled code for an input violating the executable contract mirror (tools/replay)"""
    try:
        import replay_bridge
    except Exception:
        return None
    try:
        return replay_bridge.find_witness(unit_name, failed_obs, tier)
    except Exception as e:  # the witness search is best effort; its absence never hides a violation
        return {"error": str(e)}


def decide(prop, tier, seed, args):
    t0 = time.time()
    props = load_props()
    pinfo = props.get(prop, {})
    units = units_for(prop)
    bounded_only = bool(pinfo.get("bounded_only"))
    if not units and not bounded_only:
        print(f"UNDECIDED property={prop} reason=no-unit-serves-this-property")
        return E.EXIT_UNDECIDED
    E.ensure_tools()
    with cf.ThreadPoolExecutor(max_workers=max(1, min(4, len(units)))) as ex:
        results = list(ex.map(lambda u: run_unit(u["name"], tier), units))
    stability = []
    if tier == "thorough":
        # re-run with a different SMT seed and half the resource limit to expose unstable proofs
        for r in list(results):
            if r["status"] != "ok":
                continue
            r2 = run_unit(r["unit"], tier, rlimit=5, smt_seed=(seed % 1000) + 17)
            bad1 = {o["id"] for o in r["failed"]}
            bad2 = {o["id"] for o in r2["failed"]} if r2["status"] == "ok" else {"<undecided:" + r2["reason"] + ">"}
            stability.append({"unit": r["unit"], "agrees": bad1 == bad2, "second_run_failed": sorted(bad2), "smt_seed": (seed % 1000) + 17, "rlimit": 5})
    sel = select_obligations(prop, results)
    baseline = load_baseline()
    known = [k for k in load_known() if k["property"] == prop]
    # failures inside a unit that is undecided as a whole (resource limit, lost anchor, ..) are not refutations
    failed = [(r, o) for (r, o) in sel if o["status"] == "failed" and r["status"] == "ok"]
    violations, knowns, unstable = [], [], []
    for (r, o) in failed:
        k = next((k for k in known if k["obligation"] == o["id"]), None)
        if k:
            knowns.append((r, o, k))
            continue
        b = baseline.get(r["unit"], {})
        sh_now, sh_base = r.get("shape", {}).get(o.get("fn"), {}), b.get("shape", {}).get(o.get("fn"))
        gained = [k for k in ("closures", "bare_loops") if sh_base is not None and sh_now.get(k, 0) > sh_base.get(k, 0)]
        if gained:
            # the verifier assumes nothing about the result of a closure without a specification or about the state after a
            # loop without an invariant: a postcondition that fails behind one is undecided, not refuted
            unstable.append((r, o, f"the function gained {' and '.join('a closure without a specification' if k == 'closures' else 'a loop without an invariant' for k in gained)} "
                                   "since the baseline: the verifier assumes nothing about it, so the failed obligation is not a refutation"))
        elif o["id"] not in b.get("discharged", []):
            unstable.append((r, o, "obligation was never discharged on the unchanged tree (not in baseline)"))
        elif b.get("gen_sha") == r.get("gen_sha"):
            unstable.append((r, o, "generated verifier input is byte-identical to the baseline run that discharged it: solver instability"))
        else:
            violations.append((r, o))
    undecided_units = [r for r in results if r["status"] != "ok"]
    ledger_bad = [r for r in results if r["status"] == "ok" and not r.get("ledger_ok")]
    # ---- bounded engine (thorough tier, or witness search after a failure)
    bounded = None
    witness = None
    if violations:
        by_unit = {}
        for (r, o) in violations:
            by_unit.setdefault(r["unit"], []).append(o)
        for un, obs in by_unit.items():
            w = find_witness(un, obs, tier)
            if w and w.get("witness"):
                witness = w
                break
            if w and not witness:
                witness = w
    try:
        import replay_bridge
        bounded = replay_bridge.bounded(prop, [u["name"] for u in units], tier, seed)
    except ImportError:
        bounded = None
    except Exception as e:
        bounded = {"error": str(e)}
    if bounded and bounded.get("violations"):
        # a concrete input on which the real compiled code violates the executable contract: a violation whatever verus digested
        all_obs = {o["id"]: o for r in results for o in r["obligations"]}
        for v in bounded["violations"]:
            if v.get("props") and prop not in v["props"]:
                continue  # an end-to-end failure that belongs to another property's clause
            ob = all_obs.get(v.get("obligation"))
            if ob is not None:
                if prop not in ob["props"] or (prop == "C01" and ob["kind"] != "safety"):
                    continue  # this concrete failure belongs to a clause of another property
            k = next((k for k in known if k["obligation"] == v.get("obligation")), None)
            if k:
                if not any(kk is k for (_, _, kk) in knowns):
                    knowns.append((None, {"id": v.get("obligation"), "text": v.get("what", "")}, k))
            else:
                witness = witness if (witness and witness.get("witness")) else {"witness": v}
                if not violations:
                    violations.append(({"unit": v.get("unit", "?"), "gen_sha": ""}, {"id": v.get("obligation", "bounded"), "fn": v.get("fn", ""), "kind": "bounded", "text": v.get("what", ""), "messages": [json.dumps(v)]}))

    # ---- evidence
    n_ob = len(sel)
    n_dis = sum(1 for (_, o) in sel if o["status"] == "discharged")
    trusted = sorted({f"{r['unit']}: {t}" for r in results for t in r.get("trusted", [])})
    samples = []
    for (r, o) in sel[:0] + [x for x in sel if x[1]["kind"] != "safety"][:6] + [x for x in sel if x[1]["kind"] == "safety"][:2]:
        vn = verus_fn_name(o["fn"])
        fr = r.get("fns", {}).get(vn, {})
        samples.append({"obligation": o["id"], "clause": o["text"][:300], "function": o["fn"], "source": o.get("src"), "status": o["status"],
                        "smt_time_us": fr.get("time_us"), "rlimit": fr.get("rlimit")})
    fns = []
    for r in results:
        for q in r.get("functions_under_contract", []):
            if any(o["fn"] == q and (prop in o["props"]) for o in r["obligations"]):
                vn = verus_fn_name(q)
                fr = r.get("fns", {}).get(vn, {})
                src = next((o.get("src") for o in r["obligations"] if o["fn"] == q), None)
                fns.append({"unit": r["unit"], "function": q, "source": src, "verified": fr.get("success"), "smt_time_us": fr.get("time_us"), "rlimit": fr.get("rlimit")})
    ev = {
        "property_id": prop, "tier": tier, "seed": seed, "level": "proof",
        "coverage": {
            "obligations": n_ob, "discharged": n_dis,
            "checker_cmd": " ; ".join(r["verus_cmd"] for r in results if r.get("verus_cmd")) or "verus (not reached)",
            "back_end": "Verus 0.2026.09.13 (Z3 via AIR), single-file mode, one generated file per unit",
            "trusted_base": trusted,
            "samples": samples,
            "functions_under_contract": fns,
            "units": [{"unit": r["unit"], "status": r["status"], "reason": r["reason"], "verus_verified_items": r.get("n_verified"), "verus_errors": r.get("n_errors"),
                       "smt_ms": r.get("smt_ms"), "verus_total_ms": r.get("verus_total_ms"), "wall_s": round(r["wall"], 2), "canaries_must_fail": r.get("canaries"),
                       "canary_ok": r.get("canary_ok"), "ledger_ok": r.get("ledger_ok"), "fidelity": r.get("fidelity"),
                       "sources": r.get("sources"), "rewrite_log": r.get("rewrite_log"), "generated_file_sha256": r.get("gen_sha")} for r in results],
            "smt_ms_total": sum(r.get("smt_ms", 0) for r in results),
            "failed_obligations": [{"id": o["id"], "clause": o["text"][:300]} for (_, o) in failed],
            "known_findings_reported": [k["obligation"] for (_, _, k) in knowns],
            "stability_rerun": stability,
            "explanation": pinfo.get("explanation", ""),
        },
        "assumptions": pinfo.get("assumptions", []) + [f"NOT COVERED: {x}" for x in pinfo.get("not_covered", [])],
        "wall_s": 0.0,
        "violations": len(violations),
    }
    if bounded is not None:
        ev["coverage"]["bounded"] = bounded
    # the level recorded here is the category claimed in MANIFEST.json (units/PROPS.toml); `other` = a proved layer plus
    # bounded engines that carry most of the property: say so in coverage.explanation, with this run's own numbers
    ev["level"] = pinfo.get("category", "proof")
    if not ev["coverage"]["explanation"]:
        engs = (bounded or {}).get("engines", []) if isinstance(bounded, dict) else []
        ev["coverage"]["explanation"] = (
            f"{n_dis} of {n_ob} obligations discharged deductively (Verus) for the layer stated in MANIFEST.level_claimed.text, over "
            f"{len(fns)} functions of /repo under contract; "
            + ("the rest of the property is explored by bounded engines that are never counted as proved: "
               + "; ".join(f"{e.get('unit')} ({e.get('evaluations')} evaluations, {e.get('distinct_nontrivial')} non-trivial)" for e in engs)
               if engs else "no bounded engine is attached to this property")
            + ". What no contract reaches is listed under assumptions (NOT COVERED)."
        )
    if bounded_only:
        ev["level"] = "exploration"
        eng = (bounded or {}).get("engines", [{}])
        ev["coverage"].update({
            "evaluations": (bounded or {}).get("evaluations", 0),
            "distinct_nontrivial": (bounded or {}).get("distinct_nontrivial", 0),
            "rule": "; ".join(e.get("rule", "") for e in eng),
            "exhaustive": all(e.get("exhaustive", False) for e in eng) if eng else False,
            "bound": "; ".join(e.get("bound", "") for e in eng),
            "samples": [x for e in eng for x in e.get("samples", [])][:8] or ["(none)"],
            "explanation": "BOUNDED stand-in only: no obligation of this property is discharged deductively; obligations/discharged are 0 by construction",
        })
        for k in ("obligations", "discharged", "checker_cmd"):
            ev["coverage"].pop(k, None)
    ev["wall_s"] = round(time.time() - t0, 2)
    if not os.environ.get("VERIF_NO_EVIDENCE"):
        write_json(os.path.join(VERIF, "evidence", f"{prop}.json"), ev)

    # ---- verdict
    for (r, o, k) in knowns:
        print(f"KNOWN-FINDING: property={prop} obligation={o['id']} {k['what']}")
    if violations:
        rdir = os.path.join(VERIF, "replays") if not os.environ.get("VERIF_NO_EVIDENCE") else os.path.join(E.BUILD, "selftest-replays")
        os.makedirs(rdir, exist_ok=True)
        rid = E.sha256("".join(o["id"] for (_, o) in violations) + "".join(r.get("gen_sha", "") for (r, _) in violations))[:12]
        rp = os.path.join(rdir, f"{prop}-{rid}.json")
        has_w = bool(witness and witness.get("witness"))
        write_json(rp, {
            "property": prop,
            "failed_obligations": [{"id": o["id"], "function": o.get("fn"), "kind": o["kind"], "clause": o["text"], "source": o.get("src"),
                                    "unit": r["unit"], "verifier_output": o.get("messages", [])} for (r, o) in violations],
            "witness": witness.get("witness") if has_w else None,
            "witness_search": (witness or {}).get("search") if witness else "no executable mirror for this unit",
            "replay_cmd": f"./check {prop} --replay {rp}",
            "sources": [s for (r, _) in violations for s in r.get("sources", [])],
        })
        for (r, o) in violations:
            print(f"FAILED-OBLIGATION property={prop} unit={r['unit']} obligation={o['id']} :: {o['text'][:200]}")
            for m in o.get("messages", [])[:2]:
                print("    " + m.strip().replace("\n", "\n    ")[:1500])
        if has_w:
            print(f"WITNESS {json.dumps(witness['witness'])[:600]}")
        print(f"VIOLATION property={prop} replay={rp}" + ("" if has_w else " no-failing-input-found"))
        return E.EXIT_VIOLATION
    bounded_broken = bool(bounded and (bounded.get("error") or any(e.get("error") for e in bounded.get("engines", []))))
    if undecided_units or unstable or ledger_bad or bounded_broken:
        if bounded_broken:
            print(f"UNDECIDED property={prop} reason=bounded-engine-failed " + json.dumps(bounded)[:1500])
        for r in undecided_units:
            print(f"UNDECIDED property={prop} unit={r['unit']} reason={r['reason']}")
            if r.get("detail"):
                print("    " + r["detail"].strip().replace("\n", "\n    ")[:3000])
        for (r, o, why) in unstable:
            print(f"UNDECIDED property={prop} unit={r['unit']} obligation={o['id']} reason=not-a-refutation: {why}")
            for m in o.get("messages", [])[:1]:
                print("    " + m.strip().replace("\n", "\n    ")[:1500])
        for r in ledger_bad:
            print(f"UNDECIDED property={prop} unit={r['unit']} reason=trusted-base-ledger-mismatch")
            print("    scan:   " + "; ".join(r["trusted"]))
            print("    ledger: " + "; ".join(r.get("ledger") or ["<missing>"]))
        return E.EXIT_UNDECIDED
    if bounded_only:
        if not bounded or not bounded.get("evaluations"):
            print(f"UNDECIDED property={prop} reason=bounded-engine-produced-no-evaluations")
            return E.EXIT_UNDECIDED
        print(f"OK property={prop} tier={tier} BOUNDED-ONLY evaluations={bounded['evaluations']} distinct_nontrivial={bounded['distinct_nontrivial']} wall_s={ev['wall_s']}")
        return E.EXIT_OK
    if n_ob == 0:
        print(f"UNDECIDED property={prop} reason=zero-obligations (vacuity guard)")
        return E.EXIT_UNDECIDED
    print(f"OK property={prop} tier={tier} obligations={n_ob} discharged={n_dis} units={','.join(r['unit'] for r in results)} "
          f"smt_ms={sum(r.get('smt_ms', 0) for r in results)} wall_s={ev['wall_s']}")
    return E.EXIT_OK


def update_baseline(unit_names):
    E.ensure_tools()
    b = load_baseline()
    for n in unit_names:
        r = run_unit(n)
        if r["status"] != "ok":
            print(f"unit {n}: UNDECIDED {r['reason']}\n{r['detail'][:3000]}")
            continue
        b[n] = {"gen_sha": r["gen_sha"], "items_sha": r["items_sha"], "shape": r.get("shape", {}),
                "discharged": sorted(o["id"] for o in r["obligations"] if o["status"] == "discharged"),
                "failed": sorted(o["id"] for o in r["obligations"] if o["status"] == "failed")}
        with open(ledger_path(E.load_unit(n)), "w") as f:
            f.write("# trusted constructs found by the mechanical scan of the generated file (regenerate: ./check --update-baseline)\n")
            f.write("\n".join(r["trusted"]) + "\n")
        print(f"unit {n}: {len(b[n]['discharged'])} discharged, {len(b[n]['failed'])} failed; ledger {len(r['trusted'])} items")
        for o in r["failed"]:
            print("   FAILED", o["id"], "::", o["text"][:160])
    write_json(baseline_path(), b)


def replay(path):
    rp = json.load(open(path))
    prop = rp["property"]
    print(f"replaying {path}: property {prop}")
    units = sorted({o["unit"] for o in rp["failed_obligations"]})
    E.ensure_tools()
    still = []
    for un in units:
        if not os.path.isdir(os.path.join(VERIF, "units", un)):
            continue
        r = run_unit(un)
        ids = {o["id"] for o in r["failed"]}
        for o in rp["failed_obligations"]:
            if o["unit"] == un:
                st = "still fails" if o["id"] in ids else ("undecided: " + r["reason"] if r["status"] != "ok" else "now discharged")
                print(f"  obligation {o['id']}: {st}")
                if o["id"] in ids:
                    still.append(o["id"])
    if rp.get("witness"):
        try:
            import replay_bridge
            ok = replay_bridge.replay_witness(rp["witness"])
            print("  witness on the real code:", "reproduces" if ok else "does not reproduce")
            if ok:
                still.append("witness")
        except Exception as e:
            print("  witness replay unavailable:", e)
    return E.EXIT_VIOLATION if still else E.EXIT_OK


def main():
    ap = argparse.ArgumentParser()
    ap.add_argument("prop", nargs="?")
    ap.add_argument("--tier", default=os.environ.get("VERIF_TIER", "quick"))
    ap.add_argument("--replay")
    ap.add_argument("--update-baseline", nargs="*")
    args = ap.parse_args()
    seed = int(os.environ.get("VERIF_SEED", "0") or 0)
    if args.update_baseline is not None:
        names = args.update_baseline or [u["name"] for u in all_units()]
        update_baseline(names)
        return 0
    if args.replay:
        return replay(args.replay)
    if not args.prop:
        ap.error("property id required")
    tier = args.tier if args.tier in ("quick", "thorough") else "quick"
    return decide(args.prop, tier, seed, args)


if __name__ == "__main__":
    try:
        rc = main()
    except SystemExit:
        raise
    except BaseException as e:  # a failure of the machinery is never an alarm
        import traceback
        traceback.print_exc()
        print(f"UNDECIDED reason=internal-error {type(e).__name__}: {e}")
        rc = E.EXIT_UNDECIDED
    sys.exit(rc)
