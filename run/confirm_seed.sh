#!/bin/bash
# run/confirm_seed.sh <seed-id> — apply /tmp/seed-out/<id>/patch.diff in the agent's scratch worktree /tmp/seed-<id>
# and run the whole test suite there (never in /repo). Prints the summary lines.
id=$1
wt=/tmp/seed-$id
cd $wt || exit 2
git checkout -q -- . && git apply /tmp/seed-out/$id/patch.diff || { echo "patch does not apply"; exit 2; }
export CARGO_TARGET_DIR=$wt/target CARGO_NET_OFFLINE=true
cargo test --workspace --no-fail-fast --offline 2>&1 | grep -E "^test result|FAILED|failed|error(\[|:)" | sort | uniq -c | head -20
git checkout -q -- .
