#!/usr/bin/env python3
"""run/harmtest.py <patch.diff> [Cxx ...] — false-alarm test: apply a behaviour-preserving patch to a scratch worktree of /repo
(never /repo itself) and run the quick check of every property (or the ones named) against it. Expected: OK everywhere
(exit 2 = undecided is tolerated and listed; exit 1 is a false alarm). Not registered."""
import os, subprocess, sys, tempfile
HERE = os.path.dirname(os.path.abspath(__file__)); VERIF = os.path.dirname(HERE)
def sh(c, **k): return subprocess.run(c, shell=True, capture_output=True, text=True, **k)
patch = os.path.abspath(sys.argv[1]); props = sys.argv[2:] or [f"C{i:02d}" for i in range(1, 21)]
wt = tempfile.mkdtemp(prefix="vx-harm-", dir="/tmp"); os.rmdir(wt)
r = sh(f"git -C /repo worktree add --detach {wt} HEAD")
if r.returncode: print(r.stderr); sys.exit(2)
try:
    a = sh(f"git -C {wt} apply {patch}")
    if a.returncode: print("patch does not apply:", a.stderr[:200]); sys.exit(2)
    for p in props:
        env = dict(os.environ, VERIF_REPO=wt, VERIF_NO_EVIDENCE="1")
        c = subprocess.run([os.path.join(VERIF, "check"), p], capture_output=True, text=True, env=env)
        lines = c.stdout.split("\n")
        line = next((l for l in lines if l.startswith(("VIOLATION", "OK ", "UNDECIDED"))), "")
        why = [l[:160] for l in lines if l.startswith(("FAILED-OBLIGATION", "UNDECIDED", "LOST", "undecided"))][:3]
        print(f"[{os.path.basename(patch)}] {p} exit={c.returncode} {line[:90]} {why if c.returncode else ''}", flush=True)
finally:
    sh(f"git -C /repo worktree remove --force {wt}")
