#!/bin/sh
# MANIFEST.setup_cmd: build the framework from files on disk only (offline)
set -e
cd "$(dirname "$0")/.."
export CARGO_NET_OFFLINE=true
cargo build --release --offline --manifest-path tools/vx/Cargo.toml
# pre-build the replay tools against /repo (the checks rebuild them from /repo's working tree when it changes)
python3 - <<'PY'
import sys
sys.path.insert(0, "run")
import replay_bridge as R
for t in sorted(set(R.UNIT_TOOL.values())):
    try:
        R._build(t)
        print("built replay tool", t)
    except Exception as e:
        print("WARNING: replay tool", t, "did not build:", str(e)[-400:])
try:
    import e2e
    print("built CLI", e2e.build_cli())
except Exception as e:
    print("WARNING: CLI did not build:", str(e)[-400:])
PY
