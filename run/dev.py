#!/usr/bin/env python3
"""developer helper:  run/dev.py <unit> [--keep]   — extract, splice, run verus, print diagnostics"""
import sys, os, json
sys.path.insert(0, os.path.dirname(os.path.abspath(__file__)))
import engine as E

def main():
    name = sys.argv[1]
    E.ensure_tools()
    u = E.load_unit(name)
    try:
        ex = E.extract(u)
        text, contracts, order = E.assemble(u, ex)
    except E.Undecided as e:
        print("UNDECIDED", e.reason, e.detail); sys.exit(2)
    os.makedirs(E.BUILD, exist_ok=True)
    p = os.path.join(E.BUILD, f"{name}.rs")
    open(p, "w").write(text)
    extra = sys.argv[2:]
    r = E.run_verus(p, rlimit=u.get("rlimit"), extra=[a for a in extra if a.startswith("--")] or None)
    for d in r["diags"]:
        if d.get("level") in ("error", "warning") and "aborting due" not in d.get("message", ""):
            if d.get("level") == "warning" and "-w" not in extra: continue
            if "__vx_canary_" in E.render_diag(d) and "ensures false" in E.render_diag(d): continue
            print(E.render_diag(d))
    print(json.dumps(r["json"]["verification-results"]))
    fr = E.function_results(r)
    bad = [k for k, v in fr.items() if not v["success"] and "__vx_canary_" not in k]
    print("canaries verified (BAD):", [k for k, v in fr.items() if v["success"] and "__vx_canary_" in k])
    print("failed functions:", bad)
    slow = sorted(fr.items(), key=lambda kv: -kv[1]["time_us"])[:5]
    print("slowest:", [(k, v["time_us"] // 1000) for k, v in slow], "wall", round(r["wall"], 1))
    if not r["json"]["verification-results"].get("success") and not r["diags"]:
        print(r["stderr"][-3000:])
main()
