#!/usr/bin/env python3
"""run/seedtest_all.py [seed ...] — apply each /verif/seeded/<id>/patch.diff to a scratch worktree of /repo (never /repo itself),
run the check of the property the seed breaks (VERIF_REPO points at the worktree), print the verdicts. Not registered."""
import json, os, subprocess, sys, tempfile
HERE = os.path.dirname(os.path.abspath(__file__)); VERIF = os.path.dirname(HERE)
def sh(c, **k): return subprocess.run(c, shell=True, capture_output=True, text=True, **k)
seeds = sys.argv[1:] or sorted(os.listdir(os.path.join(VERIF, "seeded")))
wt = tempfile.mkdtemp(prefix="vx-seedtest-", dir="/tmp"); os.rmdir(wt)
r = sh(f"git -C /repo worktree add --detach {wt} HEAD")
if r.returncode: print(r.stderr); sys.exit(2)
try:
    for s in seeds:
        meta = json.load(open(os.path.join(VERIF, "seeded", s, "meta.json")))
        sh(f"git -C {wt} checkout -- . && git -C {wt} clean -fdq")
        a = sh(f"git -C {wt} apply {VERIF}/seeded/{s}/patch.diff")
        if a.returncode:
            print(f"[{s}] patch does not apply to HEAD: {a.stderr.strip()[:120]}"); continue
        import re
        props = list(dict.fromkeys(re.findall(r"C\d\d", meta["breaks"]) + [p for p in meta.get("also_checks", [])]))
        for p in props:
            env = dict(os.environ, VERIF_REPO=wt, VERIF_NO_EVIDENCE="1")
            c = subprocess.run([os.path.join(VERIF, "check"), p], capture_output=True, text=True, env=env)
            line = next((l for l in c.stdout.split("\n") if l.startswith(("VIOLATION", "OK ", "UNDECIDED"))), "")
            fo = [l.split("obligation=")[1].split(" ")[0] for l in c.stdout.split("\n") if l.startswith("FAILED-OBLIGATION")]
            print(f"[{s}] {p} exit={c.returncode} {line[:100]} {fo[:3]}", flush=True)
finally:
    sh(f"git -C /repo worktree remove --force {wt}")
