#!/bin/sh
# run/seedtest.sh <seed-id> <property> [property ...]
# applies /verif/seeded/<seed-id>/patch.diff to /repo, runs the quick checks, and undoes it straight afterwards
set -u
cd "$(dirname "$0")/.." || exit 2
id="$1"; shift
patch="seeded/$id/patch.diff"
[ -f "$patch" ] || { echo "no $patch"; exit 2; }
git -C /repo diff --quiet || { echo "/repo has uncommitted changes"; exit 2; }
git -C /repo apply "$PWD/$patch" || { echo "patch does not apply"; exit 2; }
for p in "$@"; do
  out=$(VERIF_NO_EVIDENCE=1 ./check "$p" 2>&1); rc=$?
  echo "[$id] $p exit=$rc  $(echo "$out" | grep -E '^(VIOLATION|OK |UNDECIDED)' | head -2 | tr '\n' ' ')"
  echo "$out" | grep -E '^(FAILED-OBLIGATION|WITNESS)' | cut -c1-260 | head -4
done
git -C /repo checkout -- .
git -C /repo status --short | head -3
