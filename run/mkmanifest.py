#!/usr/bin/env python3
"""regenerates /verif/MANIFEST.json from units/PROPS.toml and the unit table (keeps the two consistent)"""
import json, os, sys, tomllib
sys.path.insert(0, os.path.dirname(os.path.abspath(__file__)))
import check as C
VERIF = C.VERIF
props = tomllib.load(open(os.path.join(VERIF, "units", "PROPS.toml"), "rb"))
all_ids = [json.loads(l)["id"] for l in open(os.path.join(VERIF, "properties.jsonl"))]
checks, na = [], []
for pid in all_ids:
    p = props.get(pid, {})
    units = [u["name"] for u in C.units_for(pid)]
    if (units or p.get("bounded_only")) and p.get("claimed", True) and "level_text" in p:
        checks.append({
            "property_id": pid,
            "quick_cmd": f"./check {pid} --tier quick",
            "thorough_cmd": f"./check {pid} --tier thorough",
            "evidence_file": f"/verif/evidence/{pid}.json",
            "replay_cmd_template": f"./check {pid} --replay {{path}}",
            "engine": "verus-contracts",
            "level_claimed": {"category": p.get("category", "proof"), "text": p["level_text"], "design_ref": p.get("design_ref", "DESIGN.md §5")},
            "level_note": p.get("level_note", ""),
            "technique": p.get("technique", "contract-based deductive verification (Verus) of mechanically extracted /repo functions"),
        })
    else:
        na.append({"property_id": pid, "reason": p.get("na_reason", "contract designed (DESIGN.md §5) but not yet discharged; not claimed")})
m = {
    "version": 1,
    "setup_cmd": "cd /verif && sh run/setup.sh",
    "hooks": {"guard": "cargo feature `verif` (off by default) of circomspect-parser (parser/Cargo.toml) and of circomspect-program-structure (program_structure/Cargo.toml)",
              "enable": "tools/replay/parser depends on circomspect-parser with features = [\"verif\"] (re-export of the private comment stripper); tools/replay/ps depends on circomspect-program-structure with features = [\"verif\"] (pass budget standing in for the propagation time box, used by the bounded C20 engine); the Verus checks need no hook: they read source text, and statements under #[cfg(feature = \"verif\")] are dropped from the verified text (rule R0: guard-off code)",
              "baseline_off_cmd": "cd /repo && cargo test --workspace --no-fail-fast --offline",
              "source_commits": ["91d3267", "47dded0"], "add_only": True},
    "engines": [{"name": "verus-contracts", "path": "/verif/run/check.py", "serves_properties": [c["property_id"] for c in checks],
                 "kind_free_text": "Verus 0.2026.09.13 on functions extracted mechanically from /repo on every run (tools/vx), contracts in units/*/contracts.vc"}],
    "checks": checks,
    "not_applicable": na,
    "notes": "See DESIGN.md. Exit codes: 0 held, 1 VIOLATION, 2 undecided (lost anchor / unsupported construct / tool limit) — never an alarm.",
}
json.dump(m, open(os.path.join(VERIF, "MANIFEST.json"), "w"), indent=1)
print("claimed:", [c["property_id"] for c in checks], "n/a:", [x["property_id"] for x in na])
