#!/usr/bin/env python3
"""run/e2e.py <suite> <tier> <seed> — end-to-end BOUNDED engines: the real CLI binary, built from /repo's working tree,
on generated projects. Prints one JSON object like the tools/replay engines. Suites: tuples (C18, C01), output (C03)."""
import itertools, json, os, shutil, subprocess, sys, tempfile
sys.path.insert(0, os.path.dirname(os.path.abspath(__file__)))
import engine as E


def build_cli():
    tdir = os.path.join(E.BUILD, "target-cli-" + E.sha256(E.REPO)[:8])
    env = dict(os.environ, CARGO_NET_OFFLINE="true", CARGO_TARGET_DIR=tdir)
    p = subprocess.run(["cargo", "build", "--offline", "-q", "-p", "circomspect"], cwd=E.REPO, env=env, capture_output=True, text=True)
    if p.returncode != 0:
        raise RuntimeError("the CLI does not build: " + p.stderr[-1500:])
    return os.path.join(tdir, "debug", "circomspect")


def run_cli(exe, args, cwd, timeout=60):
    try:
        p = subprocess.run([exe] + args, cwd=cwd, capture_output=True, text=True, timeout=timeout)
        return p.returncode, p.stdout, p.stderr
    except subprocess.TimeoutExpired:
        return None, "", "TIMEOUT"


HEADER = "pragma circom 2.0.0;\n"
TEMPLATE = """template A(n) { signal input x; signal output o1; signal output o2; o1 <== x; o2 <== x + n; }
template T() {
  signal input in; signal input in2; signal output out; signal output out2; signal s1; signal s2;
  var arr[4]; var v = 0;
  %s
  out <== in; out2 <== in2;
}
component main = T();
"""
FUNCTION = """function g(x) { return x; }
function f(x) {
  var arr[4]; var v = 0; var w = 0;
  %s
  return v;
}
template T() { signal input in; signal output out; out <== in + f(1); }
component main = T();
"""

def tuple_cases():
    tup = ["(1, 2)", "(in, 3)", "((1, 2), 3)"]
    cases = []
    for t in tup:
        tf = t.replace("in", "x")
        cases += [
            ("template", "assign-rhs-only", f"s1 <== {t};"),
            ("template", "condition-if", f"if ({t} == 1) {{ v = 1; }}"),
            ("template", "condition-while", f"while ({t} == 1) {{ v = 1; }}"),
            ("template", "array-index", f"arr[{t}] = 1;"),
            ("template", "array-index-read", f"v = arr[{t}];"),
            ("template", "assert-arg", f"assert({t} == 1);"),
            ("template", "log-arg", f"log({t});"),
            ("template", "log-nested", f"log(1 + {t});"),
            ("template", "infix-operand", f"v = 1 + {t};"),
            ("template", "ternary-branch", f"v = in == 1 ? {t} : 2;"),
            ("template", "decl-init", f"var z = {t};"),
            ("template", "constraint-eq", f"{t} === in;"),
            ("function", "return-value", f"return {tf};"),
            ("function", "call-arg", f"v = g({tf});"),
            ("function", "assert-arg", f"assert({tf} == 1);"),
            ("function", "log-call-arg", f"log(g({tf}));"),
            ("function", "condition-if", f"if ({tf} == 1) {{ v = 1; }}"),
            ("function", "loop-body", f"for (var i = 0; i < 2; i++) {{ w = {tf}; }}"),
            ("function", "array-index", f"arr[{tf}] = 1;"),
        ]
    # well-formed tuple forms: must be accepted without a crash
    cases += [
        ("template", "ok-multisub", "(s1, s2) <== (in, in2);"),
        ("template", "ok-underscore", "(s1, _) <== (in, in2);"),
        ("template", "ok-nested", "((s1, s2), v) = ((in, in2), 3);"),
        ("template", "ok-decl-tuple", "var (p, q) = (1, 2);"),
        ("template", "ok-anonymous", "(s1, s2) <== A(1)(in);"),
        ("template", "ok-anonymous-in-loop", "for (var i = 0; i < 2; i++) { (s1, s2) <== A(1)(in); }"),
        ("template", "len-mismatch", "(s1, s2) <== (in, in2, 3);"),
        ("template", "tuple-lhs-nontuple-rhs", "(s1, s2) <== in;"),
    ]
    return cases


def suite_tuples(exe, tier, seed):
    cases = tuple_cases()
    viol, samples = [], []
    evals = 0
    nontrivial = 0
    d = tempfile.mkdtemp(prefix="vx-e2e-")
    try:
        for (kind, pos, stmt) in cases:
            src = HEADER + (TEMPLATE if kind == "template" else FUNCTION) % stmt
            path = os.path.join(d, "t.circom")
            open(path, "w").write(src)
            rc, out, err = run_cli(exe, [path], d)
            evals += 1
            nontrivial += 1
            if len(samples) < 6 and evals % 9 == 1:
                samples.append({"position": f"{kind}:{pos}", "statement": stmt, "exit": rc})
            what = None
            if rc is None:
                what = "the tool did not terminate within 60 s"
            elif "panicked" in err or rc not in (0, 1):
                first = next((l for l in err.split("\n") if "panicked" in l), err[:200])
                what = f"the tool aborted (exit {rc}): {first.strip()[:200]}"
            if what and len(viol) < 20:
                viol.append({"unit": "e2e", "fn": "remove_tuples_from_statement", "obligation": f"e2e|tuples|{kind}:{pos}",
                             "input": {"kind": kind, "position": pos, "statement": stmt},
                             "what": f"a tuple at position {kind}:{pos} (`{stmt}`): {what}", "replay": "python3 run/e2e.py tuples quick 0"})
    finally:
        shutil.rmtree(d, ignore_errors=True)
    return {"unit": "e2e-tuples", "evaluations": evals, "distinct_nontrivial": nontrivial, "exhaustive": True,
            "rule": "the real CLI on one generated file per (definition kind, syntactic position, tuple shape); the tool must terminate with exit status 0 or 1 and must not panic; every case is distinct and non-trivial (contains a tuple)",
            "bound": "3 tuple shapes (flat, with a signal, nested) x 19 positions (assignment sides, conditions, array indices, assert/log/return/call arguments, operands, initialisers, loop bodies) in templates and functions, plus 8 well-formed / malformed tuple statements",
            "samples": samples, "violations": viol}


FX_MAIN = """pragma circom 2.0.0;
include "inc.circom";
template Num2Bits(n) { signal input in; signal output out[n]; var lc = 0; for (var i = 0; i < n; i++) { out[i] <-- (in >> i) & 1; out[i] * (out[i] - 1) === 0; lc += out[i] * (1 << i); } lc === in; }
template T() {
  signal input in; signal input b; signal output out;
  var unused = 3;
  component n2b = Num2Bits(254);
  n2b.in <== in;
  out <-- in / b;
  if (1 == 1) { unused = 4; }
}
component main = T();
"""
FX_INC = """pragma circom 2.0.0;
template Inc() { signal input a; signal output c; c <-- a * a; }
"""
LVL = {"note": 0, "info": 0, "warning": 1, "error": 2}


def parse_displayed(out):
    import re
    d = []
    for l in out.split("\n"):
        m = re.match(r"^(warning|error|note|info)\[(\w+)\]:", l)
        if m:
            d.append((LVL[m.group(1)], m.group(2)))
        elif re.match(r"^(warning|error|note|info):", l):
            d.append((LVL[l.split(":")[0]], "?"))
    m = re.search(r"circomspect: (\d+) issues? found\.", out)
    summary = int(m.group(1)) if m else (0 if "No issues found." in out else None)
    return d, summary


def suite_output(exe, tier, seed):
    from collections import Counter
    viol, samples = [], []
    evals = nontrivial = 0
    d = tempfile.mkdtemp(prefix="vx-e2e-")
    try:
        open(os.path.join(d, "main.circom"), "w").write(FX_MAIN)
        open(os.path.join(d, "inc.circom"), "w").write(FX_INC)
        files = ["main.circom", "missing.circom"]
        rc, out, err = run_cli(exe, ["-v", "-l", "info"] + files, d)
        base, _ = parse_displayed(out)
        ids = sorted({i for (_, i) in base})
        allowsets = [[], ids[:1], ids[1:3], ids[:len(ids) // 2], ids]
        if tier == "thorough":
            allowsets += [[i] for i in ids] + [list(c) for c in itertools.combinations(ids, 2)]
        for level in ("info", "warning", "error"):
            for allow in allowsets:
                sar = os.path.join(d, "o.sarif")
                if os.path.exists(sar):
                    os.unlink(sar)
                args = ["-v", "-l", level, "--sarif-file", sar]
                for a in allow:
                    args += ["--allow", a]
                rc, out, err = run_cli(exe, args + files, d)
                evals += 1
                if allow or level != "info":
                    nontrivial += 1
                disp, summary = parse_displayed(out)
                want = Counter((l, i) for (l, i) in base if l >= LVL[level] and i not in allow)
                res = []
                if os.path.exists(sar):
                    try:
                        sj = json.load(open(sar))
                        res = [(LVL[r.get("level", "note")], r.get("ruleId")) for r in sj["runs"][0]["results"]]
                    except Exception as ex:
                        res = [("unreadable", str(ex))]
                if len(samples) < 5 and evals % 4 == 1:
                    samples.append({"level": level, "allow": allow, "displayed": len(disp), "summary": summary, "exit": rc, "sarif_results": len(res)})
                what = None
                clause = None
                if rc is None or "panicked" in err or rc not in (0, 1):
                    clause, what = "exit", f"abnormal termination (exit {rc})"
                elif (rc == 0) != (len(disp) == 0):
                    clause, what = "exit", f"exit status {rc} with {len(disp)} displayed findings"
                elif summary != len(disp):
                    clause, what = "summary", f"summary says {summary}, {len(disp)} findings displayed"
                elif Counter(disp) != want:
                    clause, what = "filters", f"displayed {sorted(Counter(disp).items())}, expected from the unfiltered run {sorted(want.items())}"
                elif Counter((l, i) for (l, i) in res) != Counter((l, i) for (l, i) in disp if i != "?") and not (len(disp) == 0 and not res):
                    clause, what = "sarif", f"SARIF holds {sorted(Counter(res).items())} but {sorted(Counter(disp).items())} were displayed"
                if what and len(viol) < 20 and not any(v["obligation"].endswith(clause) for v in viol):
                    viol.append({"unit": "e2e", "fn": "main", "obligation": f"e2e|output|{clause}", "input": {"level": level, "allow": allow, "files": files},
                                 "what": f"--level {level} --allow {allow} --sarif-file: {what}", "replay": "python3 run/e2e.py output quick 0"})
    finally:
        shutil.rmtree(d, ignore_errors=True)
    return {"unit": "e2e-output", "evaluations": evals, "distinct_nontrivial": nontrivial, "exhaustive": tier == "thorough",
            "rule": "the real CLI on a fixture project (a named file with 8 finding kinds across 3 levels, an included-only file with findings of its own, a named file that does not exist) for each (--level, --allow set) with --sarif-file and -v; checked: exit 0 iff nothing displayed, summary = number displayed, displayed = unfiltered findings filtered by level and allow list, SARIF results = displayed (ids and levels); non-trivial = a filter is active",
            "bound": "3 levels x " + ("all singletons and pairs of the occurring ids plus 5 fixed subsets" if tier == "thorough" else "5 allow subsets (empty, one id, two ids, half, all)"),
            "samples": samples, "violations": viol}


def main():
    suite, tier, seed = sys.argv[1], (sys.argv[2] if len(sys.argv) > 2 else "quick"), int(sys.argv[3]) if len(sys.argv) > 3 else 0
    try:
        exe = build_cli()
    except Exception as e:
        print(json.dumps({"error": str(e)}))
        return
    r = {"tuples": suite_tuples, "output": suite_output}[suite](exe, tier, seed)
    print(json.dumps(r))

if __name__ == "__main__":
    main()
