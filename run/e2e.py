#!/usr/bin/env python3
"""run/e2e.py <suite> <tier> <seed> — end-to-end BOUNDED engines: the real CLI binary, built from /repo's working tree,
on generated projects. Prints one JSON object like the tools/replay engines. Suites: tuples (C18, C01), output (C03)."""
import itertools, json, os, re, shutil, subprocess, sys, tempfile
sys.path.insert(0, os.path.dirname(os.path.abspath(__file__)))
import time
import engine as E


def build_cli():
    # one build directory for /repo and one shared by all scratch worktrees (selftests, seed tests): disk stays bounded
    tdir = os.path.join(E.BUILD, "target-cli" if os.path.realpath(E.REPO) == "/repo" else "target-cli-scratch")
    env = dict(os.environ, CARGO_NET_OFFLINE="true", CARGO_TARGET_DIR=tdir)
    # the release profile: what `cargo install` gives a user (a debug build overflows its stack on far shallower input)
    p = subprocess.run(["cargo", "build", "--release", "--offline", "-q", "-p", "circomspect"], cwd=E.REPO, env=env, capture_output=True, text=True)
    if p.returncode != 0:
        raise RuntimeError("the CLI does not build: " + p.stderr[-1500:])
    return os.path.join(tdir, "release", "circomspect")


def _cli_limits():
    import resource
    resource.setrlimit(resource.RLIMIT_AS, (8 << 30, 8 << 30))   # a run that needs more than 8 GB dies instead of eating the machine


def run_cli(exe, args, cwd, timeout=60):
    try:
        p = subprocess.run([exe] + args, cwd=cwd, capture_output=True, text=True, timeout=timeout, preexec_fn=_cli_limits)
        return p.returncode, p.stdout, p.stderr
    except subprocess.TimeoutExpired:
        return None, "", "TIMEOUT"


HEADER = "pragma circom 2.0.0;\n"
TEMPLATE = """template A(n) { signal input x; signal output o1; signal output o2; o1 <== x; o2 <== x + n; }
template T() {
  signal input in; signal input in2; signal output out; signal output out2; signal s1; signal s2;
  var arr[4]; var v = 0;
  %s
  out <== in; out2 <== in2;
}
component main = T();
"""
FUNCTION = """function g(x) { return x; }
function f(x) {
  var arr[4]; var v = 0; var w = 0;
  %s
  return v;
}
template T() { signal input in; signal output out; out <== in + f(1); }
component main = T();
"""

def tuple_cases():
    tup = ["(1, 2)", "(in, 3)", "((1, 2), 3)"]
    cases = []
    for t in tup:
        tf = t.replace("in", "x")
        cases += [
            ("template", "assign-rhs-only", f"s1 <== {t};"),
            ("template", "condition-if", f"if ({t} == 1) {{ v = 1; }}"),
            ("template", "condition-while", f"while ({t} == 1) {{ v = 1; }}"),
            ("template", "array-index", f"arr[{t}] = 1;"),
            ("template", "array-index-read", f"v = arr[{t}];"),
            ("template", "assert-arg", f"assert({t} == 1);"),
            ("template", "log-arg", f"log({t});"),
            ("template", "log-nested", f"log(1 + {t});"),
            ("template", "infix-operand", f"v = 1 + {t};"),
            ("template", "ternary-branch", f"v = in == 1 ? {t} : 2;"),
            ("template", "decl-init", f"var z = {t};"),
            ("template", "constraint-eq", f"{t} === in;"),
            ("function", "return-value", f"return {tf};"),
            ("function", "call-arg", f"v = g({tf});"),
            ("function", "assert-arg", f"assert({tf} == 1);"),
            ("function", "log-call-arg", f"log(g({tf}));"),
            ("function", "condition-if", f"if ({tf} == 1) {{ v = 1; }}"),
            ("function", "loop-body", f"for (var i = 0; i < 2; i++) {{ w = {tf}; }}"),
            ("function", "array-index", f"arr[{tf}] = 1;"),
        ]
    # well-formed tuple forms: must be accepted without a crash
    cases += [
        ("template", "ok-multisub", "(s1, s2) <== (in, in2);"),
        ("template", "ok-underscore", "(s1, _) <== (in, in2);"),
        ("template", "ok-nested", "((s1, s2), v) = ((in, in2), 3);"),
        ("template", "ok-decl-tuple", "var (p, q) = (1, 2);"),
        ("template", "ok-anonymous", "(s1, s2) <== A(1)(in);"),
        ("template", "ok-anonymous-in-loop", "for (var i = 0; i < 2; i++) { (s1, s2) <== A(1)(in); }"),
        ("template", "len-mismatch", "(s1, s2) <== (in, in2, 3);"),
        ("template", "tuple-lhs-nontuple-rhs", "(s1, s2) <== in;"),
    ]
    return cases


FAITH_HEADER = """pragma circom 2.1.0;
template Split() { signal input in; signal output lo; signal output mid; signal output hi; lo <== in * in; mid <== in + 1; hi <== in + 2; }
template Two() { signal input a; signal input b; signal output o; signal output r; o <== a * b; r <== a - b; }
template One() { signal input a; signal output o; o <== a * a; }
template Sugar() {
  signal input x; signal input y; signal output p; signal output q;
%s
}
component main = Sugar();
"""

def faithful_cases():
    """(name, sugared statements, hand-written expansion): the displayed findings must be the same multiset"""
    c = []
    outs = ["lo", "mid", "hi"]
    # an anonymous component whose outputs are read through a tuple with `_` in every position pattern
    for mask in [(1, 0, 1), (0, 1, 1), (1, 1, 0), (1, 0, 0), (0, 0, 1), (0, 1, 0)]:
        dst = iter(["p", "q"])
        lhs, exp = [], []
        for k, m in enumerate(mask):
            if m:
                dname = next(dst)
                lhs.append(dname)
                exp.append(f"{dname} <== s.{outs[k]};")
            else:
                lhs.append("_")
        rest = [f"{dname} <== x;" for dname in dst]
        c.append(("anon-outputs-" + "".join(map(str, mask)),
                  f"({', '.join(lhs)}) <== Split()(x); " + " ".join(rest),
                  "component s = Split(); s.in <== x; " + " ".join(exp) + " " + " ".join(rest)))
    # tuple to tuple with `_`
    c.append(("tuple-skip-middle", "(p, _, q) <== (x, y * y, x + 1);", "p <== x; q <== x + 1;"))
    c.append(("tuple-skip-first", "(_, p, q) <== (y * y, x, x + 1);", "p <== x; q <== x + 1;"))
    c.append(("tuple-var-order", "var a; var b; (a, b) = (1, 2); p <== x * a; q <== x * b;", "var a; var b; a = 1; b = 2; p <== x * a; q <== x * b;"))
    # anonymous component inputs: positional and named (in either order)
    exp2 = "component t = Two(); t.a <== x; t.b <== y; p <== t.o; q <== t.r;"
    c.append(("anon-positional", "(p, q) <== Two()(x, y);", exp2))
    c.append(("anon-named", "(p, q) <== Two()(a <== x, b <== y);", exp2))
    c.append(("anon-named-swapped", "(p, q) <== Two()(b <== y, a <== x);", exp2))
    # named inputs with different assignment operators: each input keeps the operator written next to its name
    exp3 = "component t = Two(); t.a <-- x; t.b <== y; p <== t.o; q <== t.r;"
    c.append(("anon-named-mixed-ops", "(p, q) <== Two()(a <-- x, b <== y);", exp3))
    c.append(("anon-named-mixed-ops-swapped", "(p, q) <== Two()(b <== y, a <-- x);", exp3))
    exp4 = "component t = Two(); t.a <== x; t.b <-- y * y; p <== t.o; q <== t.r;"
    c.append(("anon-named-mixed-ops-swapped-2", "(p, q) <== Two()(b <-- y * y, a <== x);", exp4))
    # a single named input keeps its name and its operator
    c.append(("anon-single-named-signal", "p <== One()(a <-- x); q <== x;", "component t = One(); t.a <-- x; p <== t.o; q <== x;"))
    c.append(("anon-single-named-constraint", "p <== One()(a <== x); q <== x;", "component t = One(); t.a <== x; p <== t.o; q <== x;"))
    c.append(("anon-single-named-signal-nonquadratic", "p <== One()(a <-- x * x * y); q <== x;", "component t = One(); t.a <-- x * x * y; p <== t.o; q <== x;"))
    # anonymous components inside loops: an array of components, one per iteration
    tail = " p <== s[0]; q <== s[1];"
    c.append(("anon-in-for", "signal s[2]; for (var i = 0; i < 2; i++) { s[i] <== One()(x + i); }" + tail,
              "signal s[2]; component t[2]; for (var i = 0; i < 2; i++) { t[i] = One(); t[i].a <== x + i; s[i] <== t[i].o; }" + tail))
    c.append(("anon-in-for-tuple", "signal s[2]; for (var i = 0; i < 2; i++) { (s[i], _) <== Two()(x, y); }" + tail,
              "signal s[2]; component t[2]; for (var i = 0; i < 2; i++) { t[i] = Two(); t[i].a <== x; t[i].b <== y; s[i] <== t[i].o; }" + tail))
    c.append(("anon-in-for-named-signal", "signal s[2]; for (var i = 0; i < 2; i++) { s[i] <== One()(a <-- x * x * y); }" + tail,
              "signal s[2]; component t[2]; for (var i = 0; i < 2; i++) { t[i] = One(); t[i].a <-- x * x * y; s[i] <== t[i].o; }" + tail))
    c.append(("anon-in-while", "signal s[2]; var k = 0; while (k < 2) { s[k] <== One()(x + k); k++; }" + tail,
              "signal s[2]; component t[2]; var k = 0; while (k < 2) { t[k] = One(); t[k].a <== x + k; s[k] <== t[k].o; k++; }" + tail))
    c.append(("anon-in-nested-for", "signal s[2][2]; for (var i = 0; i < 2; i++) { for (var j = 0; j < 2; j++) { s[i][j] <== One()(x + i + j); } } p <== s[0][0]; q <== s[1][1];",
              "signal s[2][2]; component t[2][2]; for (var i = 0; i < 2; i++) { for (var j = 0; j < 2; j++) { t[i][j] = One(); t[i][j].a <== x + i + j; s[i][j] <== t[i][j].o; } } p <== s[0][0]; q <== s[1][1];"))
    c.append(("anon-in-for-and-after", "signal s[2]; for (var i = 0; i < 2; i++) { s[i] <== One()(x + i); } p <== One()(s[0]); q <== s[1];",
              "signal s[2]; component t[2]; for (var i = 0; i < 2; i++) { t[i] = One(); t[i].a <== x + i; s[i] <== t[i].o; } component u = One(); u.a <== s[0]; p <== u.o; q <== s[1];"))
    c.append(("anon-in-if-in-for", "signal s[2]; for (var i = 0; i < 2; i++) { if (i == 0) { s[i] <== One()(x); } else { s[i] <== One()(y); } }" + tail,
              "signal s[2]; component t[2]; component u[2]; for (var i = 0; i < 2; i++) { if (i == 0) { t[i] = One(); t[i].a <== x; s[i] <== t[i].o; } else { u[i] = One(); u[i].a <== y; s[i] <== u[i].o; } }" + tail))
    c.append(("anon-one-output-skipped", "(p, _) <== Two()(x, y); q <== x;", "component t = Two(); t.a <== x; t.b <== y; p <== t.o; q <== x;"))
    return c


def findings_of(out):
    """the displayed findings without file positions: the header line (severity[code]: message) plus the label texts, with
    component-qualified names normalised (`Two_6_370.a` and `t.a` both become `<c>.a`: the name of an anonymous component
    is generated, the hand-written expansion chooses its own)"""
    import re
    f = []
    cur = None
    for l in out.split("\n"):
        if re.match(r"^(warning|error|note|info)(\[\w+\])?:", l):
            if cur is not None:
                f.append(cur)
            cur = l.strip()
        elif cur is not None:
            m = re.match(r"^\s*│\s+[\^-]+ (.+)$", l)   # a label line: only carets / dashes before the text
            if m:
                cur += " | " + re.sub(r"`\w+((?:\[[^\]]*\])*)\.(\w+)", r"`<c>.\2", m.group(1).strip())
            elif l.startswith("circomspect:"):
                f.append(cur)
                cur = None
    if cur is not None:
        f.append(cur)
    return sorted(f)


def suite_tuples(exe, tier, seed):
    cases = tuple_cases()
    viol, samples = [], []
    evals = 0
    nontrivial = 0
    d = tempfile.mkdtemp(prefix="vx-e2e-")
    try:
        # ---- faithfulness: findings of the sugared statement == findings of the hand-written expansion
        for (name, sugar, expanded) in faithful_cases():
            res = []
            for body in (sugar, expanded):
                path = os.path.join(d, "f.circom")
                open(path, "w").write(FAITH_HEADER % ("  " + body))
                rc, out, err = run_cli(exe, [path], d)
                res.append((rc, findings_of(out), err))
            evals += 1
            nontrivial += 1
            what = None
            (rc1, f1, e1), (rc2, f2, e2) = res
            if rc1 is None or "panicked" in e1 or rc1 not in (0, 1):
                what = f"the tool aborted or hung on the sugared form (exit {rc1})"
            elif rc2 not in (0, 1):
                continue  # the hand-written expansion itself is not accepted: the case says nothing
            elif f1 != f2 or rc1 != rc2:
                what = f"findings differ from the hand-written expansion: sugared {f1} (exit {rc1}) vs expanded {f2} (exit {rc2})"
            if what and len(viol) < 20:
                viol.append({"unit": "e2e", "fn": "remove_tuples_from_statement", "obligation": f"e2e|tuples|faithful:{name}",
                             "props": ["C18", "C01"] if "aborted" in what else ["C18"],
                             "input": {"sugared": sugar, "expanded": expanded},
                             "what": f"`{sugar}`: {what}", "replay": "python3 run/e2e.py tuples quick 0"})
        for (kind, pos, stmt) in cases:
            src = HEADER + (TEMPLATE if kind == "template" else FUNCTION) % stmt
            path = os.path.join(d, "t.circom")
            open(path, "w").write(src)
            rc, out, err = run_cli(exe, [path], d)
            evals += 1
            nontrivial += 1
            if len(samples) < 6 and evals % 9 == 1:
                samples.append({"position": f"{kind}:{pos}", "statement": stmt, "exit": rc})
            what = None
            if rc is None:
                what = "the tool did not terminate within 60 s"
            elif "panicked" in err or rc not in (0, 1):
                first = next((l for l in err.split("\n") if "panicked" in l), err[:200])
                what = f"the tool aborted (exit {rc}): {first.strip()[:200]}"
            if what and len(viol) < 20:
                viol.append({"unit": "e2e", "fn": "remove_tuples_from_statement", "obligation": f"e2e|tuples|{kind}:{pos}",
                             "props": ["C18", "C01"],
                             "input": {"kind": kind, "position": pos, "statement": stmt},
                             "what": f"a tuple at position {kind}:{pos} (`{stmt}`): {what}", "replay": "python3 run/e2e.py tuples quick 0"})
    finally:
        shutil.rmtree(d, ignore_errors=True)
    return {"unit": "e2e-tuples", "evaluations": evals, "distinct_nontrivial": nontrivial, "exhaustive": True,
            "rule": "the real CLI (a) on a sugared statement and on its hand-written expansion: same exit status and same displayed findings; (b) on one generated file per (definition kind, syntactic position, tuple shape): the tool must terminate with exit status 0 or 1 and must not panic; every case is distinct and non-trivial (contains a tuple)",
            "bound": "faithfulness: 26 sugared statements (tuple destinations with `_` in every position, tuple-to-tuple, anonymous components with positional / named / swapped / single named inputs, anonymous components inside for / while / nested loops and branches inside loops) against their hand-written expansions, findings compared as multisets without positions; completeness: 3 tuple shapes (flat, with a signal, nested) x 19 positions (assignment sides, conditions, array indices, assert/log/return/call arguments, operands, initialisers, loop bodies) in templates and functions, plus 8 well-formed / malformed tuple statements",
            "samples": samples, "violations": viol}


FX_MAIN = """pragma circom 2.0.0;
include "inc.circom";
template Num2Bits(n) { signal input in; signal output out[n]; var lc = 0; for (var i = 0; i < n; i++) { out[i] <-- (in >> i) & 1; out[i] * (out[i] - 1) === 0; lc += out[i] * (1 << i); } lc === in; }
template Pair() { signal input a; signal output u; signal output v; u <== a; v <== a + 1; }
template T() {
  signal input in; signal input b; signal output out;
  var unused = 3;
  component n2b = Num2Bits(254);
  n2b.in <== in;
  component pr = Pair();
  pr.a <== in;
  out <-- in / b;
  if (1 == 1) { unused = 4; }
}
component main = T();
"""
FX_INC = """pragma circom 2.0.0;
template Inc() { signal input a; signal output c; c <-- a * a; }
"""
LVL = {"note": 0, "info": 0, "warning": 1, "error": 2}


def parse_displayed(out):
    import re
    d = []
    for l in out.split("\n"):
        m = re.match(r"^(warning|error|note|info)\[(\w+)\]:", l)
        if m:
            d.append((LVL[m.group(1)], m.group(2)))
        elif re.match(r"^(warning|error|note|info):", l):
            d.append((LVL[l.split(":")[0]], "?"))
    m = re.search(r"circomspect: (\d+) issues? found\.", out)
    summary = int(m.group(1)) if m else (0 if "No issues found." in out else None)
    return d, summary


STAGE_CASES = [
    ("shadowing-in-function", "pragma circom 2.0.0;\nfunction f(a) {\n  var x = a;\n  if (a > 0) {\n    var x = 2;\n    return x;\n  }\n  return x;\n}\ntemplate T() { signal input in; signal output out; out <== in + f(1); }\ncomponent main = T();\n",
     [("CS0001", 5)]),
    ("shadowing-in-template", "pragma circom 2.0.0;\ntemplate T(n) {\n  signal input in; signal output out;\n  var x = n;\n  for (var i = 0; i < 2; i++) {\n    var x = i;\n    x = x + 1;\n  }\n  out <== in + x;\n}\ncomponent main = T(1);\n",
     [("CS0001", 6)]),
    ("shadowing-in-instantiated-template", "pragma circom 2.0.0;\ntemplate B(n) {\n  signal input in; signal output out;\n  var x = n;\n  if (n > 0) {\n    var x = 3;\n    x = x + 1;\n  }\n  out <== in + x;\n}\ntemplate A() {\n  signal input in; signal output out;\n  component b = B(2);\n  b.in <== in;\n  out <== b.out;\n}\ncomponent main = A();\n",
     [("CS0001", 6)]),
    ("duplicate-template-parameters", "pragma circom 2.0.0;\ntemplate T(a, a) { signal input in; signal output out; out <== in + a; }\ncomponent main = T(1, 2);\n",
     [("CS0002", 2)]),
    ("duplicate-function-parameters", "pragma circom 2.0.0;\nfunction f(a, a) { return a; }\ntemplate T(b) { signal input in; signal output out; out <== in + f(b, b); }\ncomponent main = T(1);\n",
     [("CS0002", 2)]),
    ("shadowing-in-recursive-template", "pragma circom 2.0.0;\ntemplate Rec(n) {\n  signal input a; signal output b;\n  var half = n \\ 2;\n  if (n > 1) {\n    var half = 1;\n    component r = Rec(half);\n    r.a <== a;\n    b <== r.b;\n  } else {\n    b <== a;\n  }\n}\ncomponent main = Rec(4);\n",
     [("CS0001", 6)]),
    ("shadowing-in-mutually-recursive-templates", "pragma circom 2.0.0;\ntemplate Even(n) {\n  signal input a; signal output b;\n  var k = n;\n  if (n > 0) {\n    var k = n - 1;\n    component o = Odd(k);\n    o.a <== a;\n    b <== o.b;\n  } else {\n    b <== a;\n  }\n}\ntemplate Odd(n) {\n  signal input a; signal output b;\n  component e = Even(n - 1);\n  e.a <== a;\n  b <== e.b;\n}\ncomponent main = Even(4);\n",
     [("CS0001", 6)]),
    ("shadowing-in-recursive-function", "pragma circom 2.0.0;\nfunction fact(n) {\n  var r = 1;\n  if (n > 1) {\n    var r = n;\n    return r * fact(n - 1);\n  }\n  return r;\n}\ntemplate T(n) { signal input in; signal output out; out <== in * fact(n); }\ncomponent main = T(3);\n",
     [("CS0001", 5)]),
    ("no-stage-findings", "pragma circom 2.0.0;\ntemplate T() { signal input in; signal output out; out <== in; }\ncomponent main = T();\n", []),
]


def want_codes_all(cases):
    return {c for (_, _, w) in cases for (c, _) in w}


def suite_output(exe, tier, seed):
    from collections import Counter
    viol, samples = [], []
    evals = nontrivial = 0
    d = tempfile.mkdtemp(prefix="vx-e2e-")
    try:
        open(os.path.join(d, "main.circom"), "w").write(FX_MAIN)
        open(os.path.join(d, "inc.circom"), "w").write(FX_INC)
        files = ["main.circom", "missing.circom", "missing_too.circom"]
        rc, out, err = run_cli(exe, ["-v", "-l", "info"] + files, d)
        base, _ = parse_displayed(out)
        ids = sorted({i for (_, i) in base})
        allowsets = [[], ids[:1], ids[1:3], ids[:len(ids) // 2], ids]
        if tier == "thorough":
            allowsets += [[i] for i in ids] + [list(c) for c in itertools.combinations(ids, 2)]
        for level in ("info", "warning", "error"):
            for allow in allowsets:
                sar = os.path.join(d, "o.sarif")
                if os.path.exists(sar):
                    os.unlink(sar)
                args = ["-v", "-l", level, "--sarif-file", sar]
                for a in allow:
                    args += ["--allow", a]
                rc, out, err = run_cli(exe, args + files, d)
                evals += 1
                if allow or level != "info":
                    nontrivial += 1
                disp, summary = parse_displayed(out)
                want = Counter((l, i) for (l, i) in base if l >= LVL[level] and i not in allow)
                res = []
                if os.path.exists(sar):
                    try:
                        sj = json.load(open(sar))
                        res = [(LVL[r.get("level", "note")], r.get("ruleId")) for r in sj["runs"][0]["results"]]
                    except Exception as ex:
                        res = [("unreadable", str(ex))]
                if len(samples) < 5 and evals % 4 == 1:
                    samples.append({"level": level, "allow": allow, "displayed": len(disp), "summary": summary, "exit": rc, "sarif_results": len(res)})
                what = None
                clause = None
                if rc is None or "panicked" in err or rc not in (0, 1):
                    clause, what = "exit", f"abnormal termination (exit {rc})"
                elif (rc == 0) != (len(disp) == 0):
                    clause, what = "exit", f"exit status {rc} with {len(disp)} displayed findings"
                elif summary != len(disp):
                    clause, what = "summary", f"summary says {summary}, {len(disp)} findings displayed"
                elif Counter(disp) != want:
                    clause, what = "filters", f"displayed {sorted(Counter(disp).items())}, expected from the unfiltered run {sorted(want.items())}"
                elif Counter((l, i) for (l, i) in res) != Counter((l, i) for (l, i) in disp if i != "?") and not (len(disp) == 0 and not res):
                    clause, what = "sarif", f"SARIF holds {sorted(Counter(res).items())} but {sorted(Counter(disp).items())} were displayed"
                elif os.path.exists(sar) and res and res[0][0] != "unreadable":
                    # positions and rule descriptors
                    import re as _re
                    shown = Counter()
                    cur = None
                    for l in out.split("\n"):
                        m = _re.match(r"^(warning|error|note|info)\[(\w+)\]:", l)
                        if m:
                            cur = m.group(2)
                        m2 = _re.search(r"┌─ [^\s:]+:(\d+):(\d+)", l)
                        if m2 and cur:
                            shown[(cur, int(m2.group(1)), int(m2.group(2)))] += 1
                            cur = None
                    inf = Counter()
                    for r in sj["runs"][0]["results"]:
                        if r.get("locations"):
                            reg = r["locations"][0]["physicalLocation"]["region"]
                            inf[(r.get("ruleId"), reg.get("startLine"), reg.get("startColumn"))] += 1
                    rules = [x.get("id") for x in sj["runs"][0].get("tool", {}).get("driver", {}).get("rules", [])]
                    used = {r.get("ruleId") for r in sj["runs"][0]["results"]}
                    if shown != inf:
                        clause, what = "sarif-positions", f"SARIF places findings at {sorted((inf - shown).items())[:4]} where the terminal shows {sorted((shown - inf).items())[:4]}"
                    elif len(rules) != len(set(rules)):
                        clause, what = "sarif-rules", f"the SARIF rule list repeats an id: {sorted(rules)}"
                    elif set(rules) != used:
                        clause, what = "sarif-rules", f"the SARIF rule list {sorted(rules)} does not match the ids of the results {sorted(used)}"
                if what and len(viol) < 20 and not any(v["obligation"].endswith(clause) for v in viol):
                    viol.append({"unit": "e2e", "fn": "main", "obligation": f"e2e|output|{clause}", "input": {"level": level, "allow": allow, "files": files},
                                 "what": f"--level {level} --allow {allow} --sarif-file: {what}", "replay": "python3 run/e2e.py output quick 0"})
        # ---- findings produced while a definition's CFG is generated (shadowing warnings, lifting failures): displayed exactly
        # once, whether the definition is analysed on its own or was looked up by another definition first (either order
        # occurs: definitions live in randomly seeded hash maps, so every case is run several times)
        for (name, src, want_codes) in STAGE_CASES:
            path = os.path.join(d, "stage.circom")
            open(path, "w").write(src)
            for rep in range(2 if tier == "quick" else 8):
                rc, out, err = run_cli(exe, ["-v", path], d)
                evals += 1
                nontrivial += 1
                got = Counter((code, ln) for (code, ln, _) in coded_findings(out) if code in want_codes_all(STAGE_CASES))
                want = Counter(want_codes)
                what = None
                if rc is None or "panicked" in err or rc not in (0, 1):
                    what = f"abnormal termination (exit {rc})"
                elif got != want:
                    what = f"displayed {sorted(got.items())}, the definition produces {sorted(want.items())} while its CFG is generated"
                elif want and rc == 0:
                    what = "findings displayed but exit status 0"
                if what:
                    if len(viol) < 20 and not any(v["obligation"] == f"e2e|output|stage:{name}" for v in viol):
                        viol.append({"unit": "e2e", "fn": "AnalysisRunner::analyze_* / cache_*", "obligation": f"e2e|output|stage:{name}", "input": {"case": name, "source": src},
                                     "what": f"{name}: {what}", "replay": "python3 run/e2e.py output quick 0"})
                    break
    finally:
        shutil.rmtree(d, ignore_errors=True)
    return {"unit": "e2e-output", "evaluations": evals, "distinct_nontrivial": nontrivial, "exhaustive": tier == "thorough",
            "rule": "the real CLI on a fixture project (a named file with 9 finding kinds across 3 levels — two of them the same rule at the same place —, an included-only file with findings of its own, two named files that do not exist) for each (--level, --allow set) with --sarif-file and -v; checked: exit 0 iff nothing displayed, summary = number displayed, displayed = unfiltered findings filtered by level and allow list, SARIF results = displayed (ids, levels, and line/column of the primary location), SARIF rule list = one descriptor per id that occurs; findings produced while a definition's CFG is generated (shadowing warning, parameter collision) are displayed exactly once whichever definition is analysed first; non-trivial = a filter is active",
            "bound": "3 levels x " + ("all singletons and pairs of the occurring ids plus 5 fixed subsets" if tier == "thorough" else "5 allow subsets (empty, one id, two ids, half, all)"),
            "samples": samples, "violations": viol}


VAL_TEMPLATE = """pragma circom 2.0.0;
function n2(x) { return x * x + 2; }
template T(n) {
  signal input in;
  signal output out;
  var r = 0;
%s
  log(r);
}
component main = T(1);
"""

def value_cases():
    """(name, body, may_claim): a carrier (signal, or variable) assigned in the two branches of a conditional that depends on a
    template parameter, then compared with the first constant. `may_claim`: the set of 'always true/false' claims that are sound."""
    rhs = {"c1": "1", "c2": "2", "u": "in"}
    cases = []
    for carrier in ("signal", "var", "signal-then-only", "var-loop"):
        for a in ("c1", "c2", "u"):
            for b in ("c1", "c2", "u"):
                if carrier == "signal":
                    body = f"  if (n == 0) {{ out <== {rhs[a]}; }} else {{ out <== {rhs[b]}; }}\n  if (out == 1) {{ r = 1; }} else {{ r = 2; }}"
                elif carrier == "var":
                    body = f"  var v;\n  if (n == 0) {{ v = {rhs[a]}; }} else {{ v = {rhs[b]}; }}\n  if (v == 1) {{ r = 1; }} else {{ r = 2; }}\n  out <== in;"
                elif carrier == "signal-then-only":
                    if b != "c1":
                        continue
                    body = f"  if (n == 0) {{ out <== {rhs[a]}; }}\n  if (out == 1) {{ r = 1; }} else {{ r = 2; }}"
                else:
                    body = f"  var v = {rhs[a]};\n  for (var i = 0; i < n; i++) {{ v = {rhs[b]}; }}\n  if (v == 1) {{ r = 1; }} else {{ r = 2; }}\n  out <== in;"
                if carrier == "signal-then-only":
                    # a signal assigned on one path only: where it is defined it holds that value
                    claim = {"c1": "true", "c2": "false", "u": None}[a]
                else:
                    claim = "true" if (a, b) == ("c1", "c1") else "false" if (a, b) == ("c2", "c2") else None
                cases.append((f"{carrier}:{a}/{b}", body, claim))
    # arrays (versioned as a whole), the ternary operator and calls: the comparison is always with 1
    tail = "\n  if (v == 1) { r = 1; } else { r = 2; }\n  out <== in;"
    extra = [
        ("array:distinct-elements", "  var a[2];\n  a[0] = 1;\n  a[1] = 2;\n  var v = a[1];" + tail, "false"),
        ("array:same-elements", "  var a[2];\n  a[0] = 1;\n  a[1] = 1;\n  var v = a[n];" + tail, "true"),
        ("array:element-overwritten-in-branch", "  var a[2];\n  a[0] = 1;\n  a[1] = 1;\n  if (n == 0) { a[0] = 2; }\n  var v = a[0];" + tail, None),
        ("array:element-overwritten-in-loop", "  var a[2];\n  a[0] = 1;\n  a[1] = 1;\n  for (var i = 0; i < n; i++) { a[i] = 2; }\n  var v = a[0];" + tail, None),
        ("array:other-element-overwritten", "  var a[2];\n  a[0] = 1;\n  a[1] = 1;\n  a[1] = 2;\n  var v = a[0];" + tail, "true"),
        ("array:inline-then-overwritten", "  var a[2] = [1, 1];\n  a[n] = 2;\n  var v = a[0];" + tail, None),
        ("array:inline-distinct", "  var a[2] = [1, 2];\n  var v = a[n];" + tail, None),
        ("array:one-element-written", "  var a[2];\n  a[0] = 1;\n  var v = a[1];" + tail, "false"),
        ("array:inline-distinct-then-one-written", "  var a[2] = [3, 2];\n  a[0] = 1;\n  var v = a[1];" + tail, "false"),
        ("array:written-in-loop-only", "  var a[4];\n  for (var i = 0; i < n; i++) { a[i] = 1; }\n  var v = a[3];" + tail, None),
        ("array:two-dimensional", "  var a[2][2];\n  a[0][0] = 1;\n  var v = a[1][1];" + tail, "false"),
        ("ternary:unknown-condition-distinct-cases", "  var v = n == 0 ? 1 : 2;" + tail, None),
        ("ternary:unknown-condition-same-cases", "  var v = n == 0 ? 1 : 1;" + tail, "true"),
        ("ternary:unknown-condition-one-unknown-case", "  var v = n == 0 ? 1 : in;" + tail, None),
        ("ternary:constant-condition", "  var v = 2 == 2 ? 1 : 2;" + tail, "true"),
        ("ternary:constant-condition-other-case-unknown", "  var v = 2 == 3 ? in : 1;" + tail, "true"),
        ("ternary:nested", "  var v = n == 0 ? (n == 1 ? 1 : 2) : 1;" + tail, None),
        ("call:constant-arguments", "  var v = n2(0);" + tail, None),
        ("call:unknown-argument", "  var v = n2(n);" + tail, None),
    ]
    cases += extra
    return cases


def suite_values(exe, tier, seed):
    import re
    viol, samples = [], []
    evals = nontrivial = 0
    d = tempfile.mkdtemp(prefix="vx-e2e-")
    try:
        for (name, body, claim) in value_cases():
            path = os.path.join(d, "v.circom")
            open(path, "w").write(VAL_TEMPLATE % body)
            rc, out, err = run_cli(exe, ["-v", path], d)
            evals += 1
            nontrivial += 1
            made = set()
            for (code, ln, text) in coded_findings(out):
                if code == "CS0009":
                    pol = re.search(r"always (true|false)", text)
                    made.add(pol.group(1) if pol else "unknown")
            if claim is not None and "unknown" in made:
                made.discard("unknown")   # a constant-condition finding whose polarity cannot be read is not judged when one is allowed
            if len(samples) < 6 and evals % 5 == 1:
                samples.append({"case": name, "exit": rc, "claims": sorted(made)})
            what, props = None, ["C06"]
            if rc is None or "panicked" in err or rc not in (0, 1):
                first = next((l for l in err.split("\n") if "panicked" in l), err[:200])
                what, props = f"the tool aborted (exit {rc}): {first.strip()[:160]}", ["C01"]
            else:
                wrong = [m for m in made if m != claim]
                if wrong:
                    what = f"claims the condition on the carrier is always {wrong[0]}, but the carrier can hold a value for which it is not (sound claim: {claim})"
            if what and len(viol) < 20:
                viol.append({"unit": "e2e", "fn": "Statement::propagate_values", "obligation": f"e2e|values|{name}", "props": props,
                             "input": {"case": name, "body": body}, "what": f"{name}: {what} — body:\n{body}", "replay": "python3 run/e2e.py values quick 0"})
    finally:
        shutil.rmtree(d, ignore_errors=True)
    return {"unit": "e2e-values", "evaluations": evals, "distinct_nontrivial": nontrivial, "exhaustive": True,
            "rule": "the real CLI on a template in which a carrier (signal or variable) is assigned a constant or an unknown value on each of two paths and then compared with a constant: the tool must not abort, and may report `This condition is always true/false` only when every path assigns the matching constant",
            "bound": "4 carriers (signal in both branches, variable in both branches, signal in one branch, variable updated in a loop) x {1, 2, unknown}^2 assignments; 19 shapes with arrays (distinct / equal elements, a single element written, elements overwritten in a branch, in a loop, at an unknown index), ternaries (unknown or constant condition, equal / distinct / unknown cases, nested) and calls",
            "samples": samples, "violations": viol}


CURVES = {"BN254": 254, "BLS12_381": 255, "GOLDILOCKS": 64}
# Circomlib's spelling where the documentation table differs in case (circomlib/circuits/pointbits.circom)
CIRCOMLIB_SPELLING = {"Bits2Point_strict": "Bits2Point_Strict", "Point2Bits_strict": "Point2Bits_Strict"}

def documented_table(repo):
    """{template name (Circomlib spelling): set of curves marked `x`} from doc/analysis_passes.md"""
    import re
    rows = {}
    for l in open(os.path.join(repo, "doc", "analysis_passes.md")):
        m = re.match(r"^\|\s*`(\w+)`\s*\|([^|]*)\|([^|]*)\|\s*$", l)
        if m:
            name = CIRCOMLIB_SPELLING.get(m.group(1), m.group(1))
            rows[name] = {c for c, cell in (("GOLDILOCKS", m.group(2)), ("BLS12_381", m.group(3))) if "x" in cell}
    return rows


def coded_findings(out):
    """[(code, primary line number or None, text of the finding block)] from verbose output (`-v` prints the report codes);
    findings are identified by their code and source line, not by the wording of their messages"""
    import re
    res, cur = [], None
    for l in out.split("\n"):
        m = re.match(r"^(warning|error|note|info)\[(\w+)\]:", l)
        if m:
            cur = [m.group(2), None, l]
            res.append(cur)
        elif cur is not None:
            cur[2] += "\n" + l
            m2 = re.search(r"┌─ [^\s:]+:(\d+):\d+", l)
            if m2 and cur[1] is None:
                cur[1] = int(m2.group(1))
            if l.startswith("circomspect:"):
                cur = None
    return [tuple(x) for x in res]


def suite_curves(exe, tier, seed):
    import re
    repo = os.environ.get("VERIF_REPO", "/repo")
    viol, samples = [], []
    evals = nontrivial = 0
    d = tempfile.mkdtemp(prefix="vx-e2e-")

    def add(ob, inp, what):
        if len(viol) < 20:
            viol.append({"unit": "e2e", "fn": "curve-dependent passes", "obligation": f"e2e|curves|{ob}", "props": ["C11"], "input": inp,
                         "what": what, "replay": "python3 run/e2e.py curves quick 0"})
    try:
        table = documented_table(repo)
        if len(table) < 20:
            raise RuntimeError("documented table not found in doc/analysis_passes.md")
        names = sorted(table)
        near = [n.lower() for n in names[:6]] + [n + "2" for n in names[:4]] + sorted(CIRCOMLIB_SPELLING) + ["Num2Bits", "LessThan", "Poseidon2"]
        allnames = names + [n for n in near if n not in table]
        # ---- (a) the template / curve table
        src = "pragma circom 2.0.0;\n" + "".join(f"template {n}() {{ signal input a; signal output b; b <== a; }}\n" for n in allnames)
        src += "template Main() {\n  signal input x; signal output y[%d];\n" % len(allnames)
        line_of = {}
        for i, n in enumerate(allnames):
            line_of[src.count("\n") + 1] = n
            src += f"  component c{i} = {n}(); c{i}.a <== x; y[{i}] <== c{i}.b;\n"
        src += "}\ncomponent main = Main();\n"
        path = os.path.join(d, "table.circom")
        open(path, "w").write(src)
        for curve in CURVES:
            rc, out, err = run_cli(exe, ["-v", "--curve", curve, path], d)
            flagged = {line_of.get(ln) for (code, ln, _) in coded_findings(out) if code == "CS0016"}
            for n in allnames:
                evals += 1
                nontrivial += 1
                want = curve in table.get(n, set())
                if (n in flagged) != want:
                    add(f"table:{curve}:{n}", {"curve": curve, "template": n},
                        f"--curve {curve}: instantiating `{n}` is {'flagged' if n in flagged else 'not flagged'} as BN254-specific, the documented table says {'x' if want else 'no mark'}")
            if rc not in (0, 1) or "panicked" in err:
                add(f"table:{curve}:abort", {"curve": curve}, f"the tool aborted (exit {rc}) on the table fixture")
        samples.append({"case": "table", "templates": len(allnames), "curves": list(CURVES)})
        # ---- (b) Num2Bits(n) / Bits2Num(n) under the default curve
        ns = list(range(0, 301)) if tier == "thorough" else [0, 1, 2, 63, 64, 65, 128, 200, 252, 253, 254, 255, 256, 300]
        lib = ("template Num2Bits(n) { signal input in; signal output out[n]; for (var i = 0; i < n; i++) { out[i] <-- (in >> i) & 1; } }\n"
               "template Bits2Num(n) { signal input in[n]; signal output out; var lc = 0; for (var i = 0; i < n; i++) { lc += in[i] * (1 << i); } out <-- lc; }\n"
               "template LessThan(n) { signal input in[2]; signal output out; out <-- in[0] < in[1]; }\n")
        for tname in ("Num2Bits", "Bits2Num"):
            lines = ["pragma circom 2.0.0;"] + lib.strip().split("\n") + ["template Main(m) {", "  signal input x;"]
            where = {}
            for n in ns + ["m", "m + 1"]:
                i = len(where)
                lines.append(f"  component c{i} = {tname}({n});")
                where[len(lines)] = n
            lines += ["}", "component main = Main(3);"]
            path = os.path.join(d, f"{tname}.circom")
            open(path, "w").write("\n".join(lines) + "\n")
            rc, out, err = run_cli(exe, ["-v", path], d)   # default curve
            flagged_lines = {ln for (code, ln, _) in coded_findings(out) if code == "CS0010"}
            for ln, n in where.items():
                evals += 1
                nontrivial += 1
                want = not (isinstance(n, int) and n < 254)
                if (ln in flagged_lines) != want:
                    add(f"size:{tname}:{n}", {"template": tname, "n": n},
                        f"default curve: `{tname}({n})` is {'flagged' if ln in flagged_lines else 'not flagged'}; it must be flagged unless n is a compile-time constant smaller than 254")
            if rc not in (0, 1) or "panicked" in err:
                add(f"size:{tname}:abort", {}, f"the tool aborted (exit {rc})")
        # ---- (c) LessThan inputs range-checked by Num2Bits(k): positive iff 2^k - 1 <= p/2, i.e. k < bits(p) - 1
        for curve, bits in CURVES.items():
            ks = list(range(0, 301)) if tier == "thorough" else sorted({0, 1, 8, bits - 3, bits - 2, bits - 1, bits, bits + 1, 300})
            for k in ks:
                body = (f"pragma circom 2.0.0;\n{lib}template Main() {{\n  signal input a; signal input b; signal output ok;\n"
                        f"  component n2b[2];\n  n2b[0] = Num2Bits({k});\n  n2b[0].in <== a;\n  n2b[1] = Num2Bits({k});\n  n2b[1].in <== b;\n"
                        f"  component lt = LessThan(8);\n  lt.in[0] <== a;\n  lt.in[1] <== b;\n  ok <== lt.out;\n}}\ncomponent main = Main();\n")
                path = os.path.join(d, "lt.circom")
                open(path, "w").write(body)
                rc, out, err = run_cli(exe, ["-v", "--curve", curve, path], d)
                evals += 1
                nontrivial += 1
                got = len([1 for (code, ln, _) in coded_findings(out) if code == "CS0014"])
                want = 0 if k < bits - 1 else 2
                if got != want or rc not in (0, 1) or "panicked" in err:
                    add(f"lessthan:{curve}:{k}", {"curve": curve, "k": k},
                        f"--curve {curve}: inputs of LessThan range-checked by Num2Bits({k}): {got} inputs reported as not known to be <= p/2, expected {want} (2^k - 1 <= p/2 iff k < {bits - 1}); exit {rc}")
        # ---- (c') the oracle's arithmetic fact and the prime constants of the source
        DOC_PRIMES = {"BN254": 21888242871839275222246405745257275088548364400416034343698204186575808495617,
                      "BLS12_381": 52435875175126190479447740508185965837690552500527637822603658699938581184513,
                      "GOLDILOCKS": 18446744069414584321}
        ctext = open(os.path.join(repo, "program_structure", "src", "utils", "constants.rs")).read()
        lits = {int(x) for x in re.findall(r'"(\d{15,})"', ctext)}
        for curve, pr in DOC_PRIMES.items():
            evals += 1
            nontrivial += 1
            if pr not in lits:
                add(f"prime:{curve}", {"curve": curve}, f"the prime of {curve} in the Circom documentation ({pr}) does not occur among the decimal literals of constants.rs")
            if pr.bit_length() != CURVES[curve] or any(((2 ** k - 1) <= pr // 2) != (k < CURVES[curve] - 1) for k in range(0, 301)):
                raise RuntimeError("oracle arithmetic is wrong for " + curve)
        # ---- (d) curve names
        canon = {}
        for curve in CURVES:
            rc, out, err = run_cli(exe, ["--curve", curve, os.path.join(d, "table.circom")], d)
            canon[curve] = (rc, findings_of(out))
        spellings = {"BN254": ["bn254", "Bn254", "bN254"], "BLS12_381": ["bls12_381", "Bls12_381", "BLS12_381"], "GOLDILOCKS": ["goldilocks", "Goldilocks", "GoldiLocks"]}
        for curve, sp in spellings.items():
            for name in sp:
                rc, out, err = run_cli(exe, ["--curve", name, os.path.join(d, "table.circom")], d)
                evals += 1
                nontrivial += 1
                if (rc, findings_of(out)) != canon[curve]:
                    add(f"name:{name}", {"curve": name}, f"--curve {name} does not behave as --curve {curve} (exit {rc})")
        for name in ["bn-254", "bn 254", "bn2540", "bls12-381", "bls12381", "bls12_3810", "goldilock", "goldilockss", "secp256k1", "", "BN254 ",
                     # characters whose Unicode upper-case form is an ASCII letter (long s, dotless i)
                     "goldilock\u017f", "gold\u0131locks", "bl\u017f12_381", "GOLDILOCK\u017f"]:
            rc, out, err = run_cli(exe, ["--curve", name, os.path.join(d, "table.circom")], d)
            evals += 1
            nontrivial += 1
            if rc in (0, 1):
                add(f"name:{name or 'empty'}", {"curve": name}, f"--curve `{name}` was accepted (exit {rc}); only the three curve names (in any case) may be")
    finally:
        shutil.rmtree(d, ignore_errors=True)
    return {"unit": "e2e-curves", "evaluations": evals, "distinct_nontrivial": nontrivial, "exhaustive": True,
            "rule": "the real CLI: (a) every template of the documented table (Circomlib spelling) and near-miss names instantiated under each curve: flagged as BN254-specific exactly when the table marks the pair; (b) Num2Bits(n)/Bits2Num(n) under the default curve: flagged unless n is a constant < 254; (c) LessThan inputs range-checked by Num2Bits(k) under each curve: accepted iff k < bits(p) - 1; (d) curve names in any case behave as the canonical name, other strings are rejected",
            "bound": ("n, k in 0..300" if tier == "thorough" else "n, k at and around the thresholds (0, 1, 63..65, 252..256, bits-3..bits+1, 300)") + "; 26 table rows + near misses x 3 curves; 9 accepted and 15 rejected curve spellings (near misses and non-ASCII look-alikes); plus non-constant sizes",
            "samples": samples, "violations": viol}


def suite_includes(exe, tier, seed):
    """C19 (BOUNDED): include graphs as small projects on disk; the real CLI under strace (every open of a .circom file is counted)."""
    import re
    viol, samples = [], []
    evals = nontrivial = 0
    PRAGMA = "pragma circom 2.0.0;\n"

    def tpl(name, flaw=False):
        # a template; with flaw=True it contains an unconstrained assignment (a finding located in this file)
        return f"template {name}() {{ signal input x; signal output y; y {'<--' if flaw else '<=='} x; }}\n"

    def project(files, links=None):
        d = tempfile.mkdtemp(prefix="vx-inc-")
        for rel, text in files.items():
            pth = os.path.join(d, rel)
            os.makedirs(os.path.dirname(pth), exist_ok=True)
            open(pth, "w").write(text)
        for rel, target in (links or {}).items():
            os.makedirs(os.path.dirname(os.path.join(d, rel)), exist_ok=True)
            os.symlink(os.path.join(d, target), os.path.join(d, rel))
        return d

    strace_seen = False

    def run(d, args, timeout=30):
        tr = os.path.join(d, "trace.txt")
        cmd = ["strace", "-f", "-e", "trace=openat,open", "-o", tr, exe] + args
        try:
            p = subprocess.run(cmd, cwd=d, capture_output=True, text=True, timeout=timeout)
            rc, out, err = p.returncode, p.stdout, p.stderr
        except subprocess.TimeoutExpired:
            return None, "", "", {}
        opens = {}
        nonlocal strace_seen
        if os.path.exists(tr):
            for l in open(tr):
                if "open" in l:
                    strace_seen = True
                m = re.search(r'open(?:at)?\([^"]*"([^"]+\.circom)"[^)]*\)\s*=\s*(\d+)', l)
                if m:
                    real = os.path.realpath(m.group(1) if os.path.isabs(m.group(1)) else os.path.join(d, m.group(1)))
                    opens[real] = opens.get(real, 0) + 1
        return rc, out, err, opens

    cases = []
    A = lambda inc: PRAGMA + "".join(f'include "{i}";\n' for i in inc)
    main_a = "component main = A();\n"
    # name, files, links, args, expectations: reachable (files that must be opened exactly once), analyzed (template names), findings_in (files that may carry findings), must_error (text)
    cases.append(("chain", {"a.circom": A(["b.circom"]) + tpl("A") + main_a, "b.circom": A(["c.circom"]) + tpl("B", True), "c.circom": PRAGMA + tpl("C", True)}, None, ["a.circom"],
                  dict(reachable=["a.circom", "b.circom", "c.circom"], analyzed={"A"}, findings_in=["a.circom"])))
    cases.append(("diamond", {"a.circom": A(["b.circom", "c.circom"]) + tpl("A") + main_a, "b.circom": A(["d.circom"]) + tpl("B"), "c.circom": A(["d.circom"]) + tpl("C"), "d.circom": PRAGMA + tpl("D", True)}, None, ["a.circom"],
                  dict(reachable=["a.circom", "b.circom", "c.circom", "d.circom"], analyzed={"A"}, findings_in=["a.circom"])))
    cases.append(("cycle", {"a.circom": A(["b.circom"]) + tpl("A") + main_a, "b.circom": A(["a.circom"]) + tpl("B", True)}, None, ["a.circom"],
                  dict(reachable=["a.circom", "b.circom"], analyzed={"A"}, findings_in=["a.circom"])))
    cases.append(("self-include", {"a.circom": A(["a.circom"]) + tpl("A", True) + main_a}, None, ["a.circom"],
                  dict(reachable=["a.circom"], analyzed={"A"}, findings_in=["a.circom"], findings_min=1)))
    cases.append(("spellings", {"a.circom": A(["b.circom", "./b.circom", "sub/../b.circom"]) + tpl("A") + main_a, "b.circom": PRAGMA + tpl("B", True), "sub/keep.circom": PRAGMA}, None, ["a.circom"],
                  dict(reachable=["a.circom", "b.circom"], analyzed={"A"}, findings_in=["a.circom"])))
    cases.append(("relative-to-includer", {"a.circom": A(["sub/c.circom"]) + tpl("A") + main_a, "sub/c.circom": A(["d.circom"]) + tpl("C"), "sub/d.circom": PRAGMA + tpl("D"), "d.circom": PRAGMA + "this is not circom\n"}, None, ["a.circom"],
                  dict(reachable=["a.circom", "sub/c.circom", "sub/d.circom"], not_opened=["d.circom"], analyzed={"A"}, findings_in=["a.circom"])))
    cases.append(("library", {"a.circom": A(["l.circom"]) + tpl("A") + main_a, "lib/l.circom": PRAGMA + tpl("L", True)}, None, ["-L", "lib", "a.circom"],
                  dict(reachable=["a.circom", "lib/l.circom"], analyzed={"A"}, findings_in=["a.circom"])))
    cases.append(("relative-before-library", {"a.circom": A(["l.circom"]) + tpl("A") + main_a, "l.circom": PRAGMA + tpl("L"), "lib/l.circom": PRAGMA + "this is not circom\n"}, None, ["-L", "lib", "a.circom"],
                  dict(reachable=["a.circom", "l.circom"], not_opened=["lib/l.circom"], analyzed={"A"}, findings_in=["a.circom"])))
    cases.append(("library-and-named", {"a.circom": A(["l.circom"]) + tpl("A") + main_a, "lib/l.circom": PRAGMA + tpl("L", True)}, None, ["-L", "lib", "a.circom", "lib/l.circom"],
                  dict(reachable=["a.circom", "lib/l.circom"], analyzed={"A", "L"}, findings_in=["a.circom", "lib/l.circom"], findings_min=1)))
    cases.append(("library-two-routes", {"a.circom": A(["m.circom", "l.circom"]) + tpl("A") + main_a, "lib/m.circom": A(["l.circom"]) + tpl("M"), "lib/l.circom": PRAGMA + tpl("L", True)}, None, ["-L", "lib", "a.circom"],
                  dict(reachable=["a.circom", "lib/m.circom", "lib/l.circom"], analyzed={"A"}, findings_in=["a.circom"])))
    cases.append(("symlink", {"a.circom": A(["b.circom", "link.circom"]) + tpl("A") + main_a, "b.circom": PRAGMA + tpl("B", True)}, {"link.circom": "b.circom"}, ["a.circom"],
                  dict(reachable=["a.circom", "b.circom"], analyzed={"A"}, findings_in=["a.circom"])))
    cases.append(("both-named", {"a.circom": A(["b.circom"]) + tpl("A") + main_a, "b.circom": PRAGMA + tpl("B", True)}, None, ["a.circom", "b.circom"],
                  dict(reachable=["a.circom", "b.circom"], analyzed={"A", "B"}, findings_in=["a.circom", "b.circom"], findings_min=1)))
    cases.append(("both-named-included-one-first", {"a.circom": A(["b.circom"]) + tpl("A") + main_a, "b.circom": PRAGMA + tpl("B", True)}, None, ["b.circom", "a.circom"],
                  dict(reachable=["a.circom", "b.circom"], analyzed={"A", "B"}, findings_in=["a.circom", "b.circom"], findings_min=1)))
    cases.append(("named-twice-and-included", {"a.circom": A(["b.circom"]) + tpl("A") + main_a, "b.circom": PRAGMA + tpl("B", True)}, None, ["b.circom", "a.circom", "./b.circom"],
                  dict(reachable=["a.circom", "b.circom"], analyzed={"A", "B"}, findings_in=["a.circom", "b.circom"], findings_min=1)))
    cases.append(("library-file-single-component", {"a.circom": PRAGMA + 'include "gadgets/l.circom";\n' + tpl("A") + main_a, "lib/l.circom": PRAGMA + tpl("L")}, None, ["-L", "lib/l.circom", "a.circom"],
                  dict(reachable=["a.circom"], not_opened=["lib/l.circom"], must_error=("gadgets/l.circom", "a.circom:2"))))
    cases.append(("library-file-not-for-dot-paths", {"a.circom": PRAGMA + 'include "./l.circom";\n' + tpl("A") + main_a, "lib/l.circom": PRAGMA + tpl("L")}, None, ["-L", "lib/l.circom", "a.circom"],
                  dict(reachable=["a.circom"], must_error=("./l.circom", "a.circom:2"))))
    cases.append(("library-file-by-name", {"a.circom": PRAGMA + 'include "l.circom";\n' + tpl("A") + main_a, "lib/l.circom": PRAGMA + tpl("L", True)}, None, ["-L", "lib/l.circom", "a.circom"],
                  dict(reachable=["a.circom", "lib/l.circom"], analyzed={"A"}, findings_in=["a.circom"])))
    cases.append(("library-directory-subpath", {"a.circom": PRAGMA + 'include "sub/l.circom";\n' + tpl("A") + main_a, "lib/sub/l.circom": PRAGMA + tpl("L", True)}, None, ["-L", "lib", "a.circom"],
                  dict(reachable=["a.circom", "lib/sub/l.circom"], analyzed={"A"}, findings_in=["a.circom"])))
    cases.append(("unresolved-in-included-file-named-too", {"a.circom": A(["b.circom"]) + tpl("A") + main_a, "b.circom": PRAGMA + 'include "nowhere.circom";\n' + tpl("B")}, None, ["a.circom", "b.circom"],
                  dict(reachable=["a.circom", "b.circom"], must_error=("nowhere.circom", "b.circom:2"))))
    cases.append(("unresolved", {"a.circom": PRAGMA + "\n" + 'include "nowhere.circom";\n' + tpl("A") + main_a}, None, ["a.circom"],
                  dict(reachable=["a.circom"], must_error=("nowhere.circom", "a.circom:3"))))
    # an include that names a directory is not resolved by it: it is looked up in the libraries, and reported at the include otherwise
    cases.append(("include-names-a-directory", {"a.circom": PRAGMA + 'include "sub";\n' + tpl("A") + main_a, "sub/keep.circom": PRAGMA}, None, ["a.circom"],
                  dict(reachable=["a.circom"], must_error=("sub", "a.circom:2"))))
    cases.append(("include-names-the-current-directory", {"a.circom": PRAGMA + 'include ".";\n' + tpl("A") + main_a}, None, ["a.circom"],
                  dict(reachable=["a.circom"], must_error=(".", "a.circom:2"))))
    cases.append(("directory-shadows-library-file", {"a.circom": A(["u.circom"]) + tpl("A") + main_a, "u.circom/keep.txt": "", "lib/u.circom": PRAGMA + tpl("U", True)}, None, ["-L", "lib", "a.circom"],
                  dict(reachable=["a.circom", "lib/u.circom"], analyzed={"A"}, findings_in=["a.circom"])))
    # a library file that is a symbolic link is known by the name it was given with, not by the name of its target
    cases.append(("library-file-is-a-symlink", {"a.circom": A(["poseidon.circom"]) + tpl("A") + main_a, "store/abc123.circom": PRAGMA + tpl("P", True)}, {"links/poseidon.circom": "store/abc123.circom"}, ["-L", "links/poseidon.circom", "a.circom"],
                  dict(reachable=["a.circom", "store/abc123.circom"], analyzed={"A"}, findings_in=["a.circom"])))
    cases.append(("library-file-symlink-target-name-not-offered", {"a.circom": A(["abc123.circom"]) + tpl("A") + main_a, "store/abc123.circom": PRAGMA + tpl("P", True)}, {"links/poseidon.circom": "store/abc123.circom"}, ["-L", "links/poseidon.circom", "a.circom"],
                  dict(reachable=["a.circom"], must_error=("abc123.circom", "a.circom:2"))))
    # a named directory that contains symbolic links to itself and to its parent: walked once
    cases.append(("directory-with-links-to-itself", {"d/a.circom": PRAGMA + tpl("A", True), "d/sub/b.circom": PRAGMA + tpl("B", True)}, {"d/loop1": "d", "d/loop2": "d", "d/sub/up": "d"}, ["d"],
                  dict(reachable=["d/a.circom", "d/sub/b.circom"], analyzed={"A", "B"})))
    for (name, files, links, args, exp) in cases:
        d = project(files, links)
        try:
            rc, out, err, opens = run(d, args)
            evals += 1
            nontrivial += 1
            if len(samples) < 6:
                samples.append({"case": name, "exit": rc, "files_opened": len(opens)})
            problems = []
            if rc is None:
                problems.append("the tool did not terminate within 30 s")
            elif rc not in (0, 1) or "panicked" in err:
                problems.append(f"the tool aborted (exit {rc})")
            else:
                for rel in exp.get("reachable", []) if strace_seen else []:   # no trace at all (ptrace not permitted): open counts are not judged
                    n = opens.get(os.path.realpath(os.path.join(d, rel)), 0)
                    if n != 1:
                        problems.append(f"`{rel}` was opened {n} times (expected exactly once)")
                for rel in exp.get("not_opened", []):
                    if opens.get(os.path.realpath(os.path.join(d, rel)), 0) != 0:
                        problems.append(f"`{rel}` was opened although a file found earlier in the resolution order shadows it")
                if "analyzed" in exp:
                    got = set(re.findall(r"analyzing template '(\w+)'", out))
                    if got != exp["analyzed"]:
                        problems.append(f"templates analyzed: {sorted(got)}, expected {sorted(exp['analyzed'])}")
                if "findings_in" in exp:
                    allowed = {os.path.realpath(os.path.join(d, r)) for r in exp["findings_in"]}
                    locs = re.findall(r"┌─ ([^\s:]+\.circom):\d+:\d+", out)
                    bad = [l for l in locs if os.path.realpath(l if os.path.isabs(l) else os.path.join(d, l)) not in allowed]
                    if bad:
                        problems.append(f"findings located in files that were only included: {sorted(set(os.path.basename(b) for b in bad))}")
                    nfind = len(findings_of(out))
                    if nfind < exp.get("findings_min", 0):
                        problems.append(f"{nfind} findings displayed, at least {exp['findings_min']} expected for the named files")
                if "must_error" in exp:
                    what, where = exp["must_error"]
                    if rc != 1 or what not in out or where not in out:
                        problems.append(f"an include that cannot be resolved must give an error naming `{what}` located at {where} (exit {rc})")
            for pr in problems[:2]:
                if len(viol) < 20:
                    viol.append({"unit": "e2e", "fn": "FileStack / parse_files", "obligation": f"e2e|includes|{name}", "props": ["C19"] if "aborted" not in pr and "terminate" not in pr else ["C19", "C01"],
                                 "input": {"case": name, "args": args, "files": files}, "what": f"{name}: {pr} — `circomspect {' '.join(args)}`", "replay": "python3 run/e2e.py includes quick 0"})
        finally:
            shutil.rmtree(d, ignore_errors=True)
    return {"unit": "e2e-includes", "evaluations": evals, "distinct_nontrivial": nontrivial, "exhaustive": False,
            "rule": "the real CLI under strace on small multi-file projects: it terminates with exit 0/1; every reachable file is opened exactly once whatever paths or spellings lead to it; a shadowed file is not opened; only templates of the files named on the command line are analyzed and only those files carry findings; an unresolvable include is an error located at the include statement",
            "strace_available": strace_seen,
            "bound": "26 include graphs (5 more on library files answering only single-component includes, library sub-paths, an unresolvable include in a file that is both included and named): chain, diamond, cycle, self-include, ./ and ../ spellings, resolution relative to the including file, -L library, relative-before-library, a library file that is also named, a library file reached by two routes, symlink, both files named (either order), a file named twice and included, unresolved include",
            "samples": samples, "violations": viol}


def totality_cases(tier):
    """grammar-valid but unusual programs: (name, source, extra args)"""
    P = "pragma circom 2.0.0;\n"
    cases = []
    # Circomlib's template names with every small arity (the passes match on names)
    for name in ["Num2Bits", "Bits2Num", "LessThan", "Sign", "AliasCheck", "Poseidon", "Num2Bits_strict"]:
        for ar in range(0, 4):
            params = ", ".join(f"p{i}" for i in range(ar))
            args = ", ".join(str(7 + i) for i in range(ar))
            src = (P + f"template {name}({params}) {{ signal input in; signal output out; out <== in; }}\n"
                   f"template Main() {{ signal input x; signal output y; component c = {name}({args}); c.in <== x; y <== c.out; }}\ncomponent main = Main();\n")
            for curve in (["BN254", "BLS12_381", "GOLDILOCKS"] if tier == "thorough" or ar != 1 else ["BN254"]):
                cases.append((f"arity:{name}/{ar}/{curve}", src, ["--curve", curve]))
    def T(body, decl="signal input x; signal output y;"):
        return P + f"template Main() {{ {decl}\n{body}\n}}\ncomponent main = Main();\n"
    big = "9" * 400
    cases += [
        ("empty-template", P + "template Main() {}\ncomponent main = Main();\n", []),
        ("only-declarations", T("var a; var b[3]; signal s;"), []),
        ("function-only", P + "function f(a) { return a; }\n", []),
        ("function-no-params", P + "function f() { return 1; }\ntemplate Main() { signal output y; y <== f(); }\ncomponent main = Main();\n", []),
        ("nested-if-30", T("var v = 0;\n" + "".join(f"if (x == {i}) {{ " for i in range(30)) + "v = 1;" + " }" * 30 + "\ny <== x + v;"), []),
        ("nested-loops-8", T("var v = 0;\n" + "".join(f"for (var i{i} = 0; i{i} < 2; i{i}++) {{ " for i in range(8)) + "v += 1;" + " }" * 8 + "\ny <== x + v;"), []),
        ("paren-depth-300", T("y <== " + "(" * 300 + "x" + ")" * 300 + ";"), []),
        ("sum-chain-2000", T("y <== " + " + ".join(["x"] * 2000) + ";"), []),
        # a 69-line function produced by the scopes generator: ifs, whiles and a for nested three deep around one counter
        ("nested-control-flow-function", open(os.path.join(os.path.dirname(os.path.abspath(__file__)), "fixtures", "nested_control_flow_function.circom")).read(), []),
        ("nested-index-20", T("y <== " + "a[" * 20 + "0" + "]" * 20 + ";", "signal input a[4]; signal output y;"), []),
        ("nested-index-40-in-condition", T("var v = 0; if (" + "a[" * 40 + "0" + "]" * 40 + " == 1) { v = 1; }\ny <== a[0] + v;", "signal input a[4]; signal output y;"), []),
        ("unary-chain-200", T("var v = " + "-" * 200 + "1;\ny <== x + v;"), []),
        ("not-chain-200", T("var v = " + "!" * 200 + "1;\ny <== x + v;"), []),
        ("huge-decimal-literal", T(f"var v = {big};\ny <== x + v;"), []),
        ("huge-literal-in-shift", T(f"var v = 1 << {big};\nvar w = {big} >> 3;\ny <== x + v + w;"), []),
        ("huge-literal-in-pow", T(f"var v = 2 ** {big};\ny <== x + v;"), []),
        ("hex-literal", T("var v = 0xFFFFFFFFFFFFFFFFFFFFFFFFFFFFFFFFFFFFFFFFFFFFFFFFFFFFFFFFFFFFFFFFFFFFFFFF;\ny <== x + v;"), []),
        ("division-by-constant-zero", T("var a = 1 / 0; var b = 5 \\ 0; var c = 5 % 0;\ny <== x + a + b + c;"), []),
        ("zero-dimension-array", T("var a[0]; signal s[0];\ny <== x;"), []),
        ("log-many-args", T("log(" + ", ".join(["x"] * 200) + ");\ny <== x;"), []),
        ("assert-false", T("assert(0);\ny <== x;"), []),
        ("comparison-chain", T("var v = ((((x < 1) < 2) <= 3) > 4) >= 5;\ny <== x + v;"), []),
        ("ternary-nest-100", T("var v = " + "".join(f"x == {i} ? {i} : " for i in range(100)) + "0;\ny <== x + v;"), []),
        ("while-false", T("var v = 0; while (0) { v += 1; }\ny <== x + v;"), []),
        ("bare-bodies", T("var v = 0; if (x == 1) v = 1; else v = 2; for (var i = 0; i < 2; i++) v += i; while (v < 3) v++;\ny <== x;"), []),
        ("component-array", P + "template A() { signal input in; signal output out; out <== in; }\ntemplate Main() { signal input x; signal output y; component c[3]; for (var i = 0; i < 3; i++) { c[i] = A(); c[i].in <== x; } y <== c[2].out; }\ncomponent main = Main();\n", []),
        ("many-templates-300", P + "".join(f"template T{i}() {{ signal input a; signal output b; b <== a; }}\n" for i in range(300)) + "component main = T0();\n", []),
        ("long-identifier", T("var " + "v" * 3000 + " = 1;\ny <== x + " + "v" * 3000 + ";"), []),
        ("main-with-public-list", P + "template Main() { signal input x; signal input z; signal output y; y <== x * z; }\ncomponent main {public [x, z]} = Main();\n", []),
        ("pragma-custom-templates", "pragma circom 2.1.0;\npragma custom_templates;\ntemplate custom C() { signal input a; signal output b; b <-- a; }\ntemplate Main() { signal input x; signal output y; component c = C(); c.a <== x; y <== c.b; }\ncomponent main = Main();\n", []),
    ]
    # grammar-valid programs with semantic errors (undeclared or duplicate names, wrong arities, misplaced constructs)
    A1 = "template A() { signal input in; signal output out; out <== in; }\n"
    cases += [
        ("undeclared-variable", T("y <== x + nowhere;"), []),
        ("undeclared-assigned", T("nowhere = 1;\ny <== x;"), []),
        ("undeclared-array", T("y <== nowhere[3];"), []),
        ("undefined-template", T("component c = Nowhere();\ny <== x;"), []),
        ("undefined-template-anonymous", T("y <== Nowhere()(x);"), []),
        ("undefined-template-anonymous-tuple", T("signal z;\n(y, z) <== Nowhere()(x, x);"), []),
        ("undefined-function", T("var v = nowhere(1);\ny <== x + v;"), []),
        ("anonymous-too-many-inputs", P + A1 + "template Main() { signal input x; signal output y; y <== A()(x, x, x); }\ncomponent main = Main();\n", []),
        ("anonymous-too-few-inputs", P + A1 + "template Main() { signal input x; signal output y; y <== A()(); }\ncomponent main = Main();\n", []),
        ("anonymous-unknown-named-input", P + A1 + "template Main() { signal input x; signal output y; y <== A()(nope <== x); }\ncomponent main = Main();\n", []),
        ("anonymous-duplicate-named-input", P + A1 + "template Main() { signal input x; signal output y; y <== A()(in <== x, in <== x); }\ncomponent main = Main();\n", []),
        ("anonymous-with-template-params-mismatch", P + "template B(n) { signal input in; signal output out; out <== in * n; }\ntemplate Main() { signal input x; signal output y; y <== B()(x); }\ncomponent main = Main();\n", []),
        ("anonymous-in-function", P + A1 + "function f(a) { var r = A()(a); return r; }\ntemplate Main() { signal input x; signal output y; y <== x + f(1); }\ncomponent main = Main();\n", []),
        ("anonymous-nested", P + A1 + "template Main() { signal input x; signal output y; y <== A()(A()(A()(x))); }\ncomponent main = Main();\n", []),
        ("anonymous-in-condition", P + A1 + "template Main() { signal input x; signal output y; var v = 0; if (A()(x) == 1) { v = 1; } y <== x + v; }\ncomponent main = Main();\n", []),
        ("anonymous-in-array-index", P + A1 + "template Main() { signal input x; signal output y; var a[2]; a[A()(x)] = 1; y <== x; }\ncomponent main = Main();\n", []),
        ("anonymous-in-assert", P + A1 + "template Main() { signal input x; signal output y; assert(A()(x) == 1); y <== x; }\ncomponent main = Main();\n", []),
        ("anonymous-in-while-condition", P + A1 + "template Main() { signal input x; signal output y; var v = 0; while (A()(x) == 1) { v += 1; } y <== x + v; }\ncomponent main = Main();\n", []),
        ("anonymous-in-for-step", P + A1 + "template Main() { signal input x; signal output y; var v = 0; for (var i = 0; i < 2; i += A()(x)) { v += 1; } y <== x + v; }\ncomponent main = Main();\n", []),
        ("anonymous-in-rhs-index", P + A1 + "template Main() { signal input x; signal output y; var a[2]; y <== x + a[A()(x)]; }\ncomponent main = Main();\n", []),
        ("anonymous-in-infix", P + A1 + "template Main() { signal input x; signal output y; y <== A()(x) + 1; }\ncomponent main = Main();\n", []),
        ("anonymous-in-ternary", P + A1 + "template Main() { signal input x; signal output y; var v = x == 0 ? A()(x) : 2; y <== x + v; }\ncomponent main = Main();\n", []),
        ("anonymous-in-call-argument", P + A1 + "function f(a) { return a; }\ntemplate Main() { signal input x; signal output y; var v = f(A()(x)); y <== x + v; }\ncomponent main = Main();\n", []),
        ("anonymous-in-component-index", P + A1 + "template Main() { signal input x; signal output y; component c[2]; c[0] = A(); c[1] = A(); c[A()(x)].in <== x; c[1].in <== x; y <== c[0].out; }\ncomponent main = Main();\n", []),
        ("anonymous-in-template-argument", P + A1 + "template B(n) { signal input in; signal output out; out <== in * n; }\ntemplate Main() { signal input x; signal output y; component c = B(A()(x)); c.in <== x; y <== c.out; }\ncomponent main = Main();\n", []),
        ("anonymous-in-anonymous-parameter", P + A1 + "template B(n) { signal input in; signal output out; out <== in * n; }\ntemplate Main() { signal input x; signal output y; y <== B(A()(x))(x); }\ncomponent main = Main();\n", []),
        ("anonymous-in-declaration-init", P + A1 + "template Main() { signal input x; signal output y; var v = A()(x); signal s <== A()(x); y <== x + v + s; }\ncomponent main = Main();\n", []),
        ("anonymous-in-log-nested", P + A1 + "template Main() { signal input x; signal output y; log(1 + A()(x)); y <== x; }\ncomponent main = Main();\n", []),
        ("anonymous-in-return-of-function", P + A1 + "function f(a) { return A()(a); }\ntemplate Main() { signal input x; signal output y; y <== x + f(1); }\ncomponent main = Main();\n", []),
        ("tuple-in-tuple-element-infix", T("signal z;\n(y, z) <== (x, x + (1, 2));"), []),
        ("tuple-in-tuple-element-ternary", T("signal z;\n(y, z) <== (x, x == 0 ? (1, 2) : 3);"), []),
        ("tuple-in-tuple-element-call-argument", P + "function g(a) { return a; }\ntemplate Main() { signal input x; signal output y; signal z; (y, z) <== (x, g((1, 2))); }\ncomponent main = Main();\n", []),
        ("tuple-in-tuple-element-inline-array", T("var a[2]; var b; (a, b) = ([(1, 2), 3], 4);\ny <== x;"), []),
        ("tuple-in-destination-tuple-index", T("signal z[2];\n(y, z[(0, 1)]) <== (x, x);"), []),
        ("tuple-in-tuple-element-prefix", T("signal z;\n(y, z) <== (x, -(1, 2));"), []),
        ("tuple-in-component-index", P + A1 + "template Main() { signal input x; signal output y; component c[2]; c[0] = A(); c[1] = A(); c[(0, 1)].in <== x; c[1].in <== x; y <== c[0].out; }\ncomponent main = Main();\n", []),
        ("tuple-in-template-argument", P + "template B(n) { signal input in; signal output out; out <== in * n; }\ntemplate Main() { signal input x; signal output y; component c = B((1, 2)); c.in <== x; y <== c.out; }\ncomponent main = Main();\n", []),
        ("tuple-in-for-step", T("var v = 0; for (var i = 0; i < 2; i += (1, 2)) { v += 1; }\ny <== x + v;"), []),
        ("tuple-in-ternary-condition", T("var v = (1, 2) ? 1 : 2;\ny <== x + v;"), []),
        ("parallel-component", P + A1 + "template Main() { signal input x; signal output y; component c = parallel A(); c.in <== x; y <== c.out; }\ncomponent main = Main();\n", []),
        ("parallel-anonymous", P + A1 + "template Main() { signal input x; signal output y; y <== parallel A()(x); }\ncomponent main = Main();\n", []),
        ("parallel-on-number", T("var v = parallel 3;\ny <== x + v;"), []),
        ("duplicate-declaration", T("var a = 1; var a = 2;\ny <== x + a;"), []),
        ("duplicate-signal", T("signal s; signal s;\ny <== x;"), []),
        ("duplicate-parameter", P + "template D(n, n) { signal input x; signal output y; y <== x * n; }\ncomponent main = D(1, 2);\n", []),
        ("duplicate-template", P + A1 + A1 + "component main = A();\n", []),
        ("two-mains", P + A1 + "component main = A();\ncomponent main = A();\n", []),
        ("main-undefined-template", P + "component main = Nowhere();\n", []),
        ("main-wrong-arity", P + A1 + "component main = A(1, 2, 3);\n", []),
        ("return-in-template", T("return 1;\ny <== x;"), []),
        ("signal-in-function", P + "function f(a) { signal s; s <== a; return a; }\n", []),
        ("signal-declared-in-loop", T("for (var i = 0; i < 2; i++) { signal s; s <== x; }\ny <== x;"), []),
        ("component-declared-in-if", P + A1 + "template Main() { signal input x; signal output y; if (x == 0) { component c = A(); c.in <== x; } y <== x; }\ncomponent main = Main();\n", []),
        ("recursive-function", P + "function f(a) { return f(a) + 1; }\ntemplate Main() { signal input x; signal output y; y <== x + f(1); }\ncomponent main = Main();\n", []),
        ("recursive-template", P + "template R(n) { signal input x; signal output y; component r = R(n); r.x <== x; y <== r.y; }\ncomponent main = R(3);\n", []),
        ("tuple-arity-mismatch-anonymous", P + "template Two() { signal input a; signal output o; signal output r; o <== a; r <== a; }\ntemplate Main() { signal input x; signal output y; signal z; signal w; (y, z, w) <== Two()(x); }\ncomponent main = Main();\n", []),
        ("tuple-destination-not-variable", T("signal z;\n(y + 1, z) <== (x, x);"), []),
        ("access-on-number", T("y <== 3[0];") , []),
        ("component-access-on-var", T("var v = 1;\ny <== v.out;"), []),
        ("array-of-arrays-access", T("var a[2][3];\na[1][2] = 5;\ny <== x + a[1][2] + a[0][0];"), []),
        ("negative-array-size", T("var a[0 - 1];\ny <== x;"), []),
        ("signal-tags", "pragma circom 2.1.0;\ntemplate Main() { signal input {binary} x; signal output {binary, maxbit} y; y <== x; }\ncomponent main = Main();\n", []),
        ("bus-like-underscore-names", T("var _ = 1; var __a = 2;\ny <== x + __a;"), []),
    ]
    # shapes aimed at the individual analysis passes
    LIB = ("template Num2Bits(n) { signal input in; signal output out[n]; for (var i = 0; i < n; i++) { out[i] <-- (in >> i) & 1; out[i] * (out[i] - 1) === 0; } }\n"
           "template LessThan(n) { signal input in[2]; signal output out; out <-- in[0] < in[1]; }\n")
    cases += [
        ("division-by-signal", T("signal q; q <-- x / y; q * y === x;", "signal input x; signal input y;"), []),
        ("intdiv-and-mod-by-signal", T("signal q; signal r; q <-- x \\ y; r <-- x % y; q * y + r === x;", "signal input x; signal input y;"), []),
        ("division-in-constraint", T("y <== x / 3;"), []),
        ("comparison-of-signals", T("var v = 0; if (x > 5) { v = 1; } y <-- x < 3 ? 1 : 0; y * (y - 1) === 0;"), []),
        ("bitwise-on-signals", T("y <-- (x & 255) | (~x ^ 3);"), []),
        ("shift-signal-by-signal", T("y <-- x << x;"), []),
        ("lessthan-array-of-num2bits", P + LIB + "template Main(n) { signal input a[3]; signal output ok; component n2b[3]; for (var i = 0; i < 3; i++) { n2b[i] = Num2Bits(n); n2b[i].in <== a[i]; } component lt = LessThan(n); lt.in[0] <== a[0]; lt.in[1] <== a[1]; ok <== lt.out; }\ncomponent main = Main(8);\n", []),
        ("lessthan-same-signal-twice", P + LIB + "template Main() { signal input a; signal output ok; component lt = LessThan(8); lt.in[0] <== a; lt.in[1] <== a; ok <== lt.out; }\ncomponent main = Main();\n", []),
        ("lessthan-inputs-from-expressions", P + LIB + "template Main() { signal input a; signal output ok; component lt = LessThan(8); lt.in[0] <== a * a; lt.in[1] <== 3; ok <== lt.out; }\ncomponent main = Main();\n", []),
        ("lessthan-unassigned-inputs", P + LIB + "template Main() { signal input a; signal output ok; component lt = LessThan(8); ok <== lt.out; }\ncomponent main = Main();\n", []),
        ("num2bits-size-from-expression", P + LIB + "template Main(n) { signal input a; signal output b; component c = Num2Bits(n * 2 + 254); c.in <== a; b <== c.out[0]; }\ncomponent main = Main(1);\n", []),
        ("multi-dimensional-signals", T("signal s[2][3]; for (var i = 0; i < 2; i++) { for (var j = 0; j < 3; j++) { s[i][j] <== x * (i + j); } } y <== s[1][2];"), []),
        ("component-matrix", P + "template A() { signal input in; signal output out; out <== in; }\ntemplate Main() { signal input x; signal output y; component c[2][2]; for (var i = 0; i < 2; i++) { for (var j = 0; j < 2; j++) { c[i][j] = A(); c[i][j].in <== x; } } y <== c[1][1].out; }\ncomponent main = Main();\n", []),
        ("output-never-assigned", T(""), []),
        ("input-assigned", T("x <== 3;\ny <== x;"), []),
        ("signal-assigned-twice", T("y <== x;\ny <== x + 1;"), []),
        ("constraint-without-signals", T("1 === 1;\n2 === 3;\ny <== x;"), []),
        ("function-return-in-branches", P + "function f(a) { if (a == 0) { return 1; } else { if (a == 1) { return 2; } } return 3; }\ntemplate Main() { signal input x; signal output y; y <== x * f(2); }\ncomponent main = Main();\n", []),
        ("function-without-return", P + "function f(a) { var b = a; }\ntemplate Main() { signal input x; signal output y; y <== x * f(2); }\ncomponent main = Main();\n", []),
        ("function-array-result", P + "function f(a) { var r[3]; for (var i = 0; i < 3; i++) { r[i] = a + i; } return r; }\ntemplate Main() { signal input x; signal output y; var t[3] = f(1); y <== x * t[2]; }\ncomponent main = Main();\n", []),
        ("loop-with-break-like-condition", T("var i = 0; while (i < 10 && x == x) { i++; }\ny <== x * i;"), []),
        ("postfix-and-compound-ops", T("var i = 0; i++; i--; i += 2; i -= 1; i *= 3; i /= 1; i **= 2; i %= 7; i <<= 1; i >>= 1; i &= 255; i |= 1; i ^= 2; i \\= 1;\ny <== x * i;"), []),
        ("many-findings-200", T("".join(f"var u{i} = {i};\n" for i in range(200)) + "y <== x;"), []),
        ("verbose-and-level-error", T("var unused = 1;\ny <-- x;"), ["-v", "--level", "error"]),
        ("allow-unknown-id", T("var unused = 1;\ny <-- x;"), ["--allow", "CS9999", "--allow", "P0000"]),
        ("library-directory-missing", T("y <== x;"), ["-L", "/nonexistent-dir-for-test"]),
    ]
    # size and nesting
    cases += [
        ("array-literal-5000", T("var a[5000] = [" + ", ".join(str(i % 7) for i in range(5000)) + "];\ny <== x + a[3];"), []),
        ("array-dimension-huge", T("var a[100000000]; signal s[4294967296];\ny <== x;"), []),
        ("block-nesting-500", T("{" * 500 + " y <== x; " + "}" * 500), []),
        ("product-chain-300", T("y <-- " + " * ".join(["x"] * 300) + ";"), []),
        ("right-nested-sum-300", T("y <== " + "".join("x + (" for _ in range(300)) + "x" + ")" * 300 + ";"), []),
        ("thousand-signals", T("".join(f"signal s{i}; s{i} <== x + {i};\n" for i in range(1000)) + "y <== s999;"), []),
        ("thousand-statements-in-loop-nest", T("var v = 0;\nfor (var i = 0; i < 3; i++) {\n" + "".join(f"v += {i};\n" for i in range(1000)) + "}\ny <== x + v;"), []),
        ("hundred-components", P + "template A() { signal input in; signal output out; out <== in; }\ntemplate Main() { signal input x; signal output y;\n" + "".join(f"component c{i} = A(); c{i}.in <== x;\n" for i in range(100)) + "y <== c99.out; }\ncomponent main = Main();\n", []),
        ("mutual-recursion", P + "function f(a) { return g(a) + 1; }\nfunction g(a) { return f(a) + 1; }\ntemplate Main() { signal input x; signal output y; y <== x + f(1); }\ncomponent main = Main();\n", []),
        ("nested-ternary-right", T("var v = x == 0 ? 1 : x == 1 ? 2 : x == 2 ? 3 : 4;\ny <== x + v;"), []),
        ("operator-zoo", T("var v = ((1 \\ 2) ** 3 >> 1 << 2 & 7 | 8 ^ 9) % 5 + (-1) - (~2) * (!0);\ny <== x + v;"), []),
        ("log-empty-and-strings", T('log(); log("a", "b", x); log("");\ny <== x;'), []),
        ("while-true-like", T("var i = 0; while (1) { i += 1; }\ny <== x + i;"), []),
        ("for-without-braces-nested", T("var v = 0; for (var i = 0; i < 2; i++) for (var j = 0; j < 2; j++) if (i == j) v += 1; else v -= 1;\ny <== x + v;"), []),
        ("signal-array-in-loop-bounds", T("signal s[3]; var n = 3; for (var i = 0; i < n; i++) { s[i] <== x * i; } y <== s[n - 1];"), []),
    ]
    # assignments whose left-hand side is not a variable (the grammar accepts any expression there), in templates and functions
    LHS = {"sum": "a + 1", "call": "g(2)", "number": "3", "minus": "-a", "array": "[a, a]", "ternary": "a == 0 ? a : a", "parens": "(a)", "index-sum": "b[0] + 1", "parens-index": "(b)[0]"}
    for (ln, lhs) in LHS.items():
        for (on, op) in (("var", "="), ("constraint", "<=="), ("signal", "<--"), ("compound", "+="), ("right-signal", "-->"), ("right-constraint", "==>")):
            stmt = f"3 {op} {lhs};" if on.startswith("right") else f"{lhs} {op} 3;"
            cases.append((f"lhs:{ln}/{on}/template", P + "function g(a) { return a; }\ntemplate Main() { signal input x; signal output y; var a = 1; var b[2]; " + stmt + " y <== x; }\ncomponent main = Main();\n", []))
            cases.append((f"lhs:{ln}/{on}/function", P + "function g(a) { return a; }\nfunction f(a) { var b[2]; " + stmt + " return a; }\ntemplate Main() { signal input x; signal output y; y <== x * f(2); }\ncomponent main = Main();\n", []))
    # lexer-level and byte-level inputs (bytes objects are written verbatim)
    cases += [
        ("hex-without-digits", T("var v = 0x;\ny <== x + v;"), []),
        ("hex-upper-prefix", T("var v = 0X1F;\ny <== x + v;"), []),
        ("number-then-identifier", T("var v = 12abc;\ny <== x + v;"), []),
        ("empty-file", "", []),
        ("only-whitespace", " \n\t\r\n", []),
        ("only-comment-opener", "/*", []),
        ("only-pragma", "pragma circom 2.0.0;\n", []),
        ("bom-prefix", "\ufeff" + T("y <== x;"), []),
        ("invalid-utf8", b"pragma circom 2.0.0;\ntemplate Main() { signal input x; signal output y; y <== x; } // \xff\xfe\xc3\x28\ncomponent main = Main();\n", []),
        ("nul-bytes", b"pragma circom 2.0.0;\n\x00\x00template Main() { signal input x; signal output y; y <== x; }\ncomponent main = Main();\n", []),
        ("unbalanced-braces", P + "template Main() { signal input x; signal output y; y <== x; \n", []),
        ("unbalanced-parens", T("y <== ((((x;"), []),
        ("string-unterminated", T('log("abc);\ny <== x;'), []),
        ("long-line-200k", T("y <== x; //" + "a" * 200000), []),
        ("non-ascii-identifiers", T("var \u00e9t\u00e9 = 1;\ny <== x;"), []),
        ("non-ascii-in-error-position", P + "template Main() { signal input x; signal output y; y <== x \u00e9\u00e9\u00e9 ; }\ncomponent main = Main();\n", []),
        ("log-string-non-ascii-300", T('log("a' + "\u00e9" * 300 + '");\ny <== x;'), []),
        ("log-string-ascii-1000", T('log("' + "b" * 1000 + '");\ny <== x;'), []),
        ("log-string-4-byte-chars", T('log("' + "\U0001F600" * 100 + '");\ny <== x;'), []),
        ("include-empty-path", P + 'include "";\ntemplate Main() { signal input x; signal output y; y <== x; }\ncomponent main = Main();\n', []),
        ("pragma-version-garbage", "pragma circom 99999999999999999999.0.0;\ntemplate Main() { signal input x; signal output y; y <== x; }\ncomponent main = Main();\n", []),
    ]
    return cases


def suite_totality(exe, tier, seed):
    viol, samples = [], []
    evals = nontrivial = 0
    d = tempfile.mkdtemp(prefix="vx-e2e-")
    try:
        for (name, src, args) in totality_cases(tier):
            path = os.path.join(d, "t.circom")
            if isinstance(src, bytes):
                open(path, "wb").write(src)
            else:
                open(path, "w").write(src)
            t0 = time.time()
            rc, out, err = run_cli(exe, args + [path], d, timeout=60)
            dt = time.time() - t0
            evals += 1
            nontrivial += 1
            if len(samples) < 6 and evals % 17 == 1:
                samples.append({"case": name, "exit": rc, "seconds": round(dt, 2)})
            what = None
            if rc is None:
                what = "the tool did not terminate within 60 s"
            elif "panicked" in err or "overflowed its stack" in err or rc not in (0, 1):
                first = next((l for l in err.split("\n") if "panicked" in l or "overflow" in l), err[:200])
                what = f"the tool aborted (exit {rc}): {first.strip()[:200]}"
            elif "circomspect:" not in out:
                what = f"no summary line was printed (exit {rc})"
            if what and len(viol) < 20:
                viol.append({"unit": "e2e", "fn": "whole tool", "obligation": f"e2e|totality|{name}", "props": ["C01", "C18"] if name.startswith(("anonymous-", "tuple-", "undefined-template-anonymous", "parallel-anonymous")) else ["C01"],
                             "input": {"case": name, "args": args, "source_bytes": len(src), "source_head": (src[:400].decode("latin-1") if isinstance(src, bytes) else src[:400])},
                             "what": f"{name}: {what}", "replay": "python3 run/e2e.py totality quick 0"})
    finally:
        shutil.rmtree(d, ignore_errors=True)
    return {"unit": "e2e-totality", "evaluations": evals, "distinct_nontrivial": nontrivial, "exhaustive": False,
            "rule": "the real CLI on grammar-valid but unusual programs: it terminates within 60 s with exit status 0 or 1, prints its summary line, and neither panics nor overflows its stack",
            "bound": "templates with Circomlib's names and every arity 0..3 under the curves; 27 structural oddities, 63 grammar-valid programs with semantic errors (undeclared / duplicate names, wrong arities, anonymous components and tuples in every unusual place, misplaced constructs) 108 assignments whose left-hand side is not a variable (9 expressions x 6 operators, in a template and in a function), 15 size / nesting stress shapes (5000-element array literals, 500 nested blocks, 300-factor products, 1000 signals, 100 components, mutual recursion), 26 shapes aimed at the individual passes and options (divisions and comparisons of signals, LessThan / Num2Bits wiring, component matrices, functions without return, all compound operators, 200 findings, --allow / --level / -L oddities) and 21 lexer- and byte-level inputs (long and non-ASCII string literals in log, hex prefix without digits, empty file, invalid UTF-8, NUL bytes, BOM, unbalanced brackets, 200 000-character lines, non-ASCII text at error positions; empty bodies, deep nesting of ifs / loops / parentheses / ternaries, 2000-term sums, 200-fold unary chains, 400-digit literals in shifts and powers, division by constant zero, zero-sized arrays, 300 templates, 3000-character identifiers, custom templates)",
            "samples": samples, "violations": viol}


def underlined_snippets(out):
    """[(code, line number, underlined text)]: for every finding with a primary label, the text of the printed source
    line that the carets of the label cover"""
    import re
    res = []
    lines = out.split("\n")
    code = None
    for k, l in enumerate(lines):
        m = re.match(r"^(warning|error|note|info)\[(\w+)\]:", l)
        if m:
            code = m.group(2)
            continue
        m = re.match(r"^\s*(\d+) │ (.*)$", l)
        if m and code and k + 1 < len(lines):
            c = re.match(r"^\s*│ ( *)(\^+)", lines[k + 1])
            if c:
                start, n = len(c.group(1)), len(c.group(2))
                res.append((code, int(m.group(1)), m.group(2)[start:start + n]))
                code = None
    return res


POSITIONS_FIXTURE = """pragma circom 2.0.0;
function f(a, unused) {
  var x = a;
  if (a > 0) {
    var x = 2;
    x = x + 1;
  }
  var dead = 5;
  if (3 > 2) {
    x = x + 2;
  }
  return x;
}
template Num2Bits(n) { signal input in; signal output out[n]; for (var i = 0; i < n; i++) { out[i] <== in; } }
template T(n) {
  signal input in;
  signal input d;
  signal output out;
  signal output q;
  signal tmp;
  out <-- in * in;
  q <-- in / d;
  tmp <== in * 2;
  component nb = Num2Bits(300);
  nb.in <== in;
  var z = ~in;
  signal output q2;
  q2 <-- in / ((d + 1) * 2);
  var t = 0;
  if ((3 + 1) * 2 > 4) { t = 1; }
  if (2 < 2 * (3 + 1)) { t = 2; }
}
component main = T(3);
"""
# (report code, the source text of the construct the finding is about)
POSITIONS_EXPECTED = [("CS0001", "var x = 2"), ("CS0007", "a, unused"), ("CS0008", "x = x + 1"), ("CS0006", "var dead = 5"), ("CS0009", "3 > 2"),
                      ("CS0013", "out <-- in * in"), ("CS0005", "q <-- in / d"), ("CS0015", "d"), ("CS0017", "signal tmp"), ("CS0010", "Num2Bits(300)"),
                      ("CA01", "signal input d"), ("CS0007", "n"), ("CS0006", "var z = ~in"),
                      ("CS0015", "(d + 1) * 2"), ("CS0009", "(3 + 1) * 2 > 4"), ("CS0009", "2 < 2 * (3 + 1)")]


def suite_positions(exe, tier, seed):
    """C04 (BOUNDED): the label of a finding covers exactly the statement it is about, whatever precedes it in the file"""
    viol, samples = [], []
    evals = nontrivial = 0
    STMT = "out <-- in * in;"
    def prog(before_line="", same_line_prefix="  ", eol="\n", head=""):
        return head + eol.join(["pragma circom 2.0.0;", "template Main() {", "  signal input in; signal output out;"] + ([before_line] if before_line else []) + [same_line_prefix + STMT, "}", "component main = Main();", ""])
    cases = [
        ("plain", prog()),
        ("comment-with-multibyte-on-earlier-line", prog(before_line="  /* \u00e9\u00e9\u00e9 \u4e2d\u6587 */")),
        ("line-comment-with-multibyte-on-earlier-line", prog(before_line="  // \u00e9\u00e9\u00e9 \U0001F600")),
        ("comment-with-multibyte-on-same-line", prog(same_line_prefix="  /* \u00e9\u00e9 */ ")),
        ("tabs", prog(same_line_prefix="\t\t")),
        ("crlf", prog(eol="\r\n")),
        ("long-comment-line-before", prog(before_line="  // " + "x" * 600)),
        ("string-with-multibyte-before", prog(before_line='  log("\u00e9\u00e9\u00e9");')),
        ("multi-line-comment-before", prog(before_line="  /* a\n   \u00e9\n   b */")),
        ("many-blank-lines-before", prog(before_line="\n\n\n\n\n")),
        ("bom", prog(head="\ufeff")),
        ("bom-and-multibyte-comment", prog(head="\ufeff", before_line="  /* \u00e9 */")),
    ]
    d = tempfile.mkdtemp(prefix="vx-e2e-")
    try:
        for (name, src) in cases:
            path = os.path.join(d, "p.circom")
            open(path, "w", newline="").write(src)
            sar = os.path.join(d, "p.sarif")
            if os.path.exists(sar):
                os.unlink(sar)
            rc, out, err = run_cli(exe, ["-v", "--sarif-file", sar, path], d)
            evals += 1
            nontrivial += 1
            what = None
            und = [u for u in underlined_snippets(out) if u[0] in ("CS0013", "CS0005")]
            if rc is None or "panicked" in err or rc not in (0, 1):
                what = f"the tool aborted or hung (exit {rc})"
            elif not und:
                # the file may be rejected as a whole (e.g. a byte order mark is not a token): then an error must say so
                if not any(c.startswith("P") for (c, _, _) in coded_findings(out)):
                    what = "no finding for the `<--` statement and no parse error either"
            else:
                code, ln, text = und[0]
                want_line = src.replace("\r\n", "\n").split("\n").index(next(l for l in src.replace("\r\n", "\n").split("\n") if STMT in l)) + 1
                if text.strip() != STMT.rstrip(";") and text.strip() != STMT:
                    what = f"the label of {code} underlines `{text}` instead of `{STMT}`"
                elif ln != want_line:
                    what = f"the label of {code} is on line {ln}, the statement is on line {want_line}"
                elif os.path.exists(sar):
                    try:
                        sj = json.load(open(sar))
                        regs = [r["locations"][0]["physicalLocation"]["region"] for r in sj["runs"][0]["results"] if r.get("ruleId") == code and r.get("locations")]
                        if regs and regs[0].get("startLine") != want_line:
                            what = f"SARIF puts {code} on line {regs[0].get('startLine')}, the statement is on line {want_line}"
                    except Exception:
                        pass
            if len(samples) < 6 and evals % 2 == 1:
                samples.append({"case": name, "exit": rc, "underlined": und[0][2] if und else None})
            if what and len(viol) < 20:
                viol.append({"unit": "e2e", "fn": "parse_file / report locations", "obligation": f"e2e|positions|{name}", "props": ["C04"],
                             "input": {"case": name, "source": src[:600]}, "what": f"{name}: {what}", "replay": "python3 run/e2e.py positions quick 0"})
        # ---- many kinds of findings on one fixture: each label underlines exactly the construct the finding is about
        fixture = POSITIONS_FIXTURE
        for (vname, text) in [("plain", fixture), ("multibyte-comment-first", "/* \u00e9\u00e9\u00e9 \u4e2d\u6587 \U0001F600 */ " + fixture),
                              ("crlf", fixture.replace("\n", "\r\n")), ("tabs", fixture.replace("  ", "\t"))]:
            path = os.path.join(d, "k.circom")
            open(path, "w", newline="").write(text)
            rc, out, err = run_cli(exe, ["-v", path], d)
            evals += 1
            if rc is None or "panicked" in err or rc not in (0, 1):
                if len(viol) < 20:
                    viol.append({"unit": "e2e", "fn": "parse_file / report locations", "obligation": f"e2e|positions|kinds:{vname}:run", "props": ["C04"], "input": {"case": vname},
                                 "what": f"kinds/{vname}: the tool aborted or hung (exit {rc})", "replay": "python3 run/e2e.py positions quick 0"})
                continue
            got = {}
            for (code, ln, snip) in underlined_snippets(out):
                got.setdefault(code, set()).add(snip.strip().rstrip(";").strip())
            for (code, want) in POSITIONS_EXPECTED:
                if code not in got:
                    continue          # whether the finding exists is another property's business
                nontrivial += 1
                if want not in got[code]:
                    if len(viol) < 20 and not any(v["obligation"] == f"e2e|positions|kinds:{code}" for v in viol):
                        viol.append({"unit": "e2e", "fn": "parse_file / report locations", "obligation": f"e2e|positions|kinds:{code}", "props": ["C04"],
                                     "input": {"case": vname, "code": code, "source": text[:1500]},
                                     "what": f"kinds/{vname}: no {code} finding underlines `{want}`; the labels of {code} underline {sorted(got[code])}", "replay": "python3 run/e2e.py positions quick 0"})
        # ---- parse errors: the label is where the text stops making sense
        base = "pragma circom 2.0.0;\ntemplate Main() {\n  signal input in; signal output out;\n  out <== in;\n"
        for (ename, text, want_line, want_under) in [
                ("eof-inside-template", base, (5, 4), None),                                  # the file ends before the closing brace
                ("eof-inside-template-no-newline", base.rstrip("\n"), (4,), None),
                ("eof-after-multibyte-comment", base + "  // \u00e9\u00e9\n", (6, 5, 4), None),    # after the last token or at the end
                ("unterminated-comment", base + "}\n    /* never closed\n", (6,), "/*"),
                ("unterminated-comment-after-multibyte", base + "}\n/* \u00e9 */ /* never closed", (6,), "/*"),
                ("unterminated-comment-at-eof", base + "}\n/*", (6,), "/*")]:
            path = os.path.join(d, "e.circom")
            open(path, "w", newline="").write(text)
            rc, out, err = run_cli(exe, ["-v", path], d)
            evals += 1; nontrivial += 1
            errs = [(c, ln, t) for (c, ln, t) in coded_findings(out) if c.startswith("P")]
            what = None
            if rc is None or "panicked" in err or rc not in (0, 1):
                what = f"the tool aborted or hung (exit {rc})"
            elif not errs:
                what = "no parse error is displayed"
            elif errs[0][1] not in want_line:
                what = f"the parse error is located on line {errs[0][1]}; the text stops making sense on line {want_line[0]}"
            elif want_under is not None:
                und = [u for u in underlined_snippets(out) if u[0].startswith("P")]
                if not und or und[0][2] != want_under:
                    what = f"the label underlines `{und[0][2] if und else ''}`, not the `{want_under}` that opens the comment"
            if what and len(viol) < 20:
                viol.append({"unit": "e2e", "fn": "parse_file / report locations", "obligation": f"e2e|positions|parse-error:{ename}", "props": ["C04"],
                             "input": {"case": ename, "source": text}, "what": f"parse-error/{ename}: {what}", "replay": "python3 run/e2e.py positions quick 0"})
        # ---- every label (primary and related) of every finding of a two-file project lies inside the file it names
        lib = ("pragma circom 2.0.0;\n// a library file that is longer than the file that includes it\n" + "// padding line\n" * 12 +
               "template DivRem(n) {\n  signal input x;\n  signal output quotient;\n  signal output remainder;\n  remainder <-- x % n;\n  quotient <-- x \\ n;\n  x === quotient * n + remainder;\n}\n"
               "function helper(a) {\n  var unused = a;\n  var a2 = a;\n  if (a > 0) {\n    var a2 = 1;\n    a2 = a2 + 1;\n  }\n  return a2;\n}\n")
        main = ('pragma circom 2.0.0;\ninclude "poslib.circom";\ntemplate Low8() {\n  signal input v;\n  signal output y;\n  component d = DivRem(8);\n  d.x <== v;\n  y <== d.remainder + helper(2);\n}\ncomponent main = Low8();\n')
        open(os.path.join(d, "poslib.circom"), "w").write(lib)
        open(os.path.join(d, "posmain.circom"), "w").write(main)
        for (pname, files) in (("named-main-only", ["posmain.circom"]), ("both-named", ["posmain.circom", "poslib.circom"])):
            sar = os.path.join(d, "pos2.sarif")
            if os.path.exists(sar):
                os.unlink(sar)
            rc, out, err = run_cli(exe, ["-l", "info", "--sarif-file", sar] + files, d)
            evals += 1
            bad = None
            if rc is None or "panicked" in err or rc not in (0, 1):
                bad = f"the tool aborted or hung (exit {rc})"
            else:
                try:
                    results = json.load(open(sar))["runs"][0]["results"]
                except Exception as e:
                    results, bad = [], f"unreadable SARIF ({e})"
                texts = {"posmain.circom": main.split("\n"), "poslib.circom": lib.split("\n")}
                for r in results:
                    for kind in ("locations", "relatedLocations"):
                        for loc in r.get(kind, []):
                            nontrivial += 1
                            f = os.path.basename(loc["physicalLocation"]["artifactLocation"]["uri"])
                            reg = loc["physicalLocation"]["region"]
                            lines = texts.get(f)
                            sl, el = reg.get("startLine"), reg.get("endLine", reg.get("startLine"))
                            sc, ec = reg.get("startColumn", 1), reg.get("endColumn", 1)
                            if lines is None:
                                bad = f"{r.get('ruleId')}: a label names the file `{f}`, which is not part of the project"
                            elif not (1 <= sl <= el <= len(lines)) or sc > len(lines[sl - 1]) + 1 or ec > len(lines[el - 1]) + 1 or (sl == el and sc > ec):
                                bad = f"{r.get('ruleId')}: the {'primary' if kind == 'locations' else 'related'} label {sl}:{sc}-{el}:{ec} lies outside `{f}` ({len(lines)} lines)"
                            elif str(r.get("ruleId", "")).startswith(("CS", "CA")) and (sl, sc) == (el, ec):
                                bad = f"{r.get('ruleId')}: the {'primary' if kind == 'locations' else 'related'} label {sl}:{sc}-{el}:{ec} in `{f}` is empty: the label of an analysis finding covers the construct it is about (a range clamped to the end of the file looks like this)"
            if bad and len(viol) < 20:
                viol.append({"unit": "e2e", "fn": "report locations", "obligation": f"e2e|positions|all-labels:{pname}", "props": ["C04"],
                             "input": {"case": pname, "files": files}, "what": f"all-labels/{pname}: {bad}", "replay": "python3 run/e2e.py positions quick 0"})
        # ---- the file a SARIF location names is the file that was read, whatever characters its name contains
        import urllib.parse
        for wname in ('we"ird.circom', "sp ace #1.circom", "pct%41.circom", "\u00e9t\u00e9.circom"):
            wpath = os.path.join(d, wname)
            open(wpath, "w").write("pragma circom 2.0.0;\ntemplate T() { signal input a; signal output b; b <-- a * a; }\ncomponent main = T();\n")
            sar = os.path.join(d, "w.sarif")
            if os.path.exists(sar):
                os.unlink(sar)
            rc, out, err = run_cli(exe, ["--sarif-file", sar, wpath], d)
            evals += 1; nontrivial += 1
            bad = None
            if rc is None or "panicked" in err or rc not in (0, 1):
                bad = f"the tool aborted or hung (exit {rc})"
            else:
                try:
                    uris = {l["physicalLocation"]["artifactLocation"]["uri"] for r in json.load(open(sar))["runs"][0]["results"] for l in r.get("locations", [])}
                except Exception as e:
                    uris, bad = set(), f"unreadable SARIF ({e})"
                for u in sorted(uris):
                    named = urllib.parse.unquote(u[len("file://"):]) if u.startswith("file://") else u
                    if os.path.realpath(named) != os.path.realpath(wpath):
                        bad = f"the SARIF location names `{u}`, i.e. the file `{named}`; the findings are about `{wpath}`"
                if not uris and not bad:
                    bad = "no SARIF location at all for a file with three findings"
            if bad and len(viol) < 20:
                viol.append({"unit": "e2e", "fn": "sarif_conversion::to_uri", "obligation": "e2e|positions|sarif-file-name", "props": ["C04", "C03"],
                             "input": {"file": wname}, "what": f"sarif-file-name/{wname}: {bad}", "replay": "python3 run/e2e.py positions quick 0"})
    finally:
        shutil.rmtree(d, ignore_errors=True)
    return {"unit": "e2e-positions", "evaluations": evals, "distinct_nontrivial": nontrivial, "exhaustive": False,
            "rule": "the real CLI on a template whose `out <-- in * in;` statement is preceded by text that shifts byte offsets (multi-byte characters in comments and strings, tabs, CRLF, long lines, a byte order mark): the label of the finding about that statement underlines exactly the statement, on its line, in the terminal output and in SARIF; a file the tool cannot tokenise must be rejected with a parse error rather than analysed with shifted positions; on a fixture with findings of 11 kinds (shadowing, unused parameter, dead assignment, unused variable, constant condition, both `<--` findings, divisor, intermediate signal, Num2Bits instantiation, unconstrained signal) the label of each finding underlines exactly the source text of the construct it is about",
            "bound": "12 placements of one statement; one fixture with 16 findings of 11 kinds (three of them infix expressions that begin or end with a parenthesised operand) in 4 renderings (plain, multi-byte comment first, CRLF, tabs); 6 truncated files (end of file inside a template, unterminated comments): the error is on the last line / underlines the `/*`; a two-file project (the named file instantiates a template and calls a function of a longer included file): every primary and related label of every SARIF result names a file of the project and lies inside it; four files with a quote, a space, `#`, `%` or non-ASCII letters in their names: the SARIF URI decodes to the file that was read", "samples": samples, "violations": viol}


def sigassign_program(rng, n_stmts):
    """one template built from a menu of statement shapes, one statement per line; returns (source, expected) where
    expected maps a line number to (number of `<--` findings expected there, set of constraint lines or None)"""
    lines = ["pragma circom 2.1.0;", "pragma custom_templates;",
             "template Sub() { signal input a; signal input b; signal output c; c <== a * b; }",
             "template Uno() { signal input a; signal output c; c <== a * a; }",
             "function fn(x) { var y = x; y = y + 1; return y; }"]
    body, decl = [], []
    expected = {}          # line -> [count, related-lines-or-None]
    uid = [0]
    def fresh(p):
        uid[0] += 1
        return f"{p}{uid[0]}"
    pending = []           # (body index of the `<--` line, [body indices of its constraint lines] or None)
    def emit(text):
        body.append(text)
        return len(body) - 1
    for _ in range(n_stmts):
        k = rng.randrange(22)
        if k == 0:      # scalar, not quadratic, 0..3 constraints mentioning it (and a decoy with a longer name)
            sname = fresh("s")
            decl.append(f"signal {sname}; signal {sname}x;")
            a = emit(f"  {sname} <-- in \\ {rng.randrange(2, 9)};")
            cons = []
            for form in rng.sample(["  %s === in;", "  %s * 2 === in2;", "  in2 === %s + in;"], rng.randrange(0, 4)):
                cons.append(emit(form % sname))
            emit(f"  {sname}x <== in;")
            emit(f"  {sname}x * 3 === in2;")
            pending.append((a, 1, cons))
        elif k == 1:    # scalar, quadratic right-hand side
            sname = fresh("q")
            decl.append(f"signal {sname};")
            pending.append((emit(f"  {sname} <-- in * in2 + {rng.randrange(9)};"), 1, None))
        elif k == 2:    # reversed arrow
            sname = fresh("r")
            decl.append(f"signal {sname};")
            pending.append((emit(f"  in \\ {rng.randrange(2, 9)} --> {sname};"), 1, None))
        elif k == 3:    # array element in a loop
            sname = fresh("a")
            decl.append(f"signal {sname}[4];")
            emit("  for (var i = 0; i < 4; i++) {")
            pending.append((emit(f"    {sname}[i] <-- in \\ (i + 2);"), 1, None))
            emit("  }")
        elif k == 4:    # element of a matrix under a branch in nested loops; the other branch constrains
            sname = fresh("m")
            decl.append(f"signal {sname}[2][2];")
            emit("  for (var i = 0; i < 2; i++) { for (var j = 0; j < 2; j++) {")
            emit("    if (i == j) {")
            pending.append((emit(f"      {sname}[i][j] <-- in \\ 2;"), 1, None))
            emit("    } else {")
            emit(f"      {sname}[i][j] <== in;")
            emit("    }")
            emit("  } }")
        elif k == 5:    # component input
            cname = fresh("c")
            decl.append(f"component {cname} = Sub();")
            pending.append((emit(f"  {cname}.a <-- in;"), 1, None))
            emit(f"  {cname}.b <== in2;")
        elif k == 6:    # input of a component array
            cname = fresh("cs")
            decl.append(f"component {cname}[2];")
            emit(f"  for (var i = 0; i < 2; i++) {{ {cname}[i] = Sub(); }}")
            emit("  for (var i = 0; i < 2; i++) {")
            pending.append((emit(f"    {cname}[i].a <-- in;"), 1, None))
            emit(f"    {cname}[i].b <== in2;")
            emit("  }")
        elif k == 7:    # declaration with initialisation
            sname = fresh("d")
            a = emit(f"  signal {sname} <-- in \\ 3;")
            c = emit(f"  {sname} === in;")
            pending.append((a, 1, [c]))
        elif k == 8:    # two statements on one line
            s1, s2 = fresh("t"), fresh("t")
            decl.append(f"signal {s1}; signal {s2};")
            pending.append((emit(f"  {s1} <-- in \\ 2; {s2} <-- in \\ 2;"), 2, None))
        elif k == 9:    # inside a while loop
            sname = fresh("w")
            decl.append(f"signal {sname}[3];")
            vn = fresh("k")
            emit(f"  var {vn} = 0;")
            emit(f"  while ({vn} < 3) {{")
            pending.append((emit(f"    {sname}[{vn}] <-- in \\ 5;"), 1, None))
            emit(f"    {vn}++;")
            emit("  }")
        elif k == 10:   # both branches of a conditional
            sname = fresh("b")
            decl.append(f"signal {sname};")
            emit("  if (n > 2) {")
            a1 = emit(f"    {sname} <-- in \\ 2;")
            emit("  } else {")
            a2 = emit(f"    {sname} <-- in \\ 3;")
            emit("  }")
            c = emit(f"  {sname} * 2 === in;")
            pending.append((a1, 1, [c]))
            pending.append((a2, 1, [c]))
        elif k == 11:   # statements that are not signal assignments
            sname = fresh("e")
            vn = fresh("v")
            decl.append(f"signal {sname};")
            emit(f"  var {vn} = in2 * 0 + {rng.randrange(5)};")
            emit(f"  {vn} = {vn} + fn(2);")
            emit(f"  {sname} <== in + {vn};")
            emit(f"  {sname} === in + {vn};")
        elif k == 12:   # anonymous component with two named `<--` inputs: one finding each, both at the call
            sname = fresh("u")
            decl.append(f"signal {sname};")
            pending.append((emit(f"  {sname} <== Sub()(a <-- in \\ 2, b <-- in2 \\ 3);"), 2, None))
        elif k == 14:   # two signals of the same name in sibling scopes: the constraints on the first do not mention the second
            sname = fresh("z")
            emit("  if (n > 2) {")
            emit(f"    signal {sname};")
            emit(f"    {sname} <== in;")
            emit(f"    {sname} * 2 === in2;")
            emit("  } else {")
            emit(f"    signal {sname};")
            a = emit(f"    {sname} <-- in \\ 3;")
            emit("  }")
            pending.append((a, 1, []))
        elif k == 15:   # right-to-left tuple form
            s1, s2 = fresh("g"), fresh("g")
            decl.append(f"signal {s1}; signal {s2};")
            pending.append((emit(f"  (in \\ 2, in2 \\ 3) --> ({s1}, {s2});"), 2, None))
        elif k == 16:   # right-to-left assignment of an array element and of a component input
            sname, cname = fresh("h"), fresh("ch")
            decl.append(f"signal {sname}[2]; component {cname} = Sub();")
            pending.append((emit(f"  in \\ 2 --> {sname}[1];"), 1, None))
            pending.append((emit(f"  in2 --> {cname}.a;"), 1, None))
            emit(f"  {cname}.b <== in;")
        elif k == 13:   # tuple form: one finding per assigned signal
            s1, s2 = fresh("p"), fresh("p")
            decl.append(f"signal {s1}; signal {s2};")
            pending.append((emit(f"  ({s1}, {s2}) <-- (in \\ 2, in2 \\ 3);"), 2, None))
        elif k == 21:   # component input assigned with `<--`, then constrained through the port
            cname = fresh("cp")
            decl.append(f"component {cname} = Sub();")
            a = emit(f"  {cname}.a <-- in \\ 2;")
            c1 = emit(f"  {cname}.a * 2 === in;")
            emit(f"  {cname}.b <== in2;")
            pending.append((a, 1, [c1]))
        elif k == 18:   # anonymous component with a single named `<--` input
            sname = fresh("u")
            decl.append(f"signal {sname};")
            pending.append((emit(f"  {sname} <== Uno()(a <-- in \\ 2);"), 1, None))
        elif k == 19:   # anonymous component inside a loop, single named `<--` input: one statement, one finding
            sname = fresh("w")
            decl.append(f"signal {sname}[2];")
            pending.append((emit(f"  for (var i = 0; i < 2; i++) {{ {sname}[i] <== Uno()(a <-- in \\ (i + 2)); }}"), 1, None))
        elif k == 20:   # anonymous component inside a loop, two named inputs, one of them `<--`
            sname = fresh("w")
            decl.append(f"signal {sname}[2];")
            pending.append((emit(f"  for (var i = 0; i < 2; i++) {{ {sname}[i] <== Sub()(b <== in2, a <-- in \\ (i + 2)); }}"), 1, None))
        else:           # anonymous component with a named `<--` input: one finding, at the call
            sname = fresh("u")
            decl.append(f"signal {sname};")
            pending.append((emit(f"  {sname} <== Sub()(a <-- in, b <== in2);"), 1, None))
    head = lines + ["template custom Gate() { signal input a; signal output b;", "  b <-- a * a * a;", "}",
                    "template T(n) {", "  signal input in; signal input in2; signal output out;"] + ["  " + d for d in decl]
    off = len(head) + 1
    src = "\n".join(head + body + ["  out <== in;", "}", "component main = T(3);", ""])
    for (a, cnt, cons) in pending:
        expected[a + off] = [cnt, None if cons is None else sorted(c + off for c in cons)]
    return src, expected


def suite_sigassign(exe, tier, seed):
    """C08 (BOUNDED): findings about `<--` / `-->` correspond one to one to the statements, and the related locations of a
    `signal assignment` finding are the constraints that mention the signal"""
    import random
    viol, samples = [], []
    evals = nontrivial = 0
    n_prog = 14 if tier == "quick" else 400
    d = tempfile.mkdtemp(prefix="vx-e2e-")
    def add(ob, inp, what):
        if len(viol) < 20:
            viol.append({"unit": "e2e", "fn": "find_signal_assignments (whole pipeline)", "obligation": f"e2e|sigassign|{ob}", "props": ["C08"],
                         "input": inp, "what": what, "replay": "python3 run/e2e.py sigassign quick 0"})
    try:
        for pi in range(n_prog):
            rng = random.Random(1000 * seed + pi)
            src, expected = sigassign_program(rng, 3 + (pi % 9) if tier == "quick" else rng.randrange(1, 30))
            path = os.path.join(d, "p.circom")
            open(path, "w").write(src)
            sar = os.path.join(d, "p.sarif")
            if os.path.exists(sar):
                os.unlink(sar)
            rc, out, err = run_cli(exe, ["--sarif-file", sar, path], d)
            evals += 1
            if rc is None or rc not in (0, 1) or "panicked" in err or not os.path.exists(sar):
                add(f"prog{pi}:run", {"program": pi, "source": src[:1500]}, f"program {pi}: the tool aborted, hung or wrote no SARIF file (exit {rc}): {err[-200:]}")
                continue
            try:
                results = json.load(open(sar))["runs"][0]["results"]
            except Exception as e:
                add(f"prog{pi}:sarif", {"program": pi}, f"program {pi}: unreadable SARIF output ({e})")
                continue
            if any(r.get("ruleId", "").startswith("P") for r in results):
                raise RuntimeError("generator produced a program the tool rejects: " + src[:400])
            got = {}
            for r in results:
                if r.get("ruleId") in ("CS0005", "CS0013") and r.get("locations"):
                    ln = r["locations"][0]["physicalLocation"]["region"].get("startLine")
                    got.setdefault(ln, []).append((r["ruleId"], sorted(l["physicalLocation"]["region"].get("startLine") for l in r.get("relatedLocations", []))))
            srcl = src.split("\n")
            for ln in sorted(set(expected) | set(got)):
                nontrivial += 1
                want = expected.get(ln, [0, None])
                have = got.get(ln, [])
                text = srcl[ln - 1].strip() if ln and 0 < ln <= len(srcl) else "?"
                if len(have) != want[0]:
                    add(f"count:{'missing' if len(have) < want[0] else 'extra'}", {"program": pi, "line": ln, "statement": text, "source": src[:1500]},
                        f"program {pi}, line {ln} `{text}`: {len(have)} finding(s) about a signal assignment (CS0005/CS0013), {want[0]} `<--`/`-->` statement(s) there")
                elif want[1] is not None:
                    for (code, rel) in have:
                        if code == "CS0005" and rel != want[1]:
                            add("related", {"program": pi, "line": ln, "statement": text, "source": src[:1500]},
                                f"program {pi}, line {ln} `{text}`: the finding lists the constraints on lines {rel}, the signal is mentioned by the constraints on lines {want[1]}")
            if len(samples) < 5 and pi % 3 == 0:
                samples.append({"program": pi, "statements": len(expected), "findings": {str(k): v for k, v in sorted(got.items())}})
    finally:
        shutil.rmtree(d, ignore_errors=True)
    return {"unit": "e2e-sigassign", "evaluations": evals, "distinct_nontrivial": nontrivial, "exhaustive": False,
            "rule": "the real CLI on generated templates (18 statement shapes: scalar, quadratic, `-->`, array element in for/while loops, matrix element under a branch, component and component-array inputs, declaration with initialisation, two statements on a line, both branches, anonymous component with one and with two named `<--` inputs, tuple form in both directions, `-->` into array elements and component inputs, same-named signals in sibling scopes, non-signal statements as decoys; a custom template and a function next to it): per source line, the number of CS0005/CS0013 findings anchored there equals the number of `<--`/`-->` statements on it, none anywhere else; for scalar signals a CS0005 finding's related locations are exactly the lines of the `===` constraints mentioning that signal (a signal with a longer name is the decoy)",
            "bound": f"{n_prog} generated programs, up to {12 if tier == 'quick' else 30} shapes each (seeded)", "samples": samples, "violations": viol}


def scopes_program(rng, size):
    """a function whose body nests if / else / while / for blocks and declares variables from a small pool of names (some
    of which collide after suffixing: x, x_0, x_1); every declaration initialises its variable with its own constant and no
    variable is assigned again, so `if (NAME == K)` observes which declaration a use refers to. Returns (source, shadows,
    uses): shadows = {line of a shadowing declaration: line of the shadowed one}; uses = {line: 'const' | 'unknown'}"""
    pool = ["x", "y", "x_0", "x_1", "y_0", "p"]
    lines = ["pragma circom 2.0.0;", "function f(p, q) {", "  var r = 0;"]
    hdr = 2
    stack = [{"p": (hdr, None), "q": (hdr, None)}, {}]
    shadows, uses = {}, {}
    const = [100]
    def visible(name):
        for sc in reversed(stack):
            if name in sc:
                return sc[name]
        return None
    def emit(text):
        lines.append("  " * len(stack) + text)
        return len(lines)
    def declare(name, text_fn, value):
        vis = visible(name)
        ln = emit(text_fn(name))
        if vis is not None:
            shadows[ln] = vis[0]
        stack[-1][name] = (ln, value)
    def gen(budget, depth):
        while budget > 0:
            act = rng.choice(["decl", "decl", "use", "use", "use", "if", "ifelse", "while", "for"] if depth < 3 else ["decl", "use", "use"])
            budget -= 1
            if act == "decl":
                cands = [n for n in pool if n not in stack[-1]]
                if not cands:
                    continue
                const[0] += 1
                k = const[0]
                declare(rng.choice(cands), lambda n: f"var {n} = {k};", k)
            elif act == "use":
                cands = sorted({n for sc in stack for n in sc})
                name = rng.choice(cands)
                (dl, val) = visible(name)
                if val is None:
                    ln = emit(f"if ({name} == 7) {{ r = r + 1; }}")
                    uses[ln] = ("unknown", dl)
                else:
                    ln = emit(f"if ({name} == {val}) {{ r = r + 1; }}")
                    uses[ln] = ("const", dl)
            elif act in ("if", "ifelse"):
                emit(f"if (q > {rng.randrange(9)}) {{")
                stack.append({})
                sub = rng.randrange(1, 4)
                gen(sub, depth + 1)
                stack.pop()
                if act == "ifelse":
                    emit("} else {")
                    stack.append({})
                    gen(rng.randrange(1, 4), depth + 1)
                    stack.pop()
                emit("}")
            elif act == "while":
                emit(f"while (r < {rng.randrange(2, 9)}) {{")
                stack.append({})
                gen(rng.randrange(1, 4), depth + 1)
                emit("  r = r + 1;")
                stack.pop()
                emit("}")
            else:
                name = rng.choice(["i", "x", "y"])
                stack.append({})          # the scope the desugared `for` opens for its initialisation
                vis = visible(name)
                ln = emit(f"for (var {name} = 0; {name} < 2; {name}++) {{")
                if vis is not None:
                    shadows[ln] = vis[0]
                stack[-1][name] = (ln, None)
                stack.append({})
                gen(rng.randrange(1, 4), depth + 1)
                stack.pop()
                stack.pop()
                emit("}")
    gen(size, 0)
    lines += ["  return r;", "}", "template T() { signal input in; signal output out; out <== in + f(1, 2); }", "component main = T();", ""]
    return "\n".join(lines), shadows, uses


def suite_scopes(exe, tier, seed):
    """C10 (BOUNDED): shadowing warnings against an independent scope resolver; the declaration a use refers to, observed
    through the constant each declaration carries"""
    import random, re
    viol, samples = [], []
    evals = nontrivial = 0
    n_prog = 30 if tier == "quick" else 1500
    import replay_bridge
    ssa_tool = replay_bridge._build("parser")
    d = tempfile.mkdtemp(prefix="vx-e2e-")
    def add(ob, inp, what):
        if len(viol) < 20 and not any(v["obligation"] == f"e2e|scopes|{ob}" for v in viol):
            viol.append({"unit": "e2e", "fn": "ensure_unique_variables / SSA renaming (whole pipeline)", "obligation": f"e2e|scopes|{ob}", "props": ["C10", "C14"] if (ob.startswith("ssa:") or ob == "siblings:shadowed-in-loop-body") else ["C10"],
                         "input": inp, "what": what, "replay": "python3 run/e2e.py scopes quick 0"})
    try:
        # ---- repeated parameter names are reported (CS0002), wherever the repetition stands, for functions and templates
        for (pname, params) in [("first-and-second", "a, a"), ("first-and-third", "a, b, a"), ("second-and-third", "b, a, a"), ("last-two-of-four", "c, b, a, a"), ("all-distinct", "a, b, c")]:
            for kind in ("function", "template"):
                if kind == "function":
                    psrc = f"pragma circom 2.0.0;\nfunction f({params}) {{ return a; }}\ntemplate T() {{ signal input in; signal output out; out <== in + f({', '.join('1' for _ in params.split(','))}); }}\ncomponent main = T();\n"
                else:
                    psrc = f"pragma circom 2.0.0;\ntemplate T({params}) {{ signal input in; signal output out; out <== in + a; }}\ncomponent main = T({', '.join('1' for _ in params.split(','))});\n"
                path = os.path.join(d, "p.circom")
                open(path, "w").write(psrc)
                rc, out, err = run_cli(exe, ["-v", path], d)
                evals += 1
                nontrivial += 1
                got = [ln for (code, ln, _) in coded_findings(out) if code == "CS0002"]
                want = [] if pname == "all-distinct" else [2]
                if rc is None or rc not in (0, 1) or "panicked" in err:
                    add("run", {"case": pname, "source": psrc}, f"parameters ({params}) of a {kind}: the tool aborted or hung (exit {rc})")
                elif got != want:
                    add(f"params:{pname}", {"case": pname, "kind": kind, "source": psrc}, f"parameters ({params}) of a {kind}: parameter-name-collision findings (CS0002) on lines {got}, expected {want}")
                elif want and rc == 0:
                    add(f"params:{pname}", {"case": pname, "kind": kind, "source": psrc}, f"parameters ({params}) of a {kind}: the collision is displayed but the exit status is 0")
        # ---- two declarations of one name in sibling blocks are two things: what is said (or not) about one does not depend on the other
        SIB = "pragma circom 2.0.0;\ntemplate D() { signal input a; signal output b; signal output aux; b <== a; aux <== a * a; }\ntemplate T(n) {\n  signal input in;\n  signal output out;\n%s\n}\ncomponent main = T(1);\n"
        for (sname, body, code, line) in [
                ("components", "  if (n == 0) {\n    component c = D();\n    c.a <== in;\n    out <== c.b + c.aux;\n  } else {\n    component c = D();\n    c.a <== in;\n    out <== c.b;\n  }", "CS0018", 11),
                ("components-nested", "  component c = D();\n  c.a <== in;\n  out <== c.b + c.aux;\n  if (n == 0) {\n    component c = D();\n    c.a <== in;\n    log(c.b);\n  }", "CS0018", 10),
                ("variable-and-signal", "  if (n == 0) {\n    var t = 5;\n    out <== in;\n  } else {\n    signal t;\n    out <== in;\n  }", "CS0006", 10),
                # an outer variable updated in a loop whose body also holds a block with a shadowing variable that is updated too:
                # the outer update is read by the next iteration and by the use after the loop (nothing may call it unread or without effect)
                ("shadowed-in-loop-body", "  var acc = 0;\n  for (var i = 0; i < n; i++) {\n    acc += i;\n    if (i > 1) {\n      var acc = i;\n      acc += 1;\n      log(acc);\n    }\n  }\n  out <== in * acc;", "!CS0006 CS0008", 8)]:
            path = os.path.join(d, "sib.circom")
            open(path, "w").write(SIB % body)
            rc, out, err = run_cli(exe, ["-v", path], d)
            evals += 1; nontrivial += 1
            if rc is None or rc not in (0, 1) or "panicked" in err:
                add("run", {"case": sname}, f"siblings/{sname}: the tool aborted or hung (exit {rc})")
            elif code.startswith("!"):
                hit = [(c, ln) for (c, ln, _) in coded_findings(out) if c in code[1:].split() and ln == line]
                if hit:
                    add(f"siblings:{sname}", {"case": sname, "source": SIB % body},
                        f"siblings/{sname}: finding {hit[0][0]} on line {line} — the update of the OUTER variable there is read by the next iteration and after the loop; the shadowing declaration in the nested block is another variable:\n{body}")
            elif not any(c == code and ln == line for (c, ln, _) in coded_findings(out)):
                add(f"siblings:{sname}", {"case": sname, "source": SIB % body},
                    f"siblings/{sname}: no {code} finding on line {line} — the second declaration of the name is treated as if it were the first one (findings: {sorted((c, ln) for (c, ln, _) in coded_findings(out))}):\n{body}")
        for pi in range(n_prog):
            rng = random.Random(7000 * seed + pi)
            src, shadows, uses = scopes_program(rng, 4 + pi % 12)
            path = os.path.join(d, "s.circom")
            open(path, "w").write(src)
            sar = os.path.join(d, "s.sarif")
            if os.path.exists(sar):
                os.unlink(sar)
            rc, out, err = run_cli(exe, ["-v", "--sarif-file", sar, path], d)
            evals += 1
            if rc is None or rc not in (0, 1) or "panicked" in err:
                add("run", {"program": pi, "source": src}, f"program {pi}: the tool aborted or hung (exit {rc}): {err[-200:]}")
                continue
            if any(c.startswith("P") for (c, _, _) in coded_findings(out)):
                raise RuntimeError("generator produced a program the tool rejects: " + src[:600])
            got_sh = {}
            try:
                for r in json.load(open(sar))["runs"][0]["results"]:
                    if r.get("ruleId") == "CS0001" and r.get("locations"):
                        ln = r["locations"][0]["physicalLocation"]["region"].get("startLine")
                        got_sh.setdefault(ln, []).append(sorted(l["physicalLocation"]["region"].get("startLine") for l in r.get("relatedLocations", [])))
            except Exception as e:
                add("sarif", {"program": pi}, f"program {pi}: unreadable SARIF output ({e})")
                continue
            srcl = src.split("\n")
            for ln in sorted(set(shadows) | set(got_sh)):
                nontrivial += 1
                text = srcl[ln - 1].strip()
                if ln not in got_sh:
                    add("shadow:missing", {"program": pi, "line": ln, "source": src}, f"program {pi}, line {ln} `{text}` redeclares a name that is visible there (declared on line {shadows[ln]}), no shadowing warning (CS0001)")
                elif ln not in shadows:
                    add("shadow:extra", {"program": pi, "line": ln, "source": src}, f"program {pi}, line {ln} `{text}`: shadowing warning, but no declaration of that name is visible there")
                elif len(got_sh[ln]) != 1:
                    add("shadow:twice", {"program": pi, "line": ln, "source": src}, f"program {pi}, line {ln} `{text}`: {len(got_sh[ln])} shadowing warnings for one declaration")
                elif got_sh[ln][0] != [shadows[ln]]:
                    add("shadow:secondary", {"program": pi, "line": ln, "source": src}, f"program {pi}, line {ln} `{text}`: the shadowed declaration is said to be on line(s) {got_sh[ln][0]}, the innermost visible declaration of that name is on line {shadows[ln]}")
            # the same function through the real parser, lifting and SSA conversion (tools/replay/parser ssa-reads): every read
            # of a local names a parameter or a variable some statement writes, with the same (name, suffix, version)
            fsrc = src[src.index("function f"):src.index("template T()")]
            fpath = os.path.join(d, "f.circom")
            open(fpath, "w").write(fsrc)
            pr = subprocess.run([ssa_tool, "ssa-reads", fpath], capture_output=True, text=True, timeout=60)
            try:
                sj = json.loads(pr.stdout)
            except Exception:
                sj = {"status": "no-output"}
            nontrivial += 1
            if sj.get("status") != "ok":
                add("ssa:status", {"program": pi, "source": src}, f"program {pi}: parse -> CFG -> SSA of the function ended with `{sj.get('status')}`")
            else:
                if sj["undefined_reads"]:
                    add("ssa:undefined-read", {"program": pi, "source": src, "undefined_reads": sj["undefined_reads"]},
                        f"program {pi}: after SSA conversion {len(sj['undefined_reads'])} read(s) name a variable (name|suffix|version) that no statement defines, e.g. {sj['undefined_reads'][0]}: the use was bound to a declaration that does not exist")
                if sj["written_twice"]:
                    add("ssa:written-twice", {"program": pi, "source": src, "written_twice": sj["written_twice"]},
                        f"program {pi}: after SSA conversion a versioned variable is written more than once: {sj['written_twice'][0]}")
            claims = {}
            for (code, ln, text) in coded_findings(out):
                if code == "CS0009" and ln in uses:
                    pol = re.search(r"always (true|false)", text)
                    claims[ln] = pol.group(1) if pol else "unknown"
            for ln, (kind, dl) in sorted(uses.items()):
                nontrivial += 1
                c = claims.get(ln)
                text = srcl[ln - 1].strip()
                if kind == "const" and c == "false":
                    add("use:wrong-declaration", {"program": pi, "line": ln, "source": src}, f"program {pi}, line {ln} `{text}`: the name refers to the declaration on line {dl}, which gives it exactly this value, but the tool says the comparison is always false (it resolved the name to another declaration)")
                elif kind == "unknown" and c in ("true", "false"):
                    add("use:wrong-declaration", {"program": pi, "line": ln, "source": src}, f"program {pi}, line {ln} `{text}`: the name refers to the parameter or loop variable declared on line {dl}, whose value is not known, but the tool says the comparison is always {c}")
            # the counter of a `for` is the variable its condition and its step refer to, whatever the body declares: the step is
            # a live assignment and the condition is not constant, so no dead-value or constant-condition finding stands on a header
            for (code, ln, text) in coded_findings(out):
                if code in ("CS0006", "CS0008", "CS0009") and ln is not None and srcl[ln - 1].lstrip().startswith("for ("):
                    nontrivial += 1
                    first = next((l.strip() for l in text.split("\n")[1:] if "^" in l), "")
                    add("for-header", {"program": pi, "line": ln, "source": src}, f"program {pi}, line {ln} `{srcl[ln - 1].strip()}`: finding {code} on the header of a `for` ({first[:120]}): the condition and the step of a `for` refer to its own counter, which the condition reads and the step updates")
            if len(samples) < 4 and pi % 7 == 0:
                samples.append({"program": pi, "shadowing": {str(k): v for k, v in sorted(got_sh.items())}, "claims": {str(k): v for k, v in sorted(claims.items())}})
    finally:
        shutil.rmtree(d, ignore_errors=True)
    return {"unit": "e2e-scopes", "evaluations": evals, "distinct_nontrivial": nontrivial, "exhaustive": False,
            "rule": "the real CLI on generated functions nesting if / else / while / for blocks up to depth 3, declaring variables named x, y, x_0, x_1, y_0, p (p is also a parameter; x_0 is what a renamed x looks like) with one constant each and never assigning them again: a shadowing warning (CS0001) stands at exactly the declarations that redeclare a name visible there (block scoping, parameters outermost, a `for` opens a scope for its variable), once, with the innermost visible declaration as related location; and where a use `if (NAME == K)` compares with the constant of the declaration the name refers to, the tool never says `always false` (nor anything about a parameter or loop variable); and, through the real parser + lifting + SSA conversion (tools/replay/parser ssa-reads), every read of a local variable names a parameter or a variable that some statement writes with the same (name, suffix, version), and no versioned variable is written twice; no dead-value or constant-condition finding (CS0006, CS0008, CS0009) stands on the header of a `for` (its condition and step refer to its own counter, also when the body redeclares the name)",
            "bound": f"{n_prog} generated functions of 4..15 actions (seeded); 5 parameter lists x {{function, template}} for the collision report", "samples": samples, "violations": viol}


DET_DEFS = {
    "fdead": """function fdead(a, unused) {
  var x = a;
  if (a > 0) {
    var x = 2;
    x = x + 1;
  }
  var dead = 5;
  if (3 > 2) {
    x = x + 2;
  }
  return x;
}""",
    "fhelper": """function fhelper(n) {
  var acc = 0;
  for (var i = 0; i < n; i++) {
    acc += i;
  }
  return acc;
}""",
    "Num2Bits": """template Num2Bits(n) {
  signal input in;
  signal output out[n];
  for (var i = 0; i < n; i++) {
    out[i] <-- (in >> i) & 1;
    out[i] * (out[i] - 1) === 0;
  }
}""",
    "Leaf": """template Leaf(k) {
  signal input a;
  signal input d;
  signal output b;
  signal output q;
  signal tmp;
  var s = k;
  if (k > 1) {
    var s = 2;
    s = s + 1;
  }
  b <-- a * a + fdead(k, 1) + s;
  q <-- a / d;
  tmp <== a * 2;
}""",
    "Mid": """template Mid(n) {
  signal input in;
  signal output out;
  component leaf = Leaf(n);
  leaf.a <== in;
  leaf.d <== in + 1;
  component nb = Num2Bits(300);
  nb.in <== in;
  var z = ~in;
  out <== leaf.b + fhelper(n);
}""",
    "Top": """template Top() {
  signal input x;
  signal output y;
  component m = Mid(3);
  m.in <== x;
  var t = 0;
  if (t == 0) {
    t = 1;
  }
  y <== m.out + t;
}""",
}
DET_DEFS["Fib"] = """template Fib(n) {
  signal input in;
  signal output out;
  var a = in;
  var b = 1;
  var c = 2;
  for (var i = 0; i < n; i++) {
    a = a + b;
    b = b + a + c;
    c = c + b;
  }
  out <== a;
}"""
# several things of one kind inside one definition (four unused outputs of one component, a signal in three constraints, three
# unused parameters, two components of one template): whatever a finding lists or counts must not depend on hash order
DET_DEFS["Split"] = """template Split() {
  signal input in;
  signal output lo;
  signal output hi;
  signal output carry;
  signal output sign;
  lo <== in;
  hi <== in * 2;
  carry <== in * 3;
  sign <== in * 4;
}"""
DET_DEFS["Wide"] = """template Wide(p, q, r) {
  signal input in;
  signal output out;
  signal w;
  component s1 = Split();
  component s2 = Split();
  s1.in <== in;
  s2.in <== in + 1;
  w <-- in * in * in;
  w * in === out;
  w * w === in;
  (w + 1) * in === 2;
  out <== in;
}"""
# a template that cannot be desugared (anonymous component inside log) and one that instantiates it anonymously: what is said
# about the second must not depend on which of the two the desugarer meets first
DET_DEFS["SqBad"] = """template SqBad() {
  signal input in;
  signal output out;
  out <== in * in;
  log(SqBad()(in));
}"""
DET_DEFS["Scaled"] = """template Scaled() {
  signal input a;
  signal input b;
  signal output out;
  signal sq;
  sq <== SqBad()(a);
  out <-- sq / b;
}"""
DET_EXTRA = {
    "Unrelated": """template Unrelated(p) {
  signal input u;
  signal output v;
  var w = p;
  v <-- u * u * u;
}""",
    "funrelated": """function funrelated(a) {
  var b = a;
  var c = 3;
  return b;
}""",
}


def det_project(d, order_a, order_b, extra=(), drop=()):
    """two files; returns {definition name: (file, first line, last line)}"""
    defs = dict(DET_DEFS)
    defs.update({k: DET_EXTRA[k] for k in extra})
    where = {}
    for (fname, order, tail) in (("a.circom", order_a, ""), ("b.circom", order_b, "component main = Top();\n")):
        lines = ["pragma circom 2.0.0;"] + (['include "a.circom";'] if fname == "b.circom" else [])
        for name in order:
            if name in drop:
                continue
            body = defs[name].split("\n")
            where[name] = (fname, len(lines) + 1, len(lines) + len(body))
            lines += body
        open(os.path.join(d, fname), "w").write("\n".join(lines) + "\n" + tail)
    return where


def det_findings(exe, d, files, where):
    """multiset of findings, each keyed by the definition it lies in and by positions relative to that definition"""
    from collections import Counter
    sar = os.path.join(d, "det.sarif")
    if os.path.exists(sar):
        os.unlink(sar)
    rc, out, err = run_cli(exe, ["-l", "info", "--sarif-file", sar] + files, d)
    if rc is None or rc not in (0, 1) or "panicked" in err:
        return None, f"the tool aborted or hung (exit {rc})"
    try:
        results = json.load(open(sar))["runs"][0]["results"] if os.path.exists(sar) else []
    except Exception as e:
        return None, f"unreadable SARIF ({e})"
    def rel(loc):
        uri = loc["physicalLocation"]["artifactLocation"]["uri"]
        f = os.path.basename(uri)
        reg = loc["physicalLocation"]["region"]
        ln = reg.get("startLine")
        for name, (wf, lo, hi) in where.items():
            if wf == f and lo <= ln <= hi:
                return (name, ln - lo, reg.get("startColumn"), reg.get("endLine", ln) - lo, reg.get("endColumn"))
        return (f, ln, reg.get("startColumn"), reg.get("endLine"), reg.get("endColumn"))
    c = Counter()
    for r in results:
        prim = tuple(sorted(rel(l) for l in r.get("locations", [])))
        sec = tuple(sorted(rel(l) for l in r.get("relatedLocations", [])))
        c[(r.get("ruleId"), r.get("level"), r["message"]["text"], prim, sec)] += 1
    return c, None


def suite_determinism(exe, tier, seed):
    """C17 (BOUNDED): the displayed findings are a function of the sources"""
    import random
    from collections import Counter
    viol, samples = [], []
    evals = nontrivial = 0
    d = tempfile.mkdtemp(prefix="vx-e2e-")
    def add(ob, inp, what):
        if len(viol) < 20 and not any(v["obligation"] == f"e2e|determinism|{ob}" for v in viol):
            viol.append({"unit": "e2e", "fn": "whole tool", "obligation": f"e2e|determinism|{ob}", "props": ["C17"], "input": inp, "what": what,
                         "replay": "python3 run/e2e.py determinism quick 0"})
    def diff(a, b):
        return {"only_first": sorted(map(str, (a - b).elements()))[:4], "only_second": sorted(map(str, (b - a).elements()))[:4]}
    try:
        base_a, base_b = ["fdead", "fhelper", "Num2Bits", "Leaf", "Fib", "Split", "Wide", "SqBad", "Scaled"], ["Mid", "Top"]
        where = det_project(d, base_a, base_b)
        ref, e = det_findings(exe, d, ["a.circom", "b.circom"], where)
        evals += 1
        if ref is None:
            add("run", {}, "reference run: " + e)
            raise StopIteration
        samples.append({"run": "reference", "findings": sum(ref.values()), "kinds": sorted({k[0] for k in ref})})
        # the findings of a file's definitions do not depend on which other files are named with it: a.circom on its own
        alone, e = det_findings(exe, d, ["a.circom"], where)
        evals += 1; nontrivial += 1
        if alone is None:
            add("run", {"files": ["a.circom"]}, e)
        else:
            in_a = {n for n, (f, _, _) in where.items() if f == "a.circom"}
            joint_a = Counter({k: v for k, v in ref.items() if any(p and p[0] in in_a for p in k[3])})
            alone_a = Counter({k: v for k, v in alone.items() if any(p and p[0] in in_a for p in k[3])})
            if joint_a != alone_a:
                add("other-files", {"difference": diff(alone_a, joint_a)},
                    f"the findings of the definitions of a.circom differ between `a.circom` alone and `a.circom b.circom` (b.circom includes a.circom): {diff(alone_a, joint_a)}")
            if sum(alone_a.values()) < 5:
                raise RuntimeError("fixture produces too few findings to be a meaningful reference")
        # (1) the same command again: every process seeds its hash maps afresh
        for k in range(4 if tier == "quick" else 25):
            got, e = det_findings(exe, d, ["a.circom", "b.circom"], where)
            evals += 1; nontrivial += 1
            if got is None:
                add("run", {"repeat": k}, f"repeat {k}: {e}")
            elif got != ref:
                add("repeat", {"repeat": k, "difference": diff(ref, got)}, f"the same command displayed different findings on run {k + 2}: {diff(ref, got)}")
        # (2) the definitions of each file in another order; (3) the files in another order on the command line
        rng = random.Random(seed)
        perms = [(list(reversed(base_a)), list(reversed(base_b)))]
        for _ in range(2 if tier == "quick" else 12):
            pa, pb = base_a[:], base_b[:]
            rng.shuffle(pa); rng.shuffle(pb)
            perms.append((pa, pb))
        for (pa, pb) in perms:
            w2 = det_project(d, pa, pb)
            for files in (["a.circom", "b.circom"], ["b.circom", "a.circom"]):
                got, e = det_findings(exe, d, files, w2)
                evals += 1; nontrivial += 1
                if got is None:
                    add("run", {"order_a": pa, "order_b": pb, "files": files}, e)
                elif got != ref:
                    add("reorder", {"order_a": pa, "order_b": pb, "files": files, "difference": diff(ref, got)},
                        f"with the definitions in the order {pa} / {pb} and the files given as {files} the findings of some definition differ (positions taken relative to the definition): {diff(ref, got)}")
        # (4) unrelated definitions added; an unreferenced definition removed
        for (extra_a, extra_b) in ((["Unrelated"], []), ([], ["funrelated"]), (["funrelated", "Unrelated"], [])):
            w3 = det_project(d, extra_a + base_a, base_b + extra_b, extra=extra_a + extra_b)
            got, e = det_findings(exe, d, ["a.circom", "b.circom"], w3)
            evals += 1; nontrivial += 1
            if got is None:
                add("run", {"extra": extra_a + extra_b}, e)
            else:
                mine = Counter({k: v for k, v in got.items() if not any(p and p[0] in DET_EXTRA for p in k[3])})
                if mine != ref:
                    add("unrelated-added", {"extra": extra_a + extra_b, "difference": diff(ref, mine)},
                        f"adding the unrelated definitions {extra_a + extra_b} changed the findings of the others: {diff(ref, mine)}")
        w4 = det_project(d, base_a, base_b, drop=("fhelper",))   # referenced by Mid: its removal may change Mid's findings only
        w5 = det_project(d, base_a + ["Unrelated"], base_b, extra=["Unrelated"])
        a5, e = det_findings(exe, d, ["a.circom", "b.circom"], w5)
        w6 = det_project(d, base_a, base_b)
        a6, e2 = det_findings(exe, d, ["a.circom", "b.circom"], w6)
        evals += 2; nontrivial += 1
        if a5 is not None and a6 is not None:
            rest = Counter({k: v for k, v in a5.items() if not any(p and p[0] in DET_EXTRA for p in k[3])})
            if rest != a6:
                add("unrelated-removed", {"difference": diff(rest, a6)}, f"removing the unreferenced template `Unrelated` changed the findings of the others: {diff(rest, a6)}")
        # (5) a name defined both in the named file and in a file it includes: the same findings on every run (the
        # definition of the named file is the one that is analysed), with and without a main component
        for (pname, tail) in (("clash-with-main", "component main = T();\n"), ("clash-without-main", "")):
            open(os.path.join(d, "cl_lib.circom"), "w").write("pragma circom 2.0.0;\ntemplate T() { signal input a; signal output b; b <== a; }\n")
            open(os.path.join(d, "cl_user.circom"), "w").write('pragma circom 2.0.0;\ninclude "cl_lib.circom";\ntemplate T() { signal input a; signal output b; b <-- a * a; }\n' + tail)
            seen = []
            for k in range(8 if tier == "quick" else 30):
                rc, out, err = run_cli(exe, ["-v", "cl_user.circom"], d)
                evals += 1; nontrivial += 1
                seen.append((rc, tuple(sorted((c, ln) for (c, ln, _) in coded_findings(out)))))
            if len(set(seen)) > 1:
                kinds = sorted(set(seen), key=str)
                add(f"duplicate-name:{pname}", {"runs": len(seen), "outcomes": [str(k)[:300] for k in kinds[:3]]},
                    f"{pname}: `circomspect cl_user.circom` (template T defined in cl_user.circom and in the included cl_lib.circom) displayed {len(kinds)} different sets of findings in {len(seen)} runs, e.g. {str(kinds[0])[:200]} and {str(kinds[1])[:200]}")
            elif not any(c == "CS0013" or c == "CS0005" for (c, _) in seen[0][1]):
                add(f"duplicate-name:{pname}", {"outcome": str(seen[0])[:300]}, f"{pname}: the template T of the named file (with a `<--`) was not analysed: {str(seen[0])[:300]}")
        # (6) a definition with several errors of one kind (reads of variables that are never assigned, in sibling blocks):
        # whichever of them is reported, it is the same one on every run
        open(os.path.join(d, "undef.circom"), "w").write("pragma circom 2.0.0;\nfunction g(c) {\n  var a;\n  var b;\n  var r = 0;\n  if (c == 0) {\n    r = a + 1;\n  } else {\n    r = b + 2;\n  }\n  return r;\n}\n")
        seen = []
        for k in range(10 if tier == "quick" else 40):
            rc, out, err = run_cli(exe, ["-v", "undef.circom"], d)
            evals += 1; nontrivial += 1
            seen.append((rc, tuple(sorted((c, ln) for (c, ln, _) in coded_findings(out)))))
        if len(set(seen)) > 1:
            kinds = sorted(set(seen), key=str)
            add("which-error", {"runs": len(seen), "outcomes": [str(k)[:200] for k in kinds[:3]]},
                f"`circomspect undef.circom` (a function reading two never-assigned variables in the two branches of a conditional) displayed {len(kinds)} different sets of findings in {len(seen)} runs: {str(kinds[0])[:160]} and {str(kinds[1])[:160]}")
    except StopIteration:
        pass
    finally:
        shutil.rmtree(d, ignore_errors=True)
    return {"unit": "e2e-determinism", "evaluations": evals, "distinct_nontrivial": nontrivial, "exhaustive": False,
            "rule": "the real CLI (-l info, SARIF) on a two-file project with seven definitions that call and instantiate each other (one holds a loop over mutually dependent variables) and carry findings of a dozen kinds: the multiset of findings (rule id, level, message, primary and related regions taken relative to the definition they lie in) is the same when the command is repeated (fresh hasher seeds per process), when the definitions of each file are permuted, when the files are named in the other order, when unrelated definitions are added, and when an unreferenced definition is removed",
            "bound": ("5" if tier == "quick" else "26") + " runs of the same command; " + ("3" if tier == "quick" else "13") + " permutations x 2 file orders; 3 additions and 1 removal of unrelated definitions",
            "samples": samples, "violations": viol}


FAIL_CLEAN = """pragma circom 2.0.0;
template Sub() {
  signal input a;
  signal input b;
  signal output c;
  c <== a * b;
}
template Clean(n) {
  signal input in;
  signal output out;
  component s = Sub();
  s.a <== in;
  s.b <== in + n;
  out <== s.c;
}
"""
FAIL_MAIN = "component main = Clean(3);\n"


def suite_failures(exe, tier, seed):
    """C02 (BOUNDED): every failure class the pipeline can detect, injected at several positions of an otherwise clean
    project, is answered by an error-level report and a non-zero exit status — also under `--level error`"""
    import re
    viol, samples = [], []
    evals = nontrivial = 0
    d = tempfile.mkdtemp(prefix="vx-e2e-")
    def add(ob, inp, what):
        if len(viol) < 20 and not any(v["obligation"] == f"e2e|failures|{ob}" for v in viol):
            viol.append({"unit": "e2e", "fn": "whole tool", "obligation": f"e2e|failures|{ob}", "props": ["C02"], "input": inp, "what": what,
                         "replay": "python3 run/e2e.py failures quick 0"})
    def write(name, text):
        open(os.path.join(d, name), "w").write(text)
        return name
    def expect_failure(cls, case, files, src_note):
        nonlocal evals, nontrivial
        for level in ("warning", "error"):
            rc, out, err = run_cli(exe, ["-l", level] + files, d)
            evals += 1; nontrivial += 1
            errors = [l for l in out.split("\n") if re.match(r"^error(\[\w+\])?:", l)]
            if len(samples) < 8 and evals % 9 == 1:
                samples.append({"class": cls, "case": case, "level": level, "exit": rc, "errors": len(errors)})
            if rc is None or "panicked" in err or rc not in (0, 1):
                add(f"{cls}:abort", {"class": cls, "case": case, "files": files, "note": src_note}, f"{cls} / {case}: the tool aborted or hung (exit {rc})")
            elif rc == 0 or "No issues found." in out:
                add(f"{cls}:silent", {"class": cls, "case": case, "files": files, "level": level, "note": src_note},
                    f"{cls} / {case} with --level {level}: the tool printed `{'No issues found.' if 'No issues found.' in out else 'exit 0'}` although the input cannot be analysed ({src_note})")
            elif not errors:
                add(f"{cls}:level", {"class": cls, "case": case, "files": files, "level": level, "note": src_note},
                    f"{cls} / {case} with --level {level}: non-zero exit but no error-level report says what could not be analysed ({src_note})")
    try:
        clean = write("clean.circom", FAIL_CLEAN + FAIL_MAIN)
        rc, out, err = run_cli(exe, ["-l", "error", clean], d)
        evals += 1
        if rc != 0 or "No issues found." not in out:
            raise RuntimeError("the clean control project is not clean: " + out[-300:])
        lib = write("lib.circom", FAIL_CLEAN)
        # ---- A/B: a named file that does not exist / is a directory
        os.makedirs(os.path.join(d, "dir.circom"), exist_ok=True)
        for (case, files) in (("missing-only", ["missing.circom"]), ("missing-first", ["missing.circom", clean]), ("missing-last", [clean, "missing.circom"]),
                              ("directory-as-file", [clean, "dir.circom/"]) if False else ("missing-between", [lib, "missing.circom", clean])):
            expect_failure("unreadable-file", case, files, "a file named on the command line cannot be opened")
        # ---- a file named with another extension: it is a user-specified file like any other
        write("bad.txt", "pragma circom 2.0.0;\ntemplate Bad(a, a) { signal input i; signal output o; o <== i + a; }\ncomponent main = Bad(1, 2);\n")
        for (case, files) in (("missing-other-extension", ["missing.txt"]), ("missing-no-extension", [clean, "missing"]),
                              ("unanalysable-other-extension", ["bad.txt"]), ("unanalysable-other-extension-last", [lib, "bad.txt"])):
            expect_failure("unreadable-file", case, files, "a named file whose name does not end in .circom")
        # ---- C: unsupported compiler version
        for v in ("3.0.0", "2.99.0", "1.0.0", "2.3.0"):
            f = write("ver.circom", FAIL_CLEAN.replace("pragma circom 2.0.0;", f"pragma circom {v};") + FAIL_MAIN)
            expect_failure("compiler-version", v, [f], f"pragma circom {v}")
            expect_failure("compiler-version", v + "-second-file", [lib, f], f"pragma circom {v} in the second file")
        # ---- D: a lexical / syntactic error at every token of the clean file
        toks = [(m.start(), m.end()) for m in re.finditer(r"[A-Za-z_][A-Za-z_0-9]*|\d+|<==|==>|<--|-->|===|[{}()\[\];,.*+=<>]", FAIL_CLEAN + FAIL_MAIN)]
        base = FAIL_CLEAN + FAIL_MAIN
        step = 1 if tier == "thorough" else 5
        for k in range(0, len(toks), step):
            a, b = toks[k]
            f = write("syn.circom", base[:a] + " @ " + base[a:])
            expect_failure("syntax", f"illegal-character-before-token-{k}", [f], f"`@` inserted before `{base[a:b]}`")
        for k in range(2, len(toks), step * 3):
            a, b = toks[k]
            f = write("syn.circom", base[:a] + " } " + base[a:])
            expect_failure("syntax", f"stray-brace-before-token-{k}", [f], f"`}}` inserted before `{base[a:b]}`")
        f = write("syn.circom", base + "/* never closed")
        expect_failure("syntax", "unterminated-comment", [f], "a comment that is never closed")
        # the file may end in any state of the comment scanner: right after the opener, after a `*`, after `**`, after a `/` inside the comment
        for (k, tail) in enumerate(["/*", "/* end *", "/* end **", "/* end /", "/* end *\n", "/** doc **", "/* a */ /* b *", "// x\n/*"]):
            f = write("syn.circom", base + tail)
            expect_failure("syntax", f"unterminated-comment-ending-{k}", [f], f"the file ends inside a block comment: {tail!r}")
        # ---- E: malformed tuples and anonymous components (the definition cannot be desugared)
        for (case, body) in (("tuple-arity", "  signal x; signal y;\n  (x, y) <== (in, in, in);"), ("anonymous-arity", "  signal x;\n  x <== Sub()(in);"),
                             ("anonymous-unknown-template", "  signal x;\n  x <== Nope()(in, in);"), ("tuple-in-function", None)):
            if body is None:
                src = FAIL_CLEAN + "function g(a) {\n  var x; var y;\n  (x, y) = (a, a);\n  return x;\n}\n" + FAIL_MAIN
            else:
                src = FAIL_CLEAN.replace("  out <== s.c;", body + "\n  out <== s.c;") + FAIL_MAIN
            f = write("sugar.circom", src)
            expect_failure("desugaring", case, [f], case)
        # ---- F: repeated parameter names (the definition cannot be lifted)
        for (case, src) in (("template-first", "template Bad(a, a) { signal input i; signal output o; o <== i + a; }\n" + FAIL_CLEAN[len("pragma circom 2.0.0;\n"):]),
                            ("template-last", FAIL_CLEAN[len("pragma circom 2.0.0;\n"):] + "template Bad(b, a, b) { signal input i; signal output o; o <== i + a; }\n"),
                            ("function", FAIL_CLEAN[len("pragma circom 2.0.0;\n"):] + "function bad(a, a) { return a; }\n")):
            f = write("params.circom", "pragma circom 2.0.0;\n" + src + FAIL_MAIN)
            expect_failure("parameter-collision", case, [f], "a definition with a repeated parameter name")
        # ---- a definition that cannot be lifted and that other templates instantiate: whichever is analysed first (hash order)
        users = "".join(f"template User{k}() {{ signal input x; signal output y; component s = Scale({k}, {k}); s.i <== x; y <== s.o; }}\n" for k in range(1, 5))
        f = write("inst.circom", "pragma circom 2.0.0;\ntemplate Scale(k, k) { signal input i; signal output o; o <== i * k; }\n" + users + "component main = User1();\n")
        for rep in range(3 if tier == "quick" else 12):
            expect_failure("parameter-collision", f"instantiated-by-four-templates-run-{rep}", [f], "a template with a repeated parameter name that four clean templates instantiate")
        # ---- a failing named file that another named file includes (either order on the command line)
        for (case, libsrc) in (("syntax-error", FAIL_CLEAN.replace("  c <== a * b;", "  c <== a * b")), ("parameter-collision", FAIL_CLEAN + "template Dup(n, n) { signal input i; signal output o; o <== i + n; }\n")):
            write("inclib.circom", libsrc)
            write("incmain.circom", 'pragma circom 2.0.0;\ninclude "inclib.circom";\ntemplate Uses() { signal input x; signal output y; component s = Sub(); s.a <== x; s.b <== x; y <== s.c; }\ncomponent main = Uses();\n')
            expect_failure("named-and-included", case + "-included-first", ["inclib.circom", "incmain.circom"], f"{case} in a named file that the other named file includes")
            expect_failure("named-and-included", case + "-includer-first", ["incmain.circom", "inclib.circom"], f"{case} in a named file that the other named file includes")
        # ---- duplicate definitions (the earlier one is dropped)
        for (case, extra) in (("template", "template Sub() { signal input a; signal output c; c <== a; }\n"), ("function", "function h(a) { return a; }\nfunction h(a) { return a + 1; }\n")):
            f = write("dupdef.circom", FAIL_CLEAN + extra + FAIL_MAIN)
            expect_failure("duplicate-definition", case, [f], f"two {case}s with the same name")
        # the same without a main component (a library), in one file and across two named files
        for (case, extra) in (("template-no-main", "template Sub() { signal input a; signal output c; c <-- a; }\n"), ("function-no-main", "function h(a) { return a; }\nfunction h(a) { return a + 1; }\n")):
            f = write("dupnomain.circom", FAIL_CLEAN + extra)
            expect_failure("duplicate-definition", case, [f], f"two definitions with the same name in a file without a main component")
        f1 = write("dupa.circom", FAIL_CLEAN)
        f2 = write("dupb.circom", "pragma circom 2.0.0;\ntemplate Sub() { signal input a; signal output c; c <-- a; }\n")
        expect_failure("duplicate-definition", "two-named-files-no-main", [f1, f2], "two named files without a main component define the same template")
        expect_failure("duplicate-definition", "two-named-files-no-main-other-order", [f2, f1], "two named files without a main component define the same template")
        # ---- G: several main components
        m2 = write("main2.circom", "pragma circom 2.0.0;\ntemplate Other() { signal input i; signal output o; o <== i; }\ncomponent main = Other();\n")
        expect_failure("multiple-main", "two-files", [clean, m2], "two files with a main component each")
        expect_failure("multiple-main", "two-files-other-order", [m2, clean], "two files with a main component each")
        # the second main component sits in a file that is only included
        inc1 = write("incmain1.circom", 'pragma circom 2.0.0;\ninclude "main2.circom";\n' + FAIL_CLEAN[len("pragma circom 2.0.0;\n"):] + FAIL_MAIN)
        expect_failure("multiple-main", "second-main-in-included-file", [inc1], "the named file has a main component and includes a file with another one")
        write("main3.circom", "pragma circom 2.0.0;\ntemplate Third() { signal input i; signal output o; o <== i; }\ncomponent main = Third();\n")
        inc2 = write("incmain2.circom", 'pragma circom 2.0.0;\ninclude "main2.circom";\ninclude "main3.circom";\n' + FAIL_CLEAN[len("pragma circom 2.0.0;\n"):])
        expect_failure("multiple-main", "both-mains-in-included-files", [inc2], "the named file includes two files with a main component each")
    finally:
        shutil.rmtree(d, ignore_errors=True)
    return {"unit": "e2e-failures", "evaluations": evals, "distinct_nontrivial": nontrivial, "exhaustive": False,
            "rule": "the real CLI on a clean two-template project into which one failure is injected: a named file that does not exist (alone, first, last, between; also with another or no extension) or that cannot be analysed and is named with another extension, an unsupported `pragma circom` version (4 versions, first and second file), an illegal character or a stray brace before a token of the file (every token thorough, every fifth quick) and an unterminated comment, a malformed tuple or anonymous component (4 forms), a repeated parameter name (template first / last, function, a template that four others instantiate — repeated runs), two definitions with the same name, two main components (both file orders), a syntax error or parameter collision in a named file that another named file includes (both orders); each under --level warning and --level error: the exit status is non-zero, `No issues found.` is not printed, and an error-level report is displayed; the clean project itself exits 0",
            "bound": "9 failure classes (several main components also with the second one, or both, in files that are only included); syntax errors at " + ("every" if tier == "thorough" else "every fifth") + " token of a 17-line file; 2 levels each",
            "samples": samples, "violations": viol}


# ---- C09: dead-value claims against an interpreter (BOUNDED)
DV_P = 21888242871839275222246405745257275088548364400416034343698204186575808495617

class DvProg:
    """a function over locals v0..v3 and parameters p, q; every statement on its own line. Statements are tuples:
    ('set', line, var, expr, op) with op in '=', '+=', 'decl'; ('if', line, cond, then, else); ('loop', line, bound, body); ('ret', line, expr).
    Expressions: int | name | ('+', a, b) | ('*', a, b); conditions: ('<', a, b) | ('==', a, b)"""
    def __init__(self):
        self.lines = []
        self.body = []

def dv_expr_text(e):
    if isinstance(e, tuple):
        if e[0] == "?:":
            return f"({dv_expr_text(e[1])} ? {dv_expr_text(e[2])} : {dv_expr_text(e[3])})"
        return f"({dv_expr_text(e[1])} {e[0]} {dv_expr_text(e[2])})"
    return str(e)

def dv_eval(e, env):
    if isinstance(e, tuple):
        if e[0] == "?:":
            return dv_eval(e[2], env) if dv_eval(e[1], env) else dv_eval(e[3], env)
        a, b = dv_eval(e[1], env), dv_eval(e[2], env)
        if e[0] == "+": return (a + b) % DV_P
        if e[0] == "*": return (a * b) % DV_P
        if e[0] == "<": return 1 if a < b else 0      # operands stay far below p/2 in the generated programs
        if e[0] == "==": return 1 if a == b else 0
    if isinstance(e, int):
        return e
    return env[e]

class DvReturn(Exception):
    def __init__(self, v): self.v = v

def dv_run(stmts, env, trace, bump_line=None):
    for st in stmts:
        k = st[0]
        if k == "set":
            _, line, var, expr, op = st
            v = dv_eval(expr, env)
            if line == bump_line:
                v = (v + 1) % DV_P
            env[var] = (env[var] + v) % DV_P if op == "+=" else v
        elif k == "if":
            _, line, cond, a, b = st
            c = dv_eval(cond, env)
            trace.append((line, c))
            dv_run(a if c else b, env, trace, bump_line)
        elif k == "loop":
            _, line, ivar, bound, body = st
            env[ivar] = 0
            while True:
                c = 1 if env[ivar] < bound else 0
                trace.append((line, c))
                if not c: break
                dv_run(body, env, trace, bump_line)
                env[ivar] = env[ivar] + 1
        elif k == "ret":
            raise DvReturn(dv_eval(st[2], env))

def dv_exec(prog, p, q, bump_line=None):
    env = {"p": p, "q": q}
    trace = []
    try:
        dv_run(prog.body, env, trace, bump_line)
    except DvReturn as r:
        return r.v, trace
    return None, trace

def dv_generate(rng, size):
    prog = DvProg()
    lines = ["pragma circom 2.0.0;", "function f(p, q) {"]
    names = ["v0", "v1", "v2", "v3"]
    body = []
    def emit(text, depth):
        lines.append("  " * (depth + 1) + text)
        return len(lines)
    def operand(avail):
        return rng.choice(avail + [rng.randrange(0, 4)])
    def expr(avail):
        r = rng.random()
        if r < 0.35: return operand(avail)
        if r < 0.7: return ("+", operand(avail), operand(avail))
        if r < 0.85: return ("*", operand(avail), rng.randrange(0, 3))
        loc = [a for a in avail if a.startswith("v")] or avail
        return ("?:", (rng.choice(["<", "=="]), rng.choice(loc), rng.randrange(0, 4)), operand(avail), operand(avail))
    avail = ["p", "q"]
    for n in names:
        e = rng.randrange(0, 4) if rng.random() < 0.35 else expr(avail)
        ln = emit(f"var {n} = {dv_expr_text(e)};", 0)
        body.append(("set", ln, n, e, "decl"))
        avail.append(n)
    loop_ix = [0]
    def block(budget, depth, out):
        while budget > 0:
            budget -= 1
            if depth >= 1 and budget == 0 and rng.random() < 0.2:
                e = expr(avail)
                ln = emit(f"return {dv_expr_text(e)};", depth)
                out.append(("ret", ln, e))
                return
            r = rng.random()
            if r < 0.55 or depth >= 2:
                v = rng.choice(names); e = expr(avail); op = rng.choice(["=", "=", "+="])
                ln = emit(f"{v} {op} {dv_expr_text(e)};", depth)
                out.append(("set", ln, v, e, op))
            elif r < 0.8:
                c = (rng.choice(["<", "=="]), operand(avail), operand(avail))
                ln = emit(f"if ({dv_expr_text(c)[1:-1]}) {{", depth)
                a, b = [], []
                block(rng.randrange(1, 3), depth + 1, a)
                if rng.random() < 0.5:
                    emit("} else {", depth)
                    block(rng.randrange(1, 3), depth + 1, b)
                emit("}", depth)
                out.append(("if", ln, c, a, b))
            else:
                loop_ix[0] += 1
                iv = f"i{loop_ix[0]}"
                bound = rng.randrange(1, 4)
                ln = emit(f"for (var {iv} = 0; {iv} < {bound}; {iv}++) {{", depth)
                inner = []
                avail.append(iv)
                block(rng.randrange(1, 3), depth + 1, inner)
                avail.remove(iv)
                emit("}", depth)
                out.append(("loop", ln, iv, bound, inner))
    block(size, 0, body)
    e = expr(avail)
    ln = emit(f"return {dv_expr_text(e)};", 0)
    body.append(("ret", ln, e))
    lines += ["}", "template T() { signal input in; signal output out; out <== in + f(1, 2); }", "component main = T();", ""]
    prog.lines, prog.body = lines, body
    return prog

def dv_sets(stmts, acc):
    for st in stmts:
        if st[0] == "set": acc[st[1]] = st
        elif st[0] == "if": dv_sets(st[3], acc); dv_sets(st[4], acc)
        elif st[0] == "loop": dv_sets(st[4], acc)
    return acc


def suite_deadvalues(exe, tier, seed):
    """C09 (BOUNDED): every `value never read` / `does not influence the return value` / `parameter never read` claim is
    tested by replacing the value and running an interpreter of the generated program on a grid of inputs"""
    import random
    viol, samples = [], []
    evals = nontrivial = claims = 0
    n_prog = 250 if tier == "quick" else 2500
    d = tempfile.mkdtemp(prefix="vx-e2e-")
    grid = [(a, b) for a in (0, 1, 2, 5) for b in (0, 1, 3, 7)]
    def add(ob, inp, what):
        if len(viol) < 20 and not any(v["obligation"] == f"e2e|deadvalues|{ob}" for v in viol):
            viol.append({"unit": "e2e", "fn": "side-effect / unused-variable analysis (whole pipeline)", "obligation": f"e2e|deadvalues|{ob}", "props": ["C09"], "input": inp, "what": what,
                         "replay": "python3 run/e2e.py deadvalues quick 0"})
    try:
        for pi in range(n_prog):
            rng = random.Random(9000 * seed + pi)
            prog = dv_generate(rng, 3 + pi % 6)
            src = "\n".join(prog.lines)
            path = os.path.join(d, "dv.circom")
            open(path, "w").write(src)
            rc, out, err = run_cli(exe, ["-v", path], d)
            evals += 1
            if rc is None or rc not in (0, 1) or "panicked" in err:
                add("run", {"program": pi, "source": src}, f"program {pi}: the tool aborted or hung (exit {rc})")
                continue
            if any(c.startswith("P") for (c, _, _) in coded_findings(out)):
                raise RuntimeError("generator produced a program the tool rejects: " + src[:600])
            sets = dv_sets(prog.body, {})
            for (code, ln, text) in coded_findings(out):
                if code in ("CS0006", "CS0008") and ln in sets:
                    claims += 1; nontrivial += 1
                    st = sets[ln]
                    for (a, b) in grid:
                        r0, t0 = dv_exec(prog, a, b)
                        r1, t1 = dv_exec(prog, a, b, bump_line=ln)
                        differs = (r0 != r1) if code == "CS0008" else (r0 != r1 or t0 != t1)
                        if differs:
                            add("value-is-used" if code == "CS0006" else "value-influences-return",
                                {"program": pi, "line": ln, "statement": prog.lines[ln - 1].strip(), "inputs": {"p": a, "q": b}, "source": src},
                                f"program {pi}, line {ln} `{prog.lines[ln - 1].strip()}`: the tool says ({code}) that the value assigned here {'is never read' if code == 'CS0006' else 'does not influence the return value'}, but with p = {a}, q = {b} the function returns {r0}, and {r1} when that value is replaced by the value plus one")
                            break
                elif code == "CS0007" and ln == 2:
                    # which parameter: named in the message
                    import re as _re
                    m = _re.search(r"parameter `(\w+)`", text)
                    if m and m.group(1) in ("p", "q"):
                        claims += 1; nontrivial += 1
                        for (a, b) in grid:
                            r0, t0 = dv_exec(prog, a, b)
                            r1, t1 = dv_exec(prog, a + 1, b) if m.group(1) == "p" else dv_exec(prog, a, b + 1)
                            if (r0, t0) != (r1, t1):
                                add("parameter-is-used", {"program": pi, "parameter": m.group(1), "inputs": {"p": a, "q": b}, "source": src},
                                    f"program {pi}: the tool says (CS0007) that the parameter `{m.group(1)}` is never read, but changing it from {a if m.group(1) == 'p' else b} to {(a if m.group(1) == 'p' else b) + 1} (other parameter {b if m.group(1) == 'p' else a}) changes the result from {r0} to {r1}")
                                break
            if len(samples) < 4 and pi % 9 == 0:
                samples.append({"program": pi, "lines": len(prog.lines), "claims_so_far": claims})
        # ---- templates: hand-written shapes in which the value of the marked variable decides a constraint, a signal
        # assignment, an assertion, a dimension or a branch: no CS0006 / CS0007 / CS0008 claim may name it
        TPL = "pragma circom 2.0.0;\ntemplate Sub() { signal input a; signal output b; b <== a * a; }\ntemplate T(n) {\n  signal input in; signal input arr[3]; signal output out;\n%s\n}\ncomponent main = T(2);\n"
        shapes = [
            ("single-name-constraint", "  var t = in * 2;\n  t === 4;\n  out <== in;", ["t"]),
            ("sum-equals-one", "  var t = 0;\n  for (var i = 0; i < 3; i++) { t += arr[i]; }\n  t === 1;\n  out <== in;", ["t"]),
            ("parameter-in-single-name-constraint", "  var t = in * n;\n  t === 4;\n  out <== in;", ["t", "n"]),
            ("array-slot-in-single-name-constraint", "  var t[2];\n  t[0] = in * 3;\n  t[0] * t[0] === t[0];\n  out <== in;", ["t"]),
            ("constraint-with-a-signal", "  var t = in * 2;\n  t === out;\n  out <== in;", ["t"]),
            ("feeds-constraint-assignment", "  var t = in * 2;\n  out <== t;", ["t"]),
            ("feeds-signal-assignment", "  var t = in + 1;\n  out <-- t;\n  out === in + 1;", ["t"]),
            ("feeds-assert", "  var t = in;\n  assert(t == 1);\n  out <== in;", ["t"]),
            ("feeds-dimension", "  var t = n;\n  signal s[t];\n  s[0] <== in;\n  out <== s[0];", ["t", "n"]),
            ("feeds-index", "  var t = n - 2;\n  out <== arr[t];", ["t", "n"]),
            ("decides-branch", "  var t = n;\n  if (t == 1) { out <-- in; } else { out <-- 2 * in; }\n  out === in;", ["t", "n"]),
            ("decides-loop-bound", "  var t = n;\n  var acc = 0;\n  for (var i = 0; i < t; i++) { acc += arr[i]; }\n  out <== acc;", ["t", "n", "acc"]),
            ("feeds-component-input", "  var t = in * 2;\n  component c = Sub();\n  c.a <== t;\n  out <== c.b;", ["t"]),
            ("feeds-template-parameter", "  var t = n + 1;\n  signal s[t];\n  for (var i = 0; i < t; i++) { s[i] <== in; }\n  out <== s[0];", ["t", "n"]),
            ("through-second-variable", "  var t = in * 2;\n  var u = t + 1;\n  u === 5;\n  out <== in;", ["t", "u"]),
            ("through-ternary", "  var t = n;\n  var u = t == 1 ? in : 2 * in;\n  out <== u;", ["t", "u", "n"]),
        ]
        for (sname, body, names) in shapes:
            path = os.path.join(d, "t.circom")
            open(path, "w").write(TPL % body)
            rc, out, err = run_cli(exe, ["-v", path], d)
            evals += 1; nontrivial += 1
            if rc is None or "panicked" in err or rc not in (0, 1):
                add("run", {"shape": sname}, f"template shape {sname}: the tool aborted or hung (exit {rc})")
                continue
            for (code, ln, text) in coded_findings(out):
                m = re.search(r"(?:variable|parameter|value assigned to) `(\w+)`", text)
                if code in ("CS0006", "CS0007", "CS0008") and m and m.group(1) in names:
                    claims += 1
                    first = text.split("\n")[0]
                    add(f"template:{sname}", {"shape": sname, "source": TPL % body},
                        f"template shape {sname}: `{first.strip()}` — but the value of `{m.group(1)}` decides a constraint, a signal assignment, an assertion, a dimension or a branch of the template:\n{body}")
    finally:
        shutil.rmtree(d, ignore_errors=True)
    return {"unit": "e2e-deadvalues", "evaluations": evals, "distinct_nontrivial": nontrivial, "exhaustive": False,
            "rule": "the real CLI on generated functions (four locals declared with initial values, then assignments, compound assignments, if / else, counted for loops up to depth 2, early returns inside branches and loops, a final return; operands are parameters, locals, loop counters and small constants; +, multiplication by a small constant and the ternary `c ? a : b`): for every CS0006 (`value never read`) and CS0008 (`does not influence the return value`) finding anchored at an assignment, an interpreter of the generated program runs the function on 16 inputs twice — as written, and with the value assigned at that statement replaced by the value plus one — and the return values (for CS0006 also every branch and loop decision) must agree; for CS0007 (`parameter never read`) the parameter itself is varied",
            "bound": f"{n_prog} generated functions of 3..8 body statements (seeded); 16 inputs each; 16 hand-written template shapes (a variable that alone makes up a constraint, feeds a signal assignment, an assertion, a dimension, an index, a branch, a loop bound, a component input); {claims} claims examined",
            "samples": samples, "violations": viol}


def suite_values_random(exe, tier, seed):
    import e2e_degrees
    return e2e_degrees.suite_values_random(exe, tier, seed, run_cli)


def suite_degrees(exe, tier, seed):
    import e2e_degrees
    return e2e_degrees.suite(exe, tier, seed, run_cli)


def suite_timeboxreal(exe, tier, seed):
    """C20 / C01 (BOUNDED, thorough tier only): the REAL wall-clock time box. A template with 6000 straight-line assignments
    makes both propagation loops run into their 10 s limit in a release build; the tool must still complete normally."""
    viol, samples = [], []
    evals = nontrivial = 0
    if tier != "thorough":
        return {"unit": "e2e-timeboxreal", "evaluations": 0, "distinct_nontrivial": 0, "exhaustive": False,
                "rule": "thorough tier only (each run takes about 30 s): the real 10 s time box on a 6000-statement template", "bound": "not run in the quick tier", "samples": [], "violations": []}
    d = tempfile.mkdtemp(prefix="vx-e2e-")
    try:
        body = "".join(f"  x = x + {k};\n" for k in range(6000))
        path = os.path.join(d, "slow.circom")
        open(path, "w").write("pragma circom 2.0.0;\ntemplate T() {\n  signal input a;\n  signal output b;\n  var x = 0;\n" + body + "  b <== a + x;\n}\ncomponent main = T();\n")
        env = dict(os.environ, RUST_LOG="debug")
        t0 = time.time()
        try:
            p = subprocess.run([exe, path], cwd=d, capture_output=True, text=True, timeout=300, env=env, preexec_fn=_cli_limits)
            rc, out, err = p.returncode, p.stdout, p.stderr
        except subprocess.TimeoutExpired:
            rc, out, err = None, "", ""
        evals += 1
        fired = (out + err).count("within allotted time")
        nontrivial += 1 if fired else 0
        samples.append({"case": "6000-assignments", "exit": rc, "time_boxes_fired": fired, "seconds": round(time.time() - t0, 1)})
        what = None
        if rc is None:
            what = "the tool did not terminate within 300 s"
        elif "panicked" in err or rc not in (0, 1):
            first = next((l for l in err.split("\n") if "panicked" in l or "overflow" in l), err[-200:])
            what = f"the tool aborted (exit {rc}) after {fired} time box(es) had fired: {first.strip()[:200]}"
        elif "circomspect:" not in out:
            what = f"no summary line (exit {rc})"
        if what:
            viol.append({"unit": "e2e", "fn": "Cfg::propagate_values / propagate_degrees (wall-clock time box)", "obligation": "e2e|timeboxreal|completes", "props": ["C20", "C01"],
                         "input": {"case": "6000 straight-line assignments"}, "what": f"a template with 6000 straight-line assignments: {what}", "replay": "python3 run/e2e.py timeboxreal thorough 0"})
    finally:
        shutil.rmtree(d, ignore_errors=True)
    return {"unit": "e2e-timeboxreal", "evaluations": evals, "distinct_nontrivial": nontrivial, "exhaustive": False,
            "rule": "the real CLI (release build) on a template with 6000 straight-line assignments, on which value and degree propagation both run into their real 10 s wall-clock limit: the tool completes normally (exit 0 or 1, summary line, no panic); non-trivial = at least one time box fired (read from the debug log)",
            "bound": "one template, one run (about 30 s); thorough tier only", "samples": samples, "violations": viol}


def main():
    suite, tier, seed = sys.argv[1], (sys.argv[2] if len(sys.argv) > 2 else "quick"), int(sys.argv[3]) if len(sys.argv) > 3 else 0
    try:
        exe = build_cli()
    except Exception as e:
        print(json.dumps({"error": str(e)}))
        return
    r = {"tuples": suite_tuples, "output": suite_output, "values": suite_values, "curves": suite_curves, "includes": suite_includes, "totality": suite_totality, "positions": suite_positions, "sigassign": suite_sigassign, "scopes": suite_scopes, "determinism": suite_determinism, "failures": suite_failures, "deadvalues": suite_deadvalues, "degrees": suite_degrees, "values-random": suite_values_random, "timeboxreal": suite_timeboxreal}[suite](exe, tier, seed)
    print(json.dumps(r))

if __name__ == "__main__":
    main()
