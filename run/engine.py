"""Driver for contract-based deductive verification of /repo with Verus.

extract (tools/vx)  ->  splice contracts  ->  verus  ->  triage  ->  evidence

See DESIGN.md §2-§4.  Nothing in here contains code of /repo: function bodies come from vx on every run.
"""
import hashlib
import json
import os
import re
import subprocess
import sys
import time
import tomllib

VERIF = os.path.dirname(os.path.dirname(os.path.abspath(__file__)))
REPO = os.environ.get("VERIF_REPO", "/repo")
BUILD = os.path.join(VERIF, "build")
VX = os.path.join(VERIF, "tools", "vx", "target", "release", "vx")

EXIT_OK, EXIT_VIOLATION, EXIT_UNDECIDED = 0, 1, 2


class Undecided(Exception):
    """The machinery could not decide (lost anchor, unsupported construct, tool crash, rlimit)."""

    def __init__(self, reason, detail=""):
        super().__init__(reason)
        self.reason = reason
        self.detail = detail


def sha256(s):
    return hashlib.sha256(s.encode() if isinstance(s, str) else s).hexdigest()


def ensure_tools():
    """Build vx if its binary is missing or older than its sources (offline)."""
    src = os.path.join(VERIF, "tools", "vx", "src", "main.rs")
    if os.path.exists(VX) and os.path.getmtime(VX) >= os.path.getmtime(src):
        return
    env = dict(os.environ, CARGO_NET_OFFLINE="true")
    p = subprocess.run(["cargo", "build", "--release", "--offline"], cwd=os.path.join(VERIF, "tools", "vx"),
                       env=env, capture_output=True, text=True)
    if p.returncode != 0:
        raise Undecided("tool-build-failed", p.stderr[-2000:])


# ------------------------------------------------------------------------------------------------
# unit loading

def load_unit(name):
    d = os.path.join(VERIF, "units", name)
    with open(os.path.join(d, "unit.toml"), "rb") as f:
        u = tomllib.load(f)
    u["dir"] = d
    u["name"] = name
    return u


def extract(unit):
    cfg = {"sources": []}
    for s in unit["sources"]:
        e = dict(s)
        e["file"] = os.path.join(REPO, s["file"])
        cfg["sources"].append(e)
    p = subprocess.run([VX], input=json.dumps(cfg), capture_output=True, text=True)
    if p.returncode == 3:
        raise Undecided("lost-anchor", p.stderr.strip())
    if p.returncode != 0:
        raise Undecided("extraction-failed", p.stderr.strip()[-2000:])
    return json.loads(p.stdout)


# ------------------------------------------------------------------------------------------------
# contract files

TAG_RE = re.compile(r"//@\s*((?:C\d+\s*)+)$")


class FnContract:
    def __init__(self, name, tags, src_line):
        self.name = name
        self.tags = tags
        self.src_line = src_line
        self.header = []      # list of (text, src_line)
        self.loops = {}       # idx -> {"head": str, "lines": [(text, src_line)]}
        self.inserts = []     # {"where": "before"/"after", "pat": str, "lines": [...], "src_line": n}
        self.canary = True
        self.begin = []       # ghost text placed at the very start of the body
        self.end = []         # ghost text placed before the last line (the tail expression) of the body
        self.closures = []    # {"pat": closure text, "lines": annotated closure header (ghost ensures)}
        self.attrs = []       # ghost-only attributes placed before the fn (e.g. #[verifier::loop_isolation(false)])


TRAIT_INSERTS = {}   # path -> {trait name: [(line, ln)]}


def parse_contracts(path):
    fns = {}
    order = []
    TRAIT_INSERTS[path] = {}
    if not os.path.exists(path):
        return fns, order
    cur = None
    sect = None
    with open(path) as f:
        for ln, raw in enumerate(f, 1):
            line = raw.rstrip("\n")
            st = line.strip()
            if st.startswith("#") and not st.startswith("#["):
                continue
            if st.startswith("@fn "):
                m = re.match(r"@fn\s+(\S+)\s*(?:\[([^\]]*)\])?\s*$", st)
                if not m:
                    raise Undecided("bad-contract-file", f"{path}:{ln}: {st}")
                cur = FnContract(m.group(1), (m.group(2) or "").split(), ln)
                if cur.name in fns:
                    raise Undecided("bad-contract-file", f"{path}:{ln}: duplicate @fn {cur.name}")
                fns[cur.name] = cur
                order.append(cur.name)
                sect = cur.header
                continue
            if st.startswith("@loop "):
                m = re.match(r'@loop\s+(\d+)\s+"(.*)"\s*(?:iter\s+(\w+))?\s*$', st)
                if not m or cur is None:
                    raise Undecided("bad-contract-file", f"{path}:{ln}: {st}")
                idx = int(m.group(1))
                cur.loops[idx] = {"head": m.group(2), "lines": [], "src_line": ln, "iter": m.group(3)}
                sect = cur.loops[idx]["lines"]
                continue
            if st.startswith("@in "):
                m = re.match(r'@in\s+"(.*?)"\s+(before|after|begin|end)(?:\s+"(.*)")?\s*$', st)
                if not m or cur is None:
                    raise Undecided("bad-contract-file", f"{path}:{ln}: {st}")
                ins = {"where": m.group(2), "pat": m.group(3) or "", "scope": m.group(1), "lines": [], "src_line": ln}
                cur.inserts.append(ins)
                sect = ins["lines"]
                continue
            if st.startswith("@before ") or st.startswith("@after "):
                m = re.match(r'@(before|after)\s+"(.*)"\s*$', st)
                if not m or cur is None:
                    raise Undecided("bad-contract-file", f"{path}:{ln}: {st}")
                ins = {"where": m.group(1), "pat": m.group(2), "lines": [], "src_line": ln}
                cur.inserts.append(ins)
                sect = ins["lines"]
                continue
            if st.startswith("@trait "):
                tn = st[7:].strip()
                TRAIT_INSERTS[path].setdefault(tn, [])
                sect = TRAIT_INSERTS[path][tn]
                cur = None
                continue
            if st.startswith("@attr "):
                if cur is None:
                    raise Undecided("bad-contract-file", f"{path}:{ln}: {st}")
                cur.attrs.append(st[6:].strip())
                continue
            if st.startswith("@closure "):
                m = re.match(r'@closure\s+"(.*)"\s*$', st)
                if not m or cur is None:
                    raise Undecided("bad-contract-file", f"{path}:{ln}: {st}")
                cl = {"pat": m.group(1), "lines": [], "src_line": ln}
                cur.closures.append(cl)
                sect = cl["lines"]
                continue
            if st == "@begin":
                if cur is None:
                    raise Undecided("bad-contract-file", f"{path}:{ln}: {st}")
                sect = cur.begin
                continue
            if st == "@end":
                if cur is None:
                    raise Undecided("bad-contract-file", f"{path}:{ln}: {st}")
                sect = cur.end
                continue
            if st.startswith("@nocanary"):
                cur.canary = False
                continue
            if st.startswith("@"):
                raise Undecided("bad-contract-file", f"{path}:{ln}: unknown directive {st}")
            if sect is None:
                if st:
                    raise Undecided("bad-contract-file", f"{path}:{ln}: text outside @fn")
                continue
            if st:
                sect.append((line, ln))
    return fns, order


def clauses_of(lines):
    """Split a requires/ensures/invariant/decreases header into clauses.
    A clause is a line at the minimum indentation below a keyword line; deeper lines continue it."""
    out = []
    kind = None
    base = None
    for text, ln in lines:
        st = text.strip()
        m = re.match(r"^(requires|ensures|invariant|invariant_except_break|decreases|recommends|returns|opens_invariants|no_unwind)\b(.*)$", st)
        indent = len(text) - len(text.lstrip())
        if m:
            kind = m.group(1)
            base = None
            rest = m.group(2).strip()
            if rest:
                out.append({"kind": kind, "text": rest, "lines": [ln]})
            continue
        if kind is None:
            continue
        if base is None or indent <= base:
            base = indent if base is None else min(base, indent)
            out.append({"kind": kind, "text": st, "lines": [ln]})
        else:
            out[-1]["text"] += " " + st
            out[-1]["lines"].append(ln)
    for c in out:
        m = TAG_RE.search(c["text"])
        c["tags"] = m.group(1).split() if m else None
    return out


# ------------------------------------------------------------------------------------------------
# splicing

def _find_matching(text, i, open_ch, close_ch):
    """index of the bracket matching text[i] (which must be open_ch); skips strings, chars, comments."""
    depth = 0
    n = len(text)
    k = i
    while k < n:
        c = text[k]
        if c == '"':
            k += 1
            while k < n and text[k] != '"':
                if text[k] == "\\":
                    k += 1
                k += 1
        elif c == "'":
            # char literal or lifetime
            m = re.match(r"'(\\.[^']*|[^'\\])'", text[k:])
            if m:
                k += m.end() - 1
        elif text.startswith("//", k):
            e = text.find("\n", k)
            k = n if e < 0 else e
        elif text.startswith("/*", k):
            e = text.find("*/", k)
            k = n if e < 0 else e + 1
        elif c == open_ch:
            depth += 1
        elif c == close_ch:
            depth -= 1
            if depth == 0:
                return k
        k += 1
    return -1


BODY_RE = re.compile(r'[ \t]*__vx_body!\(\s*"([^"]*)"\s*,?\s*\);[ \t]*\n')
LOOP_RE = re.compile(r'[ \t]*__vx_loop!\(\s*"([^"]*)"\s*,\s*(\d+)usize\s*,\s*"((?:[^"\\]|\\.)*)"\s*,?\s*\);[ \t]*\n')
RET_RE = re.compile(r"\(\s*__vx_ret_(\w+),\s*")


def _unescape(s):
    return s.encode().decode("unicode_escape") if "\\" in s else s


def _nows(s):
    return re.sub(r"\s+", "", s)


def _block(ident, lines, indent="    "):
    """inserted ghost text, bracketed by sentinel comments used to build the line map"""
    body = "\n".join(t for t, _ in lines)
    return f"//@@ {ident}\n{body}\n//@@ end\n"


# constructs of a function under contract that carry no specification and are therefore opaque to the verifier:
# closures without a @closure contract, loops no @loop directive mentions. {unit: {fn: {"closures": n, "bare_loops": k}}}
SHAPE = {}


def splice_item(item, contracts, unit_name, used, canaries):
    """Returns item text with contracts spliced in and markers removed."""
    text = item["text"]
    fninfo = {f["name"]: f for f in item["fns"]}
    for q, f in fninfo.items():
        if q in contracts:
            SHAPE.setdefault(unit_name, {})[q] = {"closures": int(f.get("closures", 0)), "bare_loops": 0}   # annotated ones are subtracted below

    # ---- traits: ghost members after the opening brace; contracts on body-less method declarations before the `;`
    if item["kind"] == "impl":
        # `@trait <Trait> for <Type>`: ghost members (spec fns of the trait) after the impl's opening brace
        for pth, d in TRAIT_INSERTS.items():
            if item["name"] in d and pth.startswith(os.path.join(VERIF, "units", unit_name) + os.sep):
                ob = text.find("{")
                text = text[:ob + 1] + "\n" + _block(f"{unit_name}|{item['name']}|trait|0", d[item["name"]]) + text[ob + 1:]
    if item["kind"] == "trait":
        tins = None
        for pth, d in TRAIT_INSERTS.items():
            if item["name"] in d and pth.startswith(os.path.join(VERIF, "units", unit_name) + os.sep):
                tins = d[item["name"]]
        if tins:
            ob = text.find("{")
            text = text[:ob + 1] + "\n" + _block(f"{unit_name}|{item['name']}|trait|0", tins) + text[ob + 1:]
        for q, f in fninfo.items():
            c = contracts.get(q)
            if f["has_body"] or not c or not c.header:
                continue
            short = q.split("::")[-1]
            m = re.search(r"\bfn\s+" + re.escape(short) + r"\b", text)
            if not m:
                raise Undecided("lost-anchor", f"trait method {q} not found")
            semi = text.find(";", m.end())
            text = text[:semi] + "\n" + _block(f"{unit_name}|{q}|header|0", c.header).rstrip("\n") + "\n" + text[semi:]
            used.add(q)

    # ---- closure contracts: `|x| body`  ->  `|x: T| -> (out: U) ensures .. { body }`  (ghost ensures; the body is unchanged)
    for q, f in fninfo.items():
        c = contracts.get(q)
        if not c or not c.closures:
            continue
        for cl in c.closures:
            m = None
            for mm in BODY_RE.finditer(text):
                if mm.group(1) == q:
                    m = mm
            if m is None:
                raise Undecided("lost-anchor", f"no body marker for {q}")
            ob = text.rfind("{", 0, m.start())
            end = _find_matching(text, ob, "{", "}")
            region = text[m.end():end]
            pat = cl["pat"]
            n = region.count(pat)
            if n == 0:
                raise Undecided("lost-anchor", f"{q}: closure `{pat}` not found")
            if q in SHAPE.get(unit_name, {}):
                SHAPE[unit_name][q]["closures"] = max(0, SHAPE[unit_name][q]["closures"] - n)
            bar2 = pat.index("|", pat.index("|") + 1)
            body = pat[bar2 + 1:].strip()
            header = " ".join(t.strip() for t, _ in cl["lines"])
            region = region.replace(pat, f"{header} {{ {body} }}")
            text = text[:m.end()] + region + text[end:]
        used.add(q)

    # ---- @end: ghost text before the last line of the body (the tail expression must be a single line)
    for q, f in fninfo.items():
        c = contracts.get(q)
        if not c or not c.end:
            continue
        m = None
        for mm in BODY_RE.finditer(text):
            if mm.group(1) == q:
                m = mm
        if m is None:
            raise Undecided("lost-anchor", f"no body marker for {q}")
        ob = text.rfind("{", 0, m.start())
        end = _find_matching(text, ob, "{", "}")
        body = text[m.end():end].rstrip()
        last_nl = body.rfind("\n")
        last = body[last_nl + 1:]
        if last.strip().endswith(("}", ";")) or not last.strip():
            # the body ends with a statement (unit return): the ghost text goes after it, just before the closing brace
            pos = m.end() + len(body) + 1
            text = text[:pos] + _block(f"{unit_name}|{q}|end|0", c.end) + text[pos:]
            used.add(q)
            continue
        pos = m.end() + last_nl + 1
        text = text[:pos] + _block(f"{unit_name}|{q}|end|0", c.end) + text[pos:]
        used.add(q)

    # ---- before/after insertions (fn regions are delimited by body markers)
    for q, f in fninfo.items():
        c = contracts.get(q)
        if not c or not c.inserts:
            continue
        for k, ins in enumerate(c.inserts):
            m = None
            for mm in BODY_RE.finditer(text):
                if mm.group(1) == q:
                    m = mm
            if m is None:
                raise Undecided("lost-anchor", f"no body marker for {q}")
            start = m.end()
            nxt = None
            for mm in BODY_RE.finditer(text, start):
                nxt = mm
                break
            # region end: the end of this fn = matching brace of the body's opening brace
            ob = text.rfind("{", 0, m.start())
            end = _find_matching(text, ob, "{", "}")
            if end < 0:
                raise Undecided("lost-anchor", f"cannot delimit body of {q}")
            region = text[start:end]
            lines = region.split("\n")
            pat = _nows(ins["pat"])
            inmark = []
            open_m = False
            for l in lines:
                if "__vx_loop!(" in l or "__vx_body!(" in l:
                    open_m = True
                inmark.append(open_m)
                if open_m and ");" in l:
                    open_m = False
            lo, hi_ = 0, len(lines)
            if ins.get("scope"):
                sp = _nows(ins["scope"])
                sh = [i for i, l in enumerate(lines) if sp in _nows(l) and not inmark[i]]
                if len(sh) != 1:
                    raise Undecided("lost-anchor", f"{q}: scope \"{ins['scope']}\" matches {len(sh)} lines")
                lo = sh[0]
                depth = 0
                hi_ = lo
                while hi_ < len(lines):
                    for ch in lines[hi_]:
                        if ch in "([{":
                            depth += 1
                        elif ch in ")]}":
                            depth -= 1
                    if depth <= 0:
                        break
                    hi_ += 1
            blk = _block(f"{unit_name}|{q}|{ins['where']}|{k}", ins["lines"]).rstrip("\n").split("\n")
            if ins.get("scope") and ins["where"] == "begin":
                lines[lo + 1:lo + 1] = blk
                text = text[:start] + "\n".join(lines) + text[end:]
                continue
            if ins.get("scope") and ins["where"] == "end":
                # before the tail expression of the scope (its last line when that is not a statement), else before the closing brace
                last = hi_ - 1
                at = last if (last > lo and not lines[last].rstrip().endswith((";", "}", "{"))) else hi_
                lines[at:at] = blk
                text = text[:start] + "\n".join(lines) + text[end:]
                continue
            if pat.startswith("^"):
                # whole-line anchor: the line (whitespace removed) equals the pattern
                hits = [i for i, l in enumerate(lines) if lo <= i <= hi_ and pat[1:] == _nows(l) and not inmark[i]]
            else:
                hits = [i for i, l in enumerate(lines) if lo <= i <= hi_ and pat in _nows(l) and not inmark[i]]
            if len(hits) != 1:
                raise Undecided("lost-anchor", f"{q}: @{ins['where']} \"{ins['pat']}\" matches {len(hits)} lines")
            i = hits[0]
            if ins["where"] == "before":
                lines[i:i] = blk
            else:
                # extend to the end of the statement that starts on line i (balanced brackets)
                depth = 0
                e = i
                while e < len(lines):
                    for ch in lines[e]:
                        if ch in "([{":
                            depth += 1
                        elif ch in ")]}":
                            depth -= 1
                    # the statement ends where the brackets balance on a line that closes a statement (a method chain
                    # continued on the next line balances earlier: `x[i]` / `.f()` / `{ .. }`)
                    if depth <= 0 and (lines[e].rstrip().endswith((";", "}")) or e + 1 >= len(lines) or not lines[e + 1].lstrip().startswith((".", "{"))):
                        break
                    e += 1
                lines[e + 1:e + 1] = blk
            text = text[:start] + "\n".join(lines) + text[end:]
        used.add(q)

    # ---- loop contracts
    # loops are anchored by their header text; among loops with the same header, by order of occurrence
    # (so an inserted or removed unrelated loop does not lose the anchors of the others)
    occ = {}

    def loop_sub(m):
        q, idx, head = m.group(1), int(m.group(2)), _unescape(m.group(3))
        c = contracts.get(q)
        if c is not None and not c.loops and q in SHAPE.get(unit_name, {}):
            SHAPE[unit_name][q]["bare_loops"] += 1
        if not c or not c.loops:
            return ""
        key = (q, _nows(head))
        k = occ.get(key, 0)
        occ[key] = k + 1
        same = [i for i in sorted(c.loops) if _nows(c.loops[i]["head"]) == _nows(head)]
        if k >= len(same):
            if q in SHAPE.get(unit_name, {}):
                SHAPE[unit_name][q]["bare_loops"] += 1
            return ""   # a loop the contracts do not mention: verus will demand what it needs (invariants / decreases)
        cidx = same[k]
        c.loops[cidx]["_seen"] = True
        return "\x00LOOP\x00" + f"{q}\x01{cidx}\x00"

    text = LOOP_RE.sub(loop_sub, text)
    while True:
        m = re.search(r"\x00LOOP\x00([^\x01]*)\x01(\d+)\x00", text)
        if not m:
            break
        q, idx = m.group(1), int(m.group(2))
        c = contracts[q]
        ob = text.rfind("{", 0, m.start())
        if ob < 0 or text[ob + 1:m.start()].strip() != "":
            raise Undecided("lost-anchor", f"{q}: cannot place loop #{idx} invariant")
        blk = _block(f"{unit_name}|{q}|loop|{idx}", c.loops[idx]["lines"])
        head_ins = ""
        if c.loops[idx].get("iter"):
            # ghost name for the loop's iterator:  `for PAT in EXPR`  ->  `for PAT in it: EXPR`
            hs = None
            for mm in re.finditer(r"(?:^|\n)[ \t]*(?:'\w+:\s*)?for\s", text[:ob]):
                hs = mm
            if hs is None:
                raise Undecided("lost-anchor", f"{q}: cannot find header of loop #{idx}")
            ip = text.find(" in ", hs.end(), ob)
            if ip < 0:
                raise Undecided("lost-anchor", f"{q}: cannot find `in` of loop #{idx}")
            text = text[:ip + 4] + c.loops[idx]["iter"] + ": " + text[ip + 4:]
            shift = len(c.loops[idx]["iter"]) + 2
            ob += shift
            m_end2 = m.end() + shift
        else:
            m_end2 = m.end()
        text = text[:ob] + "\n" + blk + "{\n" + text[m_end2:]
    for q, c in contracts.items():
        if q in fninfo:
            for idx, spec in c.loops.items():
                if not spec.get("_seen"):
                    raise Undecided("lost-anchor", f"{q}: loop #{idx} (`{spec['head']}`) not found")

    # ---- function headers
    pos = 0
    while True:
        m = BODY_RE.search(text, pos)
        if not m:
            break
        q = m.group(1)
        c = contracts.get(q)
        ob = text.rfind("{", 0, m.start())
        if ob < 0 or text[ob + 1:m.start()].strip() != "":
            raise Undecided("lost-anchor", f"{q}: cannot find body brace")
        if c and (c.header or c.begin or c.attrs):
            blk = _block(f"{unit_name}|{q}|header|0", c.header) if c.header else ""
            bblk = _block(f"{unit_name}|{q}|begin|0", c.begin) if c.begin else ""
            f = fninfo.get(q, {})
            reqs = [cl for cl in clauses_of(c.header) if cl["kind"] == "requires"]
            can = ""
            short = q.split("::")[-1]
            if reqs and c.canary and not f.get("trait_impl") and not f.get("has_mut_ref"):
                # vacuity guard: the precondition alone must not prove `false` (this proof fn MUST FAIL)
                sigpos = max(text.rfind("fn " + short + "(", 0, ob), text.rfind("fn " + short + "<", 0, ob))
                if sigpos >= 0:
                    params = re.sub(r"\bmut\s+(?=\w+\s*:)", "", f.get("params", ""))
                    rtxt = "\n".join("        " + TAG_RE.sub("", cl["text"]).rstrip().rstrip(",") + "," for cl in reqs)
                    can = (f"//@@ {unit_name}|{q}|canary|0\n"
                           f"proof fn __vx_canary_{short}{f.get('generics','').split(' where ')[0]}({params}) {f.get('where_clause','')}\n"
                           f"    requires\n{rtxt}\n    ensures false\n{{}}\n//@@ end\n")
                    canaries.append(q)
                    ls = text.rfind("\n", 0, sigpos) + 1
                    text = text[:ls] + can + text[ls:]
                    ob += len(can)
                    m_end = m.end() + len(can)
                else:
                    m_end = m.end()
            else:
                m_end = m.end()
            if c.attrs:
                sp = max(text.rfind("fn " + short + "(", 0, ob), text.rfind("fn " + short + "<", 0, ob))
                if sp < 0:
                    raise Undecided("lost-anchor", f"{q}: cannot place attributes")
                ls2 = text.rfind("\n", 0, sp) + 1
                atxt = "".join(a + "\n" for a in c.attrs)
                text = text[:ls2] + atxt + text[ls2:]
                ob += len(atxt)
                m_end += len(atxt)
            new = text[:ob] + "\n" + blk + "{\n" + bblk
            text = new + text[m_end:]
            pos = len(new)
            used.add(q)
        else:
            text = text[:m.start()] + text[m.end():]
            pos = m.start()
        if c:
            used.add(q)

    # ---- named return values
    while True:
        m = RET_RE.search(text)
        if not m:
            break
        op = m.start()
        cl = _find_matching(text, op, "(", ")")
        inner = text[m.end():cl].rstrip()
        if inner.endswith(","):
            inner = inner[:-1].rstrip()
        inner = re.sub(r"\s*\n\s*", " ", inner)
        text = text[:op] + f"({m.group(1)}: {inner})" + text[cl + 1:]
    if "__vx_body!" in text or "__vx_loop!" in text or "__vx_ret_" in text:
        raise Undecided("splice-failed", "marker left in " + item["selector"])
    return text


def assemble(unit, ex, extra_spec=""):
    """Build the single Verus file of a unit. Returns (text, contracts, order)."""
    d = unit["dir"]
    contracts, order = parse_contracts(os.path.join(d, "contracts.vc"))
    used = set()
    parts = []
    parts.append("// GENERATED on every run by /verif/run/engine.py — do not edit.\n"
                 "// Function bodies below are extracted mechanically from /repo (tools/vx); ghost text sits between //@@ sentinels.\n"
                 "#![allow(unused_imports, unused_variables, dead_code, unused_mut, unused_parens, non_snake_case, unreachable_code, unreachable_patterns, private_interfaces)]\n"
                 "use vstd::prelude::*;\n")
    parts.append("verus! {\n")
    for fn in unit.get("prelude", ["prelude.rs"]):
        p = os.path.join(d, fn) if not fn.startswith("/") and not fn.startswith("../") else os.path.normpath(os.path.join(d, fn))
        if os.path.exists(p):
            parts.append(f"//@@ file {os.path.relpath(p, VERIF)}\n" + open(p).read().rstrip("\n") + "\n//@@ end\n")
    for fn in unit.get("spec", ["spec.rs"]):
        p = os.path.normpath(os.path.join(d, fn))
        if os.path.exists(p):
            parts.append(f"//@@ file {os.path.relpath(p, VERIF)}\n" + open(p).read().rstrip("\n") + "\n//@@ end\n")
    if extra_spec:
        parts.append(extra_spec)
    if unit.get("decimal_literal_axioms"):
        # stated transformation: a string literal made of decimal digits denotes the integer written with the same digits.
        # One axiom per such literal of the extracted source (regenerated from /repo's text on every run).
        lits = sorted({m for it in ex["items"] for m in re.findall(r'"(\d+)"', it["text"])})
        def _biglit(n):
            # rustc parses integer literals as u128: larger values are written in base 2^64
            n = int(n)
            if n < 2 ** 100:
                return f"{n}int"
            ls = []
            while n:
                ls.append(n % 2 ** 64)
                n //= 2 ** 64
            e = f"{ls[-1]}int"
            for l in reversed(ls[:-1]):
                e = f"({e} * 18446744073709551616int + {l}int)"
            return e
        cl = ",\n        ".join(f'dec_ok("{x}") && dec_value("{x}") == {_biglit(x)}' for x in lits) or "true"
        parts.append("//@@ " + unit["name"] + "|<decimal literals>|axiom|0\n#[verifier::external_body]\npub proof fn lemma_dec_literals()\n    ensures\n        " + cl + ",\n{}\n//@@ end\n")
    # several prelude/spec files may import the same names: expand `use a::{x, y};` and keep the first of each
    seen_use = set()
    for k in range(len(parts)):
        out_lines = []
        for l in parts[k].split("\n"):
            m1 = re.match(r"^use ([\w:]+)::\{([^}]*)\};\s*$", l)
            m2 = re.match(r"^use ([\w:]+(?:::\*)?);\s*$", l)
            if m1:
                for n in [x.strip() for x in m1.group(2).split(",") if x.strip()]:
                    u = f"use {m1.group(1)}::{n};"
                    if u not in seen_use:
                        seen_use.add(u)
                        out_lines.append(u)
            elif m2:
                u = f"use {m2.group(1)};"
                if u not in seen_use:
                    seen_use.add(u)
                    out_lines.append(u)
            else:
                out_lines.append(l)
        parts[k] = "\n".join(out_lines)
    canaries = []
    # ---- callee contracts imported from another unit (modular verification: contracts, not bodies)
    for imp in unit.get("import_contracts", []):
        parts.append(import_contract_stubs(imp))
    # a source may ask for its items to live in a module of their own (name clashes between /repo modules)
    src_mod = {}
    for s_ in unit["sources"]:
        if s_.get("module"):
            mp = s_.get("module_prelude", "")
            if s_.get("module_prelude_file"):
                mp += "\n" + open(os.path.join(d, s_["module_prelude_file"])).read()
            src_mod[os.path.join(REPO, s_["file"])] = (s_["module"], mp, bool(s_.get("module_no_super")))
    cur_mod = None
    for it in ex["items"]:
        m_ = src_mod.get(it["file"])
        if (m_ and m_[0]) != cur_mod:
            if cur_mod:
                parts.append("} // mod " + cur_mod + "\n")
            cur_mod = m_[0] if m_ else None
            if cur_mod:
                sup = "" if m_[2] else "use super::*;\n"
                parts.append(f"pub mod {cur_mod} {{\n{sup}use vstd::prelude::*;\n{m_[1]}\n")
        parts.append(f"//@@ item {it['file']}:{it['line']} {it['selector']}\n")
        txt = splice_item(it, contracts, unit["name"], used, canaries)
        if it["kind"] == "const" and it["name"] in unit.get("exec_consts", []):
            # Verus mode annotation (ghost-only): the constant is computed by executable code
            txt = re.sub(r"\bconst\s+" + re.escape(it["name"]) + r"\b", "exec const " + it["name"], txt, count=1)
            txt = "#[verifier::external_body]\n" + txt if it["name"] in unit.get("opaque_consts", []) else txt
        parts.append(txt)
        parts.append("//@@ end\n")
    if cur_mod:
        parts.append("} // mod " + cur_mod + "\n")
    # global vacuity guard: the trusted prelude and the specification must not prove `false` (this proof fn MUST FAIL)
    parts.append("//@@ " + unit["name"] + "|<prelude>|canary|0\nproof fn __vx_canary_prelude()\n    ensures false\n{}\n//@@ end\n")
    canaries.append("<prelude>::prelude")
    parts.append("} // verus!\nfn main() {}\n")
    known = {f["name"] for it in ex["items"] for f in it["fns"]}
    for q in contracts:
        if q not in known:
            raise Undecided("lost-anchor", f"contract for `{q}` but no such function was extracted")
    unit["_canaries"] = canaries
    return "".join(parts), contracts, order


def import_contract_stubs(imp):
    """external_body stubs of another unit's functions carrying exactly that unit's contracts.
    Signatures come from /repo (vx), contracts from that unit's contracts.vc; the obligation that the bodies satisfy
    them is discharged by that unit's own check (listed in the ledger as a cross-unit assumption)."""
    src_unit = load_unit(imp["unit"])
    ex = extract(src_unit)
    contracts, _ = parse_contracts(os.path.join(src_unit["dir"], "contracts.vc"))
    want = set(imp.get("fns", []))
    out = [f"//@@ file imported-contracts:{imp['unit']}\n"]
    if imp.get("as_mod"):
        out.append(f"pub mod {imp['as_mod']} {{\nuse super::*;\nuse vstd::prelude::*;\n")
    seen = set()
    for it in ex["items"]:
        if it["kind"] != "fn" or (want and it["name"] not in want):
            continue
        c = contracts.get(it["name"])
        if c is None or not c.header:
            continue
        tmp_contracts = {it["name"]: c}
        saved = (c.begin, c.inserts, c.loops, c.canary, c.attrs)
        c.begin, c.inserts, c.loops, c.canary, c.attrs = [], [], {}, False, []
        try:
            text = splice_item(it, tmp_contracts, imp["unit"], set(), [])
        finally:
            c.begin, c.inserts, c.loops, c.canary, c.attrs = saved
        k = text.find("//@@ end\n{")
        if k < 0:
            raise Undecided("lost-anchor", f"import_contracts: cannot cut body of {it['name']}")
        head = text[:k]
        # drop the decreases clause (termination is the exporting unit's obligation) and the sentinels
        lines = []
        skip = False
        for l in head.split("\n"):
            st = l.strip()
            if st.startswith("//@@"):
                continue
            if st.startswith("decreases"):
                skip = True
                continue
            if skip and re.match(r"^(requires|ensures|recommends)\b", st):
                skip = False
            if not skip:
                lines.append(TAG_RE.sub("", l))
        sig = "\n".join(lines)
        sig = re.sub(r"^(\s*)(pub\s+)?fn\s", r"\1pub fn ", sig, count=1, flags=re.M)
        out.append("#[verifier::external_body]\n" + sig.rstrip() + "\n{ unimplemented!() }\n")
        seen.add(it["name"])
    for w in want - seen:
        raise Undecided("lost-anchor", f"import_contracts: no contract for {w} in unit {imp['unit']}")
    if imp.get("as_mod"):
        out.append("}\n")
    out.append("//@@ end\n")
    return "".join(out)


def line_map(gen_text):
    """list of (start_line, end_line, ident) for sentinel-bracketed regions (1-based, inclusive)."""
    regions = []
    stack = []
    for i, l in enumerate(gen_text.split("\n"), 1):
        s = l.strip()
        if s.startswith("//@@ end"):
            if stack:
                st, ident = stack.pop()
                regions.append((st, i, ident))
        elif s.startswith("//@@ "):
            stack.append((i, s[5:]))
    return regions


def fn_ranges(gen_text, ex):
    """line ranges of extracted functions in the generated text (by signature search + brace matching)."""
    out = {}
    for it in ex["items"]:
        for f in it["fns"]:
            if not f["has_body"]:
                continue
            short = f["name"].split("::")[-1]
            owner = f["name"].split("::")[0] if "::" in f["name"] else None
            # search inside this item's region
            tag = f"//@@ item {it['file']}:{it['line']} {it['selector']}\n"
            a = gen_text.find(tag)
            if a < 0:
                continue
            b = gen_text.find("//@@ end", a)
            # item regions contain nested sentinels: find the item's end as the next "//@@ item" or file end
            nb = gen_text.find("//@@ item ", a + 1)
            b = nb if nb >= 0 else len(gen_text)
            m = re.search(r"\bfn\s+" + re.escape(short) + r"\b", gen_text[a:b])
            if not m:
                continue
            s = a + m.start()
            # body brace: first '{' after the signature that is followed (modulo sentinels) by body; use the
            # first '{' at paren depth 0 after the parameter list that is preceded by newline or space and
            # is not inside a contract block -> simply: the first "{" after the header sentinel block, if any
            hdr = gen_text.find(f"|{f['name']}|header|0", s, b)
            nextfn = re.search(r"\n\s*(pub\s+)?(proof\s+|spec\s+|open\s+spec\s+|closed\s+spec\s+)?fn\s", gen_text[s + 3:b])
            lim = s + 3 + nextfn.start() if nextfn else b
            if 0 <= hdr < lim:
                e = gen_text.find("//@@ end", hdr)
                ob = gen_text.find("{", e)
            else:
                # skip the parameter list
                po = gen_text.find("(", s)
                pc = _find_matching(gen_text, po, "(", ")")
                ob = gen_text.find("{", pc)
            cb = _find_matching(gen_text, ob, "{", "}")
            if cb < 0:
                continue
            l0 = gen_text.count("\n", 0, s) + 1
            l1 = gen_text.count("\n", 0, cb) + 1
            out[f["name"]] = (l0, l1)
    return out


# ------------------------------------------------------------------------------------------------
# verus

def run_verus(path, rlimit=None, extra=None, timeout=1800):
    cmd = ["verus", path, "--output-json", "--time", "--error-format=json", "--multiple-errors", "10",
           "--num-threads", str(os.cpu_count() or 4)]
    if rlimit:
        cmd += ["--rlimit", str(rlimit)]
    if extra:
        cmd += extra
    t0 = time.time()
    try:
        p = subprocess.run(cmd, capture_output=True, text=True, timeout=timeout, cwd=os.path.dirname(path))
    except subprocess.TimeoutExpired:
        raise Undecided("verus-timeout", " ".join(cmd))
    wall = time.time() - t0
    diags = []
    for l in p.stderr.split("\n"):
        l = l.strip()
        if l.startswith("{") and '"$message_type"' in l:
            try:
                diags.append(json.loads(l))
            except Exception:
                pass
    try:
        # stdout holds one JSON object (may be preceded by notes)
        i = p.stdout.index("{")
        res = json.loads(p.stdout[i:])
    except Exception:
        raise Undecided("verus-crash", (p.stderr or p.stdout)[-3000:])
    return {"cmd": " ".join(cmd), "rc": p.returncode, "json": res, "diags": diags, "wall": wall, "stderr": p.stderr}


def function_results(vres):
    """{short function path: {success, time_ms, rlimit, mode}} from verus' JSON"""
    out = {}
    smt = vres["json"].get("times-ms", {}).get("smt", {})
    for mod in smt.get("smt-run-module-times", []):
        for fb in mod.get("function-breakdown", []):
            name = fb["function"]
            parts_ = name.split("::")[1:] if "::" in name else [name]
            # drop module prefixes: keep `Type::method` or the bare function name
            if len(parts_) >= 2 and parts_[-2][:1].isupper():
                name = parts_[-2] + "::" + parts_[-1]
            else:
                name = parts_[-1]
            prev = out.get(name)
            rec = {"success": fb.get("success", False), "time_us": fb.get("time-micros", 0), "rlimit": fb.get("rlimit", 0),
                   "mode": fb.get("mode:", fb.get("mode", ""))}
            if prev:
                rec["success"] = rec["success"] and prev["success"]
                rec["time_us"] += prev["time_us"]
                rec["rlimit"] += prev["rlimit"]
            out[name] = rec
    return out


def render_diag(d):
    return d.get("rendered") or d.get("message", "")
