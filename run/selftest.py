#!/usr/bin/env python3
"""run/selftest.py [unit ...] — apply each deliberate edit of units/<unit>/selftest.json to a scratch worktree of /repo
(never to /repo itself) and confirm that the check reports a violation (or, for harmless variants, still passes).
Not part of any registered command."""
import json, os, subprocess, sys, shutil, tempfile
HERE = os.path.dirname(os.path.abspath(__file__))
VERIF = os.path.dirname(HERE)

def sh(cmd, **kw):
    return subprocess.run(cmd, shell=True, capture_output=True, text=True, **kw)

def main():
    units = sys.argv[1:] or sorted(d for d in os.listdir(os.path.join(VERIF, "units")) if os.path.exists(os.path.join(VERIF, "units", d, "selftest.json")))
    wt = tempfile.mkdtemp(prefix="vx-selftest-", dir="/tmp")
    os.rmdir(wt)
    r = sh(f"git -C /repo worktree add --detach {wt} HEAD")
    if r.returncode != 0:
        print(r.stderr); sys.exit(2)
    bad = 0
    try:
        for u in units:
            tests = json.load(open(os.path.join(VERIF, "units", u, "selftest.json")))
            for t in tests:
                sh(f"git -C {wt} checkout -- .")
                for e in t["edits"]:
                    p = os.path.join(wt, e["file"])
                    s = open(p).read()
                    if s.count(e["old"]) != e.get("count", 1):
                        print(f"[{u}] {t['name']}: edit anchor occurs {s.count(e['old'])} times (expected {e.get('count',1)}) — SELFTEST BROKEN"); bad += 1; break
                    open(p, "w").write(s.replace(e["old"], e["new"]))
                else:
                    for prop in t["props"]:
                        env = dict(os.environ, VERIF_REPO=wt, VERIF_NO_EVIDENCE="1")
                        r = subprocess.run([os.path.join(VERIF, "check"), prop], capture_output=True, text=True, env=env)
                        want = {"violation": 1, "ok": 0, "undecided": 2}[t["expect"]]
                        status = "as expected" if r.returncode == want else "UNEXPECTED"
                        if r.returncode != want: bad += 1
                        line = next((l for l in r.stdout.split("\n") if l.startswith(("VIOLATION", "OK ", "UNDECIDED"))), "")
                        fo = [l.split("obligation=")[1].split(" ")[0] for l in r.stdout.split("\n") if l.startswith("FAILED-OBLIGATION")]
                        print(f"[{u}] {t['name']:<55} {prop} exit={r.returncode} ({status}) {line[:110]} {fo[:3]}")
    finally:
        sh(f"git -C /repo worktree remove --force {wt}")
    print("selftest:", "ALL AS EXPECTED" if bad == 0 else f"{bad} UNEXPECTED")
    sys.exit(1 if bad else 0)
main()
