pragma circom 2.0.0;
function f(p, q) {
  var r = 0;
    if (q > 1) {
      if (q == 7) { r = r + 1; }
    }
    if (p == 7) { r = r + 1; }
    if (q > 2) {
      var p = 101;
    }
    if (q > 5) {
      if (q > 6) {
        while (r < 8) {
          var p = 102;
          var y_0 = 103;
          if (y_0 == 103) { r = r + 1; }
            r = r + 1;
        }
        if (p == 7) { r = r + 1; }
      } else {
        var x_0 = 104;
        if (x_0 == 104) { r = r + 1; }
      }
    } else {
        for (var y = 0; y < 2; y++) {
          while (r < 8) {
            if (q == 7) { r = r + 1; }
            if (q == 7) { r = r + 1; }
            if (y == 7) { r = r + 1; }
              r = r + 1;
          }
          var y_0 = 105;
          if (q > 5) {
            if (y == 7) { r = r + 1; }
            if (q == 7) { r = r + 1; }
          } else {
            if (y_0 == 105) { r = r + 1; }
          }
      }
      if (q > 5) {
        var y_0 = 106;
        if (p == 7) { r = r + 1; }
        var p = 107;
      } else {
        if (q > 6) {
          if (p == 7) { r = r + 1; }
          if (p == 7) { r = r + 1; }
        }
      }
    }
    var p = 108;
    var x_0 = 109;
    if (q == 7) { r = r + 1; }
    if (x_0 == 109) { r = r + 1; }
    if (q > 6) {
      var x = 110;
      var y_0 = 111;
    }
    if (q == 7) { r = r + 1; }
    if (q > 1) {
      var x_0 = 112;
    }
    if (p == 108) { r = r + 1; }
    var x_1 = 113;
  return r;
}
template T() { signal input in; signal output out; out <== in + f(1, 2); }
component main = T();
